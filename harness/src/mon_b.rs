//! Monitors for C12 (positions), C14 (line-break style), C17 (pull / peek / push agree).

use crate::events::*;
use crate::family::nontrivial;
use crate::mon_a::{case_json, describe_diff};
use crate::util::{catch, Rng, Stats, Violation, J};
use saphyr::{LoadableYamlNode, MarkedYaml, MarkedYamlOwned, YamlData, YamlDataOwned, YamlLoader};
use saphyr_parser::{Event, Parser, ScalarStyle, Span, SpannedEventReceiver};

fn viol(stats: &mut Stats, sig: String, msg: String, case: J) {
    stats.violation(Violation { sig, msg, case });
}

// ------------------------------------------------------------------------------------------------
// C12
// ------------------------------------------------------------------------------------------------

/// (line, col) of every char index 0..=n by counting LF, lone CR and CRLF-as-one.
pub fn recount_table(chars: &[char]) -> Vec<(usize, usize)> {
    let mut t = Vec::with_capacity(chars.len() + 1);
    let (mut line, mut col) = (1usize, 0usize);
    for i in 0..chars.len() {
        t.push((line, col));
        let c = chars[i];
        if c == '\n' || (c == '\r' && chars.get(i + 1) != Some(&'\n')) {
            line += 1;
            col = 0;
        } else {
            col += 1;
        }
    }
    t.push((line, col));
    t
}

fn check_pos(p: &Pos, n: usize, table: &[(usize, usize)], eff_end: usize) -> Result<(), (&'static str, String)> {
    if p.index > n {
        return Err(("index-beyond-input", format!("index {} > input length {}", p.index, n)));
    }
    // A NUL character is the scanner's end-of-input sentinel: positions at or after the first NUL
    // are "at the end" (where the scanner forces a new line) and exempt from the recount.
    if p.index < eff_end {
        let (l, c) = table[p.index];
        if (l, c) != (p.line, p.col) {
            return Err(("line-col-mismatch", format!("index {} reported as line {} col {} but recount gives line {} col {}", p.index, p.line, p.col, l, c)));
        }
    }
    Ok(())
}

/// Independent scanner for the closing quote of a quoted scalar starting at chars[start].
fn closing_quote(chars: &[char], start: usize) -> Option<usize> {
    let q = chars[start];
    let mut i = start + 1;
    while i < chars.len() {
        let c = chars[i];
        if q == '\'' {
            if c == '\'' {
                if chars.get(i + 1) == Some(&'\'') {
                    i += 2;
                    continue;
                }
                return Some(i);
            }
        } else if c == '\\' {
            i += 2;
            continue;
        } else if c == '"' {
            return Some(i);
        }
        i += 1;
    }
    None
}

fn check_positions(input: &str, chars: &[char], table: &[(usize, usize)], p: &Parsed, cfg: &str, stats: &mut Stats) {
    let n = chars.len();
    let eff_end = chars.iter().position(|c| *c == '\0').unwrap_or(n);
    let mut open: Vec<(usize, usize)> = vec![]; // (start index of start event, event number)
    for (i, (ev, sp)) in p.events.iter().enumerate() {
        stats.cnt("spans_checked", 1);
        for (which, pos) in [("start", &sp.start), ("end", &sp.end)] {
            if let Err((class, m)) = check_pos(pos, n, table, eff_end) {
                viol(
                    stats,
                    format!("C12/span/{class}/{}/{cfg}", ev.kind()),
                    format!("{cfg}: event #{i} {} span {which}: {m}", ev.line()),
                    case_json(input, vec![("config", J::s(cfg))]),
                );
            }
        }
        if sp.start.index > sp.end.index {
            viol(
                stats,
                format!("C12/span/start-after-end/{}/{cfg}", ev.kind()),
                format!("{cfg}: event #{i} {} has span {}", ev.line(), fmt_span(sp)),
                case_json(input, vec![("config", J::s(cfg))]),
            );
        }
        // nesting
        let is_node = matches!(ev, SEv::Scalar { .. } | SEv::Alias(_) | SEv::SeqStart { .. } | SEv::MapStart { .. });
        if is_node {
            if let Some(&(pstart, pi)) = open.last() {
                if sp.start.index < pstart {
                    viol(
                        stats,
                        format!("C12/nesting/child-before-parent/{}/{cfg}", ev.kind()),
                        format!("{cfg}: event #{i} {} starts at {} before its parent (event #{pi}) at {}", ev.line(), sp.start.index, pstart),
                        case_json(input, vec![("config", J::s(cfg))]),
                    );
                }
            }
        }
        match ev {
            SEv::SeqStart { .. } | SEv::MapStart { .. } => open.push((sp.start.index, i)),
            SEv::SeqEnd | SEv::MapEnd => {
                if let Some((pstart, pi)) = open.pop() {
                    if sp.end.index < pstart {
                        viol(
                            stats,
                            format!("C12/nesting/end-before-start/{}/{cfg}", ev.kind()),
                            format!("{cfg}: event #{i} {} ends at {} before its start event #{pi} at {}", ev.kind(), sp.end.index, pstart),
                            case_json(input, vec![("config", J::s(cfg))]),
                        );
                    }
                }
            }
            _ => {}
        }
        // scalar text rules
        if let SEv::Scalar { v, style, .. } = ev {
            if sp.start.index <= sp.end.index && sp.end.index <= n {
                match style {
                    ScalarStyle::Plain => {
                        if v == "~" && sp.start.index < sp.end.index && sp.start.line == sp.end.line {
                            // `~` is either written in the input or synthesized for an omitted node; a
                            // synthesized one has no text, so only an empty span (what most layouts get) or a
                            // span over a literal `~` satisfies the rule
                            let slice: String = chars[sp.start.index..sp.end.index].iter().collect();
                            stats.cnt("tilde_spans_checked", 1);
                            if slice != "~" {
                                viol(
                                    stats,
                                    "C12/scalar/plain-span-text/omitted-node-span-covers-following-token".to_string(),
                                    format!("{cfg}: the plain scalar \"~\" delivered for an omitted node has the non-empty span {} covering {slice:?}", fmt_span(sp)),
                                    case_json(input, vec![("config", J::s(cfg))]),
                                );
                            }
                        }
                        if !v.is_empty() && v != "~" && sp.start.line == sp.end.line {
                            let slice: String = chars[sp.start.index..sp.end.index].iter().collect();
                            stats.cnt("plain_spans_checked", 1);
                            if slice != *v {
                                viol(
                                    stats,
                                    format!("C12/scalar/plain-span-text/{cfg}"),
                                    format!("{cfg}: single-line plain scalar {v:?} has span {} covering {slice:?}", fmt_span(sp)),
                                    case_json(input, vec![("config", J::s(cfg))]),
                                );
                            }
                        }
                    }
                    ScalarStyle::SingleQuoted | ScalarStyle::DoubleQuoted => {
                        let q = if *style == ScalarStyle::SingleQuoted { '\'' } else { '"' };
                        stats.cnt("quoted_spans_checked", 1);
                        if sp.start.index >= n || chars[sp.start.index] != q {
                            viol(
                                stats,
                                format!("C12/scalar/quoted-start/{cfg}"),
                                format!("{cfg}: quoted scalar {v:?} span {} does not start at its opening quote", fmt_span(sp)),
                                case_json(input, vec![("config", J::s(cfg))]),
                            );
                        } else {
                            match closing_quote(chars, sp.start.index) {
                                Some(c) if c < sp.end.index => {}
                                other => viol(
                                    stats,
                                    format!("C12/scalar/quoted-end/{cfg}"),
                                    format!("{cfg}: quoted scalar {v:?} span {} does not contain its closing quote (found at {other:?})", fmt_span(sp)),
                                    case_json(input, vec![("config", J::s(cfg))]),
                                ),
                            }
                        }
                    }
                    _ => {}
                }
            }
        }
    }
    if let Some(e) = &p.error {
        stats.cnt("error_markers_checked", 1);
        if let Err((class, m)) = check_pos(&e.at, n, table, eff_end) {
            viol(
                stats,
                format!("C12/error/{class}/{cfg}"),
                format!("{cfg}: error {:?}: {m}", e.display),
                case_json(input, vec![("config", J::s(cfg))]),
            );
        }
        // the printed form shows the line and the 1-based column of the marker (nothing else about
        // its wording is asserted)
        let want = format!("line {} column {}", e.at.line, e.at.col + 1);
        if !e.display.contains(&want) || !e.display.contains(&e.info) {
            viol(
                stats,
                format!("C12/error/display/{cfg}"),
                format!("{cfg}: error prints as {:?}, which does not show {want:?} and its message", e.display),
                case_json(input, vec![("config", J::s(cfg))]),
            );
        }
    }
}

/// Tee: forwards each event to a real loader and logs it.
struct Tee<'i, N: LoadableYamlNode<'i>> {
    loader: YamlLoader<'i, N>,
    log: Vec<(SEv, SSpan)>,
}

impl<'i, N: LoadableYamlNode<'i>> SpannedEventReceiver<'i> for Tee<'i, N> {
    fn on_event(&mut self, ev: Event<'i>, span: Span) {
        self.log.push((sev(&ev), sspan(&span)));
        self.loader.on_event(ev, span);
    }
}

/// A uniform view on marked nodes for the span walk.
enum MView<'a> {
    Seq(Vec<(SSpan, MView<'a>)>),
    Map(Vec<((SSpan, MView<'a>), (SSpan, MView<'a>))>),
    Leaf,
    #[allow(dead_code)]
    P(std::marker::PhantomData<&'a ()>),
}

fn mview<'a>(n: &MarkedYaml<'a>) -> (SSpan, MView<'a>) {
    let v = match &n.data {
        YamlData::Sequence(s) => MView::Seq(s.iter().map(mview).collect()),
        YamlData::Mapping(m) => MView::Map(m.iter().map(|(k, v)| (mview(k), mview(v))).collect()),
        _ => MView::Leaf,
    };
    (sspan(&n.span), v)
}

fn mview_owned(n: &MarkedYamlOwned) -> (SSpan, MView<'static>) {
    let v = match &n.data {
        YamlDataOwned::Sequence(s) => MView::Seq(s.iter().map(mview_owned).collect()),
        YamlDataOwned::Mapping(m) => MView::Map(m.iter().map(|(k, v)| (mview_owned(k), mview_owned(v))).collect()),
        _ => MView::Leaf,
    };
    (sspan(&n.span), v)
}

/// Walk a loaded marked node against the event log. Returns Err(msg) on mismatch, Ok(false) if the
/// comparison had to be skipped (duplicate keys make the correspondence ambiguous).
fn walk(node: &(SSpan, MView), log: &[(SEv, SSpan)], idx: &mut usize, checked: &mut u64) -> Result<bool, String> {
    let Some((ev, sp)) = log.get(*idx) else { return Err("event log exhausted".into()) };
    if node.0 != *sp {
        return Err(format!("node created by event #{} {} has span {} but the event had span {}", *idx, ev.line(), fmt_span(&node.0), fmt_span(sp)));
    }
    *checked += 1;
    match ev {
        SEv::Scalar { .. } => {
            *idx += 1;
            Ok(true)
        }
        SEv::Alias(_) => {
            *idx += 1;
            Ok(true) // the copy's inner nodes keep the spans of the anchored original
        }
        SEv::SeqStart { .. } => {
            *idx += 1;
            let MView::Seq(items) = &node.1 else { return Err("SequenceStart did not create a sequence node".into()) };
            for it in items {
                if !walk(it, log, idx, checked)? {
                    return Ok(false);
                }
            }
            match log.get(*idx) {
                Some((SEv::SeqEnd, _)) => {
                    *idx += 1;
                    Ok(true)
                }
                _ => Err("sequence node has fewer items than the events delivered".into()),
            }
        }
        SEv::MapStart { .. } => {
            *idx += 1;
            let MView::Map(pairs) = &node.1 else { return Err("MappingStart did not create a mapping node".into()) };
            // count children in the log to detect duplicate keys
            let mut depth = 0usize;
            let mut children = 0usize;
            let mut j = *idx;
            while let Some((e, _)) = log.get(j) {
                match e {
                    SEv::SeqStart { .. } | SEv::MapStart { .. } => {
                        if depth == 0 {
                            children += 1;
                        }
                        depth += 1;
                    }
                    SEv::SeqEnd | SEv::MapEnd => {
                        if depth == 0 {
                            break;
                        }
                        depth -= 1;
                    }
                    SEv::Scalar { .. } | SEv::Alias(_) => {
                        if depth == 0 {
                            children += 1;
                        }
                    }
                    _ => {}
                }
                j += 1;
            }
            if children != pairs.len() * 2 {
                return Ok(false);
            }
            for (k, v) in pairs {
                if !walk(k, log, idx, checked)? {
                    return Ok(false);
                }
                if !walk(v, log, idx, checked)? {
                    return Ok(false);
                }
            }
            match log.get(*idx) {
                Some((SEv::MapEnd, _)) => {
                    *idx += 1;
                    Ok(true)
                }
                _ => Err("mapping node does not line up with the events delivered".into()),
            }
        }
        e => Err(format!("unexpected event {} where a node was expected", e.kind())),
    }
}

fn check_marked(input: &str, stats: &mut Stats) {
    // borrowed
    let r = catch(|| {
        let mut tee: Tee<MarkedYaml> = Tee { loader: YamlLoader::default(), log: vec![] };
        let mut p = Parser::new_from_str(input);
        let res = p.load(&mut tee, true);
        (res.is_ok(), tee.log, tee.loader.into_documents().iter().map(mview).collect::<Vec<_>>())
    });
    let r2 = catch(|| {
        let mut tee: Tee<MarkedYamlOwned> = Tee { loader: YamlLoader::default(), log: vec![] };
        let mut p = Parser::new_from_str(input);
        let res = p.load(&mut tee, true);
        (res.is_ok(), tee.log, tee.loader.into_documents().iter().map(mview_owned).collect::<Vec<_>>())
    });
    for (name, r) in [("MarkedYaml", r), ("MarkedYamlOwned", r2)] {
        let Ok((ok, log, docs)) = r else { continue };
        if !ok {
            continue;
        }
        let mut idx = 0usize;
        let mut di = 0usize;
        let mut checked = 0u64;
        let mut fail: Option<String> = None;
        while idx < log.len() {
            match &log[idx].0 {
                SEv::DocStart(_) => {
                    idx += 1;
                    let Some(d) = docs.get(di) else {
                        fail = Some("fewer documents than DocumentStart events".into());
                        break;
                    };
                    match walk(d, &log, &mut idx, &mut checked) {
                        Ok(true) => {}
                        Ok(false) => {
                            stats.cnt("marked_docs_skipped_duplicate_keys", 1);
                            // skip to this document's end
                            while idx < log.len() && log[idx].0 != SEv::DocEnd {
                                idx += 1;
                            }
                        }
                        Err(m) => {
                            fail = Some(m);
                            break;
                        }
                    }
                    di += 1;
                }
                _ => idx += 1,
            }
        }
        stats.cnt("marked_nodes_checked", checked);
        if let Some(m) = fail {
            viol(
                stats,
                format!("C12/marked-span/{name}"),
                format!("{name}: {m}"),
                case_json(input, vec![("config", J::s(name))]),
            );
        }
    }
}

pub fn check_c12(input: &str, stats: &mut Stats) {
    let chars: Vec<char> = input.chars().collect();
    let table = recount_table(&chars);
    let mut first = None;
    for (cfg, which) in [("StrInput", 0), ("BufferedInput", 1), ("push/StrInput", 2)] {
        let r = catch(|| match which {
            0 => parse_str(input),
            1 => parse_iter(input),
            _ => push_all(&mut Parser::new_from_str(input)),
        });
        // overflow / debug_assert panics in the position arithmetic (chk build) are C12 observations
        let p = match r {
            Ok(p) => p,
            Err(pm) => {
                if pm.contains("overflow") || pm.contains("subtract") {
                    viol(
                        stats,
                        format!("C12/arith-panic/{}/{cfg}", crate::util::panic_site(&pm)),
                        format!("{cfg}: arithmetic panic in position bookkeeping: {pm}"),
                        case_json(input, vec![("config", J::s(cfg))]),
                    );
                }
                continue;
            }
        };
        check_positions(input, &chars, &table, &p, cfg, stats);
        if first.is_none() {
            first = Some(p);
        }
    }
    if first.as_ref().is_some_and(|p| p.ok()) {
        check_marked(input, stats);
    }
    // the same rules on the CRLF / CR spelling of the input (positions are recounted on that text)
    if !input.contains('\r') && input.contains('\n') && crate::util::fnv64(input.as_bytes()) % 3 == 0 {
        for (name, variant) in [("crlf", input.replace('\n', "\r\n")), ("cr", input.replace('\n', "\r"))] {
            let vchars: Vec<char> = variant.chars().collect();
            let vtable = recount_table(&vchars);
            for (cfg, it) in [("StrInput", false), ("BufferedInput", true)] {
                if let Ok(p) = catch(|| if it { parse_iter(&variant) } else { parse_str(&variant) }) {
                    stats.cnt("line_break_variants_checked", 1);
                    check_positions(&variant, &vchars, &vtable, &p, &format!("{name}/{cfg}"), stats);
                }
            }
        }
    }
    let nt = first.as_ref().is_some_and(nontrivial);
    stats.eval(if nt { Some(input.as_bytes()) } else { None });
    if nt && stats.want_sample() && input.len() > 3 {
        let p = first.unwrap();
        stats.sample(J::obj(vec![
            ("input", J::s(input)),
            ("spans", J::Arr(p.events.iter().take(12).map(|(e, s)| J::s(&format!("{} @{}", e.line(), fmt_span(s)))).collect())),
            ("error", p.error.map_or(J::Null, |e| J::s(&e.display))),
        ]));
    }
}

// ------------------------------------------------------------------------------------------------
// C14
// ------------------------------------------------------------------------------------------------

fn linecol_view(p: &Parsed) -> (Vec<(SEv, (usize, usize), (usize, usize))>, Option<(String, usize, usize)>) {
    (
        p.events.iter().map(|(e, s)| (e.clone(), (s.start.line, s.start.col), (s.end.line, s.end.col))).collect(),
        p.error.as_ref().map(|e| (e.info.clone(), e.at.line, e.at.col)),
    )
}

pub fn check_c14(input: &str, stats: &mut Stats) {
    if input.contains('\r') {
        stats.cnt("skipped_contains_cr", 1);
        stats.eval(None);
        return;
    }
    let crlf = input.replace('\n', "\r\n");
    let cr = input.replace('\n', "\r");
    let has_break = input.contains('\n');
    let mut first = None;
    for (cfg, iter) in [("StrInput", false), ("BufferedInput", true)] {
        let run = |s: &str| catch(|| if iter { parse_iter(s) } else { parse_str(s) });
        let (Ok(a), Ok(b), Ok(c)) = (run(input), run(&crlf), run(&cr)) else { continue };
        let va = linecol_view(&a);
        for (name, other, text) in [("CRLF", &b, &crlf), ("CR", &c, &cr)] {
            let vo = linecol_view(other);
            stats.cnt("comparisons", 1);
            if va != vo {
                let class = if va.0.len() != vo.0.len() || va.0.iter().zip(vo.0.iter()).any(|(x, y)| x.0 != y.0) {
                    "events"
                } else if va.0 != vo.0 {
                    "line-col"
                } else {
                    "error"
                };
                let mut detail = String::new();
                for (i, (x, y)) in va.0.iter().zip(vo.0.iter()).enumerate() {
                    if x != y {
                        detail = format!("event #{i}: LF {} {:?}-{:?} vs {name} {} {:?}-{:?}", x.0.line(), x.1, x.2, y.0.line(), y.1, y.2);
                        break;
                    }
                }
                if detail.is_empty() {
                    detail = format!("LF: {} events, error {:?}; {name}: {} events, error {:?}", va.0.len(), va.1, vo.0.len(), vo.1);
                }
                viol(
                    stats,
                    format!("C14/{name}/{class}/{cfg}"),
                    format!("{cfg}: parse differs between LF and {name}: {detail}"),
                    J::obj(vec![("input", J::s(input)), ("variant", J::s(text)), ("config", J::s(cfg))]),
                );
            }
        }
        if first.is_none() {
            first = Some(a);
        }
    }
    let nt = has_break && first.as_ref().is_some_and(nontrivial);
    stats.eval(if nt { Some(input.as_bytes()) } else { None });
    if has_break {
        stats.cnt("inputs_with_breaks", 1);
    }
    if nt && stats.want_sample() && input.len() > 5 {
        stats.sample(J::obj(vec![("lf_input", J::s(input)), ("crlf_variant", J::s(&crlf)), ("outcome", first.unwrap().error.map_or(J::s("complete stream"), |e| J::s(&e.info)))]));
    }
}

// ------------------------------------------------------------------------------------------------
// C17
// ------------------------------------------------------------------------------------------------

#[derive(Clone, PartialEq, Debug)]
enum Item {
    Ev(SEv, SSpan),
    Err(SErr),
}

/// Run one peek/next history. `peeks[i]` = number of peeks before the i-th next. Returns Err(msg)
/// on the first disagreement with the plain iteration `reference`.
fn run_history(input: &str, reference: &[Item], peeks: &[u8], iter_backend: bool) -> Result<u64, String> {
    fn drive<T: saphyr_parser::Input>(mut p: Parser<'_, T>, reference: &[Item], peeks: &[u8]) -> Result<u64, String> {
        let mut i = 0usize;
        let mut ops = 0u64;
        for (step, &np) in peeks.iter().enumerate() {
            let mut last_peek: Option<Item> = None;
            for k in 0..np {
                ops += 1;
                let got = match p.peek() {
                    None => None,
                    Some(Ok((e, s))) => Some(Item::Ev(sev(e), sspan(s))),
                    Some(Err(e)) => Some(Item::Err(serr(&e))),
                };
                let want = reference.get(i).cloned();
                if got != want {
                    return Err(format!("step {step}: peek #{k} before next #{i} returned {got:?}, plain iteration gives {want:?}"));
                }
                if let Some(lp) = &last_peek {
                    if Some(lp) != got.as_ref() {
                        return Err(format!("step {step}: two successive peeks differ: {lp:?} then {got:?}"));
                    }
                }
                // an error seen by peek is not consumed either: further peeks and the following next
                // return it again (the consumer stops after that next)
                last_peek = got;
            }
            ops += 1;
            let got = match p.next_event() {
                None => None,
                Some(Ok((e, s))) => Some(Item::Ev(sev(&e), sspan(&s))),
                Some(Err(e)) => Some(Item::Err(serr(&e))),
            };
            let want = reference.get(i).cloned();
            if got != want {
                return Err(format!("step {step}: next #{i} after {np} peek(s) returned {got:?}, plain iteration gives {want:?}"));
            }
            if matches!(got, Some(Item::Err(_))) {
                return Ok(ops);
            }
            if got.is_some() {
                i += 1;
            }
        }
        Ok(ops)
    }
    if iter_backend {
        drive(Parser::new_from_iter(input.chars()), reference, peeks)
    } else {
        drive(Parser::new_from_str(input), reference, peeks)
    }
}

fn reference_items(p: &Parsed) -> Vec<Item> {
    let mut v: Vec<Item> = p.events.iter().map(|(e, s)| Item::Ev(e.clone(), *s)).collect();
    if let Some(e) = &p.error {
        v.push(Item::Err(e.clone()));
    }
    v
}

pub fn check_c17(input: &str, stats: &mut Stats, rng: &mut Rng, exhaustive_budget: &mut u64) {
    let Ok(plain) = catch(|| parse_str(input)) else {
        stats.eval(None);
        return;
    };
    let reference = reference_items(&plain);
    let m = reference.len();
    // number of next positions: all items, plus two calls after the end
    let positions = m + 2;

    // (a) exhaustive histories for short streams
    let mut histories = 0u64;
    if positions <= 9 && *exhaustive_budget > 0 {
        *exhaustive_budget -= 1;
        let total = 3u64.pow(positions as u32);
        let mut peeks = vec![0u8; positions];
        for h in 0..total {
            let mut x = h;
            for slot in peeks.iter_mut() {
                *slot = (x % 3) as u8;
                x /= 3;
            }
            histories += 1;
            match catch(|| run_history(input, &reference, &peeks, false)) {
                Ok(Ok(ops)) => stats.cnt("history_ops", ops),
                Ok(Err(msg)) => {
                    viol(
                        stats,
                        "C17/history/peek-next/StrInput".into(),
                        format!("history {peeks:?}: {msg}"),
                        J::obj(vec![("input", J::s(input)), ("history", J::Arr(peeks.iter().map(|x| J::Int(*x as i64)).collect()))]),
                    );
                    break;
                }
                Err(_) => break,
            }
        }
        stats.cnt("inputs_with_all_histories", 1);
    }
    // (b) random histories, both back-ends
    for k in 0..4 {
        let peeks: Vec<u8> = (0..positions).map(|_| if rng.chance(1, 2) { 0 } else { rng.range(1, 3) as u8 }).collect();
        let it = k % 2 == 1;
        histories += 1;
        match catch(|| run_history(input, &reference, &peeks, it)) {
            Ok(Ok(ops)) => stats.cnt("history_ops", ops),
            Ok(Err(msg)) => viol(
                stats,
                format!("C17/history/peek-next/{}", if it { "BufferedInput" } else { "StrInput" }),
                format!("history {peeks:?}: {msg}"),
                J::obj(vec![("input", J::s(input)), ("history", J::Arr(peeks.iter().map(|x| J::Int(*x as i64)).collect()))]),
            ),
            Err(_) => {}
        }
    }
    stats.cnt("histories", histories);

    // (c) push (multi = true) vs pull
    for it in [false, true] {
        let cfg = if it { "BufferedInput" } else { "StrInput" };
        let pull = if it { catch(|| parse_iter(input)) } else { Ok(plain.clone()) };
        let push = catch(|| if it { push_all(&mut Parser::new_from_iter(input.chars())) } else { push_all(&mut Parser::new_from_str(input)) });
        if let (Ok(pull), Ok(push)) = (pull, push) {
            stats.cnt("push_pull_comparisons", 1);
            if pull != push {
                let class = match (&pull.error, &push.error) {
                    (None, Some(_)) => "error-only-in-push",
                    (Some(_), None) => "error-only-in-pull",
                    (Some(a), Some(b)) if a != b => "different-error",
                    _ => "events",
                };
                viol(
                    stats,
                    format!("C17/push-vs-pull/{class}/{cfg}"),
                    format!("{cfg}: iterator vs load(multi=true): {}", describe_diff(&pull, &push)),
                    case_json(input, vec![("config", J::s(cfg))]),
                );
            }
        }
    }

    // (c') the span-less receiver interface (`EventReceiver`, adapted by the library) gets the same events
    {
        struct Plain(Vec<SEv>, usize);
        impl<'i> saphyr_parser::EventReceiver<'i> for Plain {
            fn on_event(&mut self, ev: saphyr_parser::Event<'i>) {
                if self.0.len() < self.1 {
                    self.0.push(sev(&ev));
                }
            }
        }
        let r = catch(|| {
            let mut rec = Plain(vec![], safety_cap(input));
            let res = Parser::new_from_str(input).load(&mut rec, true);
            (rec.0, res.err().map(|e| serr(&e)))
        });
        if let Ok((evs, err)) = r {
            stats.cnt("spanless_push_comparisons", 1);
            let want: Vec<SEv> = plain.events.iter().map(|e| e.0.clone()).collect();
            if !plain.capped && (evs != want || err != plain.error) {
                viol(
                    stats,
                    "C17/push-vs-pull/spanless-receiver".into(),
                    format!("an EventReceiver got {} events / error {:?}; the iterator gives {} events / error {:?}", evs.len(), err.map(|e| e.display), want.len(), plain.error.as_ref().map(|e| e.display.clone())),
                    case_json(input, vec![]),
                );
            }
        }
    }

    // (d) repeated load(multi = false)
    let single = catch(|| {
        let mut p = Parser::new_from_str(input);
        let mut rec = Recorder::default();
        let mut calls = 0usize;
        let mut err = None;
        let mut max_docs_per_call = 0usize;
        loop {
            calls += 1;
            let before = rec.events.len();
            let res = p.load(&mut rec, false);
            let docs_in_call = rec.events[before..].iter().filter(|e| matches!(e.0, SEv::DocStart(_))).count();
            max_docs_per_call = max_docs_per_call.max(docs_in_call);
            match res {
                Err(e) => {
                    err = Some(serr(&e));
                    break;
                }
                Ok(()) => {}
            }
            if rec.events.last().map(|e| &e.0) == Some(&SEv::StreamEnd) {
                break;
            }
            if rec.events.len() == before || calls > 10_000 {
                break;
            }
        }
        // one more call after the stream has ended delivers nothing
        let mut extra = 0usize;
        if err.is_none() && rec.events.last().map(|e| &e.0) == Some(&SEv::StreamEnd) {
            let mut rec2 = Recorder { events: vec![], cap: 64 };
            let _ = p.load(&mut rec2, false);
            extra = rec2.events.len();
        }
        (rec.events, err, calls, max_docs_per_call, extra)
    });
    if let Ok((evs, err, calls, max_docs_per_call, extra)) = single {
        if extra > 0 {
            viol(
                stats,
                "C17/after-stream-end/load-multi-false-delivers-more".into(),
                format!("after the load(multi=false) calls had delivered StreamEnd, one more call delivered {extra} event(s)"),
                case_json(input, vec![]),
            );
        }
        if max_docs_per_call > 1 {
            viol(
                stats,
                "C17/single-doc-calls/several-documents-in-one-call".into(),
                format!("one load(multi=false) call delivered {max_docs_per_call} documents"),
                case_json(input, vec![]),
            );
        }
        stats.cnt("single_doc_call_sequences", 1);
        let docs = plain.events.iter().filter(|e| matches!(e.0, SEv::DocStart(_))).count();
        let strip = |v: &[(SEv, SSpan)]| -> Vec<(SEv, Option<SSpan>)> {
            v.iter().map(|(e, s)| (e.clone(), if *e == SEv::StreamEnd { None } else { Some(*s) })).collect()
        };
        // compare only when the plain iteration agrees with multi=true push (otherwise (c) already reported)
        let same_events = strip(&evs) == strip(&plain.events);
        let same_err = err == plain.error;
        // anchors are cleared per load() call exactly as in multi=true, so compare against the push result
        let push = catch(|| push_all(&mut Parser::new_from_str(input)));
        if let Ok(push) = push {
            let ok = strip(&evs) == strip(&push.events) && err == push.error;
            if !ok {
                viol(
                    stats,
                    "C17/single-doc-calls/differs".into(),
                    format!(
                        "concatenated load(multi=false) calls deliver {} events / error {:?}; load(multi=true) delivers {} events / error {:?}",
                        evs.len(),
                        err.as_ref().map(|e| e.display.clone()),
                        push.events.len(),
                        push.error.as_ref().map(|e| e.display.clone())
                    ),
                    case_json(input, vec![]),
                );
            }
        }
        let _ = (same_events, same_err);
        if plain.ok() && calls > docs + 2 {
            viol(
                stats,
                "C17/single-doc-calls/too-many-calls".into(),
                format!("{calls} load(multi=false) calls for {docs} documents"),
                case_json(input, vec![]),
            );
        }
    }

    // (e) mixed use: next() for the first k events, possibly a peek(), then load() takes over. At a
    // document boundary (nothing pulled yet, after StreamStart, after a DocumentEnd, after everything)
    // the calls together must tell the story of plain iteration, error included; a peeked event or
    // error must not be lost. Inside a document load() cannot continue; it may refuse (any error),
    // but it may not report success over events or an error that were dropped.
    if !plain.capped {
        let n_ev = plain.events.len();
        let k = if rng.chance(1, 2) {
            let mut b: Vec<usize> = plain.events.iter().enumerate().filter(|(_, e)| matches!(e.0, SEv::StreamStart | SEv::DocEnd)).map(|(i, _)| i + 1).collect();
            b.push(0);
            b.push(n_ev);
            b[rng.below(b.len())]
        } else {
            rng.below(n_ev + 1)
        };
        let boundary = k == 0 || k == n_ev && plain.error.is_none() || (k > 0 && matches!(plain.events[k - 1].0, SEv::StreamStart | SEv::DocEnd));
        let do_peek = rng.chance(2, 3);
        let r = catch(|| {
            let mut p = Parser::new_from_str(input);
            let mut got: Vec<(SEv, SSpan)> = vec![];
            for _ in 0..k {
                match p.next_event() {
                    Some(Ok((e, s))) => got.push((sev(&e), sspan(&s))),
                    _ => return None,
                }
            }
            if do_peek {
                let _ = p.peek();
            }
            let mut rec = Recorder { events: vec![], cap: safety_cap(input) };
            let res = p.load(&mut rec, true);
            got.extend(rec.events);
            // the stream has ended, whichever interface delivered StreamEnd: nothing follows
            let mut after: Vec<String> = vec![];
            if res.is_ok() {
                if let Some(x) = p.peek() {
                    after.push(format!("peek() returned {:?}", x.map(|e| sev(&e.0)).map_err(|e| serr(&e).display)));
                }
                if let Some(x) = p.next_event() {
                    after.push(format!("next() returned {:?}", x.map(|e| sev(&e.0)).map_err(|e| serr(&e).display)));
                }
                let mut rec2 = Recorder { events: vec![], cap: 64 };
                let res2 = p.load(&mut rec2, true);
                if res2.is_err() || !rec2.events.is_empty() {
                    after.push(format!("another load() delivered {:?} / {:?}", rec2.events.iter().map(|e| e.0.clone()).collect::<Vec<_>>(), res2.err().map(|e| serr(&e).display)));
                }
                let mut rec3 = Recorder { events: vec![], cap: 64 };
                let res3 = p.load(&mut rec3, false);
                if res3.is_err() || !rec3.events.is_empty() {
                    after.push(format!("another load(multi=false) delivered {:?} / {:?}", rec3.events.iter().map(|e| e.0.clone()).collect::<Vec<_>>(), res3.err().map(|e| serr(&e).display)));
                }
            }
            Some((got, res.err().map(|e| serr(&e)), after))
        });
        if let Ok(Some((got, err, after))) = r {
            stats.cnt("next_then_load_histories", 1);
            stats.cnt(if boundary { "take_over_at_document_boundary" } else { "take_over_inside_a_document" }, 1);
            let case = J::obj(vec![("input", J::s(input)), ("nexts", J::Int(k as i64)), ("peek", J::Bool(do_peek))]);
            let how = format!("{k} next() calls{} followed by load()", if do_peek { ", a peek()," } else { "" });
            if !after.is_empty() {
                viol(stats, "C17/after-stream-end/something-follows".into(), format!("{how} delivered the whole stream; afterwards: {}", after.join("; ")), case.clone());
            }
            let strip = |v: &[(SEv, SSpan)]| -> Vec<(SEv, Option<SSpan>)> { v.iter().map(|(e, s)| (e.clone(), if *e == SEv::StreamEnd { None } else { Some(*s) })).collect() };
            let same = strip(&got) == strip(&plain.events) && err == plain.error;
            if boundary && !same {
                viol(
                    stats,
                    format!("C17/next-then-load/{}", if do_peek { "with-peek" } else { "without-peek" }),
                    format!("{how}: delivered {} events / error {:?}, plain iteration has {} events / error {:?}", got.len(), err.map(|e| e.display), plain.events.len(), plain.error.as_ref().map(|e| e.display.clone())),
                    case,
                );
            } else if !boundary && err.is_none() && !same {
                viol(
                    stats,
                    format!("C17/next-then-load/inside-a-document/success-over-lost-events/{}", if do_peek { "with-peek" } else { "without-peek" }),
                    format!("{how} (inside a document): load() returned Ok with {} events delivered in all; plain iteration has {} events / error {:?}", got.len(), plain.events.len(), plain.error.as_ref().map(|e| e.display.clone())),
                    case,
                );
            }
        }
    }

    let nt = nontrivial(&plain);
    stats.eval(if nt { Some(input.as_bytes()) } else { None });
    if nt && stats.want_sample() && input.len() > 3 {
        stats.sample(J::obj(vec![
            ("input", J::s(input)),
            ("plain_iteration_items", J::Int(m as i64)),
            ("histories_run", J::Int(histories as i64)),
        ]));
    }
}
