//! A canonical node tree (`CN`) that all four node types convert to, plus the reference fold of an
//! event log (C07) written independently of the loader.

use crate::events::{SEv, SSpan};
use saphyr::{MarkedYaml, MarkedYamlOwned, Scalar, ScalarOwned, Yaml, YamlData, YamlDataOwned, YamlOwned};
use saphyr_parser::{ScalarStyle, Tag};
use std::fmt::Write as _;

#[derive(Clone, Debug)]
pub enum CN {
    Null,
    Bool(bool),
    Int(i64),
    Float(f64),
    Str(String),
    Seq(Vec<CN>),
    Map(Vec<(CN, CN)>),
    Alias(usize),
    Bad,
    Rep(String, ScalarStyle, Option<(String, String)>),
}

impl PartialEq for CN {
    fn eq(&self, o: &CN) -> bool {
        match (self, o) {
            (CN::Null, CN::Null) | (CN::Bad, CN::Bad) => true,
            (CN::Bool(a), CN::Bool(b)) => a == b,
            (CN::Int(a), CN::Int(b)) => a == b,
            (CN::Float(a), CN::Float(b)) => (a == b) || (a.is_nan() && b.is_nan()),
            (CN::Str(a), CN::Str(b)) => a == b,
            (CN::Seq(a), CN::Seq(b)) => a == b,
            (CN::Map(a), CN::Map(b)) => a == b,
            (CN::Alias(a), CN::Alias(b)) => a == b,
            (CN::Rep(a, s, t), CN::Rep(b, s2, t2)) => a == b && s == s2 && t == t2,
            _ => false,
        }
    }
}

impl CN {
    pub fn show(&self) -> String {
        let mut s = String::new();
        self.write(&mut s);
        s
    }
    fn write(&self, o: &mut String) {
        match self {
            CN::Null => o.push_str("null"),
            CN::Bool(b) => {
                let _ = write!(o, "{b}");
            }
            CN::Int(i) => {
                let _ = write!(o, "int({i})");
            }
            CN::Float(f) => {
                let _ = write!(o, "float({f:?})");
            }
            CN::Str(s) => {
                let _ = write!(o, "{s:?}");
            }
            CN::Seq(v) => {
                o.push('[');
                for (i, x) in v.iter().enumerate() {
                    if i > 0 {
                        o.push_str(", ");
                    }
                    x.write(o);
                }
                o.push(']');
            }
            CN::Map(v) => {
                o.push('{');
                for (i, (k, x)) in v.iter().enumerate() {
                    if i > 0 {
                        o.push_str(", ");
                    }
                    k.write(o);
                    o.push_str(": ");
                    x.write(o);
                }
                o.push('}');
            }
            CN::Alias(i) => {
                let _ = write!(o, "ALIAS({i})");
            }
            CN::Bad => o.push_str("BADVALUE"),
            CN::Rep(v, st, t) => {
                let _ = write!(o, "REP({v:?},{st:?},{t:?})");
            }
        }
    }
    pub fn has_collection(&self) -> bool {
        matches!(self, CN::Seq(_) | CN::Map(_))
    }
    pub fn contains_bad(&self) -> bool {
        match self {
            CN::Bad => true,
            CN::Seq(v) => v.iter().any(CN::contains_bad),
            CN::Map(v) => v.iter().any(|(k, x)| k.contains_bad() || x.contains_bad()),
            _ => false,
        }
    }
}

fn tag_pair(t: &Option<Tag>) -> Option<(String, String)> {
    t.as_ref().map(|t| (t.handle.clone(), t.suffix.clone()))
}

pub fn cn_scalar(s: &Scalar) -> CN {
    match s {
        Scalar::Null => CN::Null,
        Scalar::Boolean(b) => CN::Bool(*b),
        Scalar::Integer(i) => CN::Int(*i),
        Scalar::FloatingPoint(f) => CN::Float(f.into_inner()),
        Scalar::String(s) => CN::Str(s.to_string()),
    }
}
pub fn cn_scalar_owned(s: &ScalarOwned) -> CN {
    match s {
        ScalarOwned::Null => CN::Null,
        ScalarOwned::Boolean(b) => CN::Bool(*b),
        ScalarOwned::Integer(i) => CN::Int(*i),
        ScalarOwned::FloatingPoint(f) => CN::Float(f.into_inner()),
        ScalarOwned::String(s) => CN::Str(s.clone()),
    }
}

pub fn cn_yaml(y: &Yaml) -> CN {
    match y {
        Yaml::Representation(v, s, t) => CN::Rep(v.to_string(), *s, tag_pair(t)),
        Yaml::Value(s) => cn_scalar(s),
        Yaml::Sequence(v) => CN::Seq(v.iter().map(cn_yaml).collect()),
        Yaml::Mapping(m) => CN::Map(m.iter().map(|(k, v)| (cn_yaml(k), cn_yaml(v))).collect()),
        Yaml::Alias(i) => CN::Alias(*i),
        Yaml::BadValue => CN::Bad,
    }
}
pub fn cn_owned(y: &YamlOwned) -> CN {
    match y {
        YamlOwned::Representation(v, s, t) => CN::Rep(v.clone(), *s, tag_pair(t)),
        YamlOwned::Value(s) => cn_scalar_owned(s),
        YamlOwned::Sequence(v) => CN::Seq(v.iter().map(cn_owned).collect()),
        YamlOwned::Mapping(m) => CN::Map(m.iter().map(|(k, v)| (cn_owned(k), cn_owned(v))).collect()),
        YamlOwned::Alias(i) => CN::Alias(*i),
        YamlOwned::BadValue => CN::Bad,
    }
}
pub fn cn_marked(y: &MarkedYaml) -> CN {
    match &y.data {
        YamlData::Representation(v, s, t) => CN::Rep(v.to_string(), *s, tag_pair(t)),
        YamlData::Value(s) => cn_scalar(s),
        YamlData::Sequence(v) => CN::Seq(v.iter().map(cn_marked).collect()),
        YamlData::Mapping(m) => CN::Map(m.iter().map(|(k, v)| (cn_marked(k), cn_marked(v))).collect()),
        YamlData::Alias(i) => CN::Alias(*i),
        YamlData::BadValue => CN::Bad,
    }
}
pub fn cn_marked_owned(y: &MarkedYamlOwned) -> CN {
    match &y.data {
        YamlDataOwned::Representation(v, s, t) => CN::Rep(v.clone(), *s, tag_pair(t)),
        YamlDataOwned::Value(s) => cn_scalar_owned(s),
        YamlDataOwned::Sequence(v) => CN::Seq(v.iter().map(cn_marked_owned).collect()),
        YamlDataOwned::Mapping(m) => CN::Map(m.iter().map(|(k, v)| (cn_marked_owned(k), cn_marked_owned(v))).collect()),
        YamlDataOwned::Alias(i) => CN::Alias(*i),
        YamlDataOwned::BadValue => CN::Bad,
    }
}

/// A mapping as the reference fold sees it: all (key, value) pairs in event order, duplicates kept.
#[derive(Clone, Debug)]
pub enum RN {
    Leaf(CN),
    Seq(Vec<RN>),
    Map(Vec<(RN, RN)>),
}

impl RN {
    /// Collapse to a CN with "later duplicate wins, position of the first occurrence".
    pub fn to_cn(&self) -> CN {
        match self {
            RN::Leaf(c) => c.clone(),
            RN::Seq(v) => CN::Seq(v.iter().map(RN::to_cn).collect()),
            RN::Map(pairs) => {
                let mut out: Vec<(CN, CN)> = vec![];
                for (k, v) in pairs {
                    let kc = k.to_cn();
                    let vc = v.to_cn();
                    if let Some(e) = out.iter_mut().find(|(ek, _)| *ek == kc) {
                        e.1 = vc;
                    } else {
                        out.push((kc, vc));
                    }
                }
                CN::Map(out)
            }
        }
    }
}

/// Reference fold of an event log into one RN per document (C07). Scalars are resolved by the
/// library's own `value_from_cow_and_metadata` (resolution itself is C08's subject); everything
/// else (nesting, key/value pairing, alias substitution) is re-done here.
pub fn reference_fold(log: &[(SEv, SSpan)], early_parse: bool) -> Result<Vec<RN>, String> {
    enum Open {
        Seq(Vec<RN>, usize),
        Map(Vec<RN>, usize),
    }
    let mut docs = vec![];
    let mut stack: Vec<Open> = vec![];
    let mut anchors: std::collections::HashMap<usize, RN> = Default::default();
    let mut in_doc = false;
    fn complete(node: RN, aid: usize, stack: &mut Vec<Open>, anchors: &mut std::collections::HashMap<usize, RN>, docs: &mut Vec<RN>) {
        if aid > 0 {
            anchors.insert(aid, node.clone());
        }
        match stack.last_mut() {
            Some(Open::Seq(v, _)) | Some(Open::Map(v, _)) => v.push(node),
            None => docs.push(node),
        }
    }
    for (e, _) in log {
        match e {
            SEv::StreamStart | SEv::StreamEnd | SEv::Nothing => {}
            SEv::DocStart(_) => {
                // an anchor belongs to the document that defines it
                anchors.clear();
                in_doc = true;
            }
            SEv::DocEnd => {
                if !stack.is_empty() {
                    return Err("DocumentEnd with open collections".into());
                }
                in_doc = false;
            }
            SEv::Scalar { v, style, aid, tag } => {
                let t = tag.as_ref().map(|(h, s)| Tag { handle: h.clone(), suffix: s.clone() });
                let leaf = if early_parse {
                    crate::nodes::cn_yaml(&Yaml::value_from_cow_and_metadata(v.clone().into(), *style, t.as_ref()))
                } else {
                    CN::Rep(v.clone(), *style, tag.clone())
                };
                complete(RN::Leaf(leaf), *aid, &mut stack, &mut anchors, &mut docs);
            }
            SEv::Alias(id) => {
                let node = anchors.get(id).cloned().unwrap_or(RN::Leaf(CN::Bad));
                complete(node, 0, &mut stack, &mut anchors, &mut docs);
            }
            SEv::SeqStart { aid, .. } => stack.push(Open::Seq(vec![], *aid)),
            SEv::MapStart { aid, .. } => stack.push(Open::Map(vec![], *aid)),
            SEv::SeqEnd => match stack.pop() {
                Some(Open::Seq(v, aid)) => complete(RN::Seq(v), aid, &mut stack, &mut anchors, &mut docs),
                _ => return Err("SequenceEnd does not close a sequence".into()),
            },
            SEv::MapEnd => match stack.pop() {
                Some(Open::Map(v, aid)) => {
                    if v.len() % 2 != 0 {
                        return Err("mapping with an odd number of nodes".into());
                    }
                    let mut pairs = vec![];
                    let mut it = v.into_iter();
                    while let (Some(k), Some(val)) = (it.next(), it.next()) {
                        pairs.push((k, val));
                    }
                    complete(RN::Map(pairs), aid, &mut stack, &mut anchors, &mut docs);
                }
                _ => return Err("MappingEnd does not close a mapping".into()),
            },
        }
    }
    let _ = in_doc;
    Ok(docs)
}

/// Compare a loaded tree with the reference: sequences in order; mappings: same keys, each key
/// bound to the *last* value given for it, keys that occur once keep their relative order (the
/// position of a repeated key may be that of its first or last occurrence).
pub fn same_as_reference(r: &RN, loaded: &CN, path: &str) -> Result<(), String> {
    match (r, loaded) {
        (RN::Leaf(a), b) => {
            if a == b {
                Ok(())
            } else {
                Err(format!("{path}: loaded {} where the events denote {}", b.show(), a.show()))
            }
        }
        (RN::Seq(a), CN::Seq(b)) => {
            if a.len() != b.len() {
                return Err(format!("{path}: sequence has {} items, events denote {}", b.len(), a.len()));
            }
            for (i, (x, y)) in a.iter().zip(b.iter()).enumerate() {
                same_as_reference(x, y, &format!("{path}[{i}]"))?;
            }
            Ok(())
        }
        (RN::Map(pairs), CN::Map(lm)) => {
            // expected: key -> last value, count
            let mut exp: Vec<(CN, &RN, usize)> = vec![];
            for (k, v) in pairs {
                let kc = k.to_cn();
                if let Some(e) = exp.iter_mut().find(|(ek, _, _)| *ek == kc) {
                    e.1 = v;
                    e.2 += 1;
                } else {
                    exp.push((kc, v, 1));
                }
            }
            if exp.len() != lm.len() {
                return Err(format!("{path}: mapping has {} entries, events denote {} distinct keys: loaded {}", lm.len(), exp.len(), loaded.show()));
            }
            for (lk, lv) in lm {
                // keys are matched with the same tolerant comparison (a collection used as a key may
                // itself contain repeated keys)
                let Some(e) = exp.iter().find(|(ek, _, _)| ek == lk).or_else(|| {
                    pairs.iter().rev().find(|(k, _)| same_as_reference(k, lk, path).is_ok()).and_then(|(k, _)| {
                        let kc = k.to_cn();
                        exp.iter().find(|(ek, _, _)| *ek == kc)
                    })
                }) else {
                    return Err(format!("{path}: loaded mapping has key {} which no key event denotes (loaded {})", lk.show(), loaded.show()));
                };
                same_as_reference(e.1, lv, &format!("{path}{{{}}}", lk.show()))?;
            }
            // order of keys that occur once
            let once_exp: Vec<&CN> = exp.iter().filter(|e| e.2 == 1).map(|e| &e.0).collect();
            let once_loaded: Vec<&CN> = lm.iter().map(|(k, _)| k).filter(|k| exp.iter().any(|e| e.0 == **k && e.2 == 1)).collect();
            // (only conclusive when every loaded key matched its expected key exactly)
            if once_exp.len() == once_loaded.len() && once_exp != once_loaded {
                return Err(format!("{path}: mapping iterates in an order different from the document order: {}", loaded.show()));
            }
            Ok(())
        }
        (r, l) => Err(format!("{path}: loaded {} where the events denote {}", l.show(), r.to_cn().show())),
    }
}
