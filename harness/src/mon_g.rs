//! Monitor for C09 (emit -> load round trip) and C13 (JSON texts load with their JSON meaning).

use crate::nodes::*;
use crate::util::{catch, emit_progress, Rng, Stats, Violation, J};
use saphyr::{LoadableYamlNode, Mapping, Scalar, Yaml, YamlEmitter};
use std::fmt::Write as _;

fn viol(stats: &mut Stats, sig: String, msg: String, case: J) {
    stats.violation(Violation { sig, msg, case });
}

// ------------------------------------------------------------------------------------------------
// value trees
// ------------------------------------------------------------------------------------------------

pub fn cn_to_yaml(c: &CN) -> Yaml<'static> {
    match c {
        CN::Null => Yaml::Value(Scalar::Null),
        CN::Bool(b) => Yaml::Value(Scalar::Boolean(*b)),
        CN::Int(i) => Yaml::Value(Scalar::Integer(*i)),
        CN::Float(f) => Yaml::Value(Scalar::FloatingPoint((*f).into())),
        CN::Str(s) => Yaml::Value(Scalar::String(s.clone().into())),
        CN::Seq(v) => Yaml::Sequence(v.iter().map(cn_to_yaml).collect()),
        CN::Map(v) => {
            let mut m = Mapping::new();
            for (k, x) in v {
                m.insert(cn_to_yaml(k), cn_to_yaml(x));
            }
            Yaml::Mapping(m)
        }
        CN::Rep(v, st, t) => Yaml::Representation(v.clone().into(), *st, t.as_ref().map(|(h, x)| saphyr_parser::Tag { handle: h.clone(), suffix: x.clone() })),
        _ => Yaml::BadValue,
    }
}

/// Encode / decode a CN as JSON for replay files.
pub fn cn_json(c: &CN) -> J {
    match c {
        CN::Null => J::obj(vec![("t", J::s("null"))]),
        CN::Bool(b) => J::obj(vec![("t", J::s("bool")), ("v", J::Bool(*b))]),
        CN::Int(i) => J::obj(vec![("t", J::s("int")), ("v", J::s(&i.to_string()))]),
        CN::Float(f) => J::obj(vec![("t", J::s("float")), ("bits", J::s(&f.to_bits().to_string())), ("shown", J::s(&format!("{f:?}")))]),
        CN::Str(s) => J::obj(vec![("t", J::s("str")), ("v", J::s(s))]),
        CN::Seq(v) => J::obj(vec![("t", J::s("seq")), ("v", J::Arr(v.iter().map(cn_json).collect()))]),
        CN::Map(v) => J::obj(vec![("t", J::s("map")), ("v", J::Arr(v.iter().map(|(k, x)| J::Arr(vec![cn_json(k), cn_json(x)])).collect()))]),
        CN::Rep(v, _, t) => J::obj(vec![("t", J::s("rep")), ("v", J::s(v)), ("tag", t.as_ref().map_or(J::Null, |(h, x)| J::s(&format!("{h}\u{1}{x}"))))]),
        _ => J::obj(vec![("t", J::s("bad"))]),
    }
}
pub fn json_cn(j: &J) -> CN {
    match j.str_of("t").as_str() {
        "null" => CN::Null,
        "bool" => CN::Bool(j.get("v").and_then(J::as_bool).unwrap_or(false)),
        "int" => CN::Int(j.str_of("v").parse().unwrap_or(0)),
        "float" => CN::Float(f64::from_bits(j.str_of("bits").parse().unwrap_or(0))),
        "str" => CN::Str(j.str_of("v")),
        "seq" => CN::Seq(j.get("v").and_then(J::as_arr).map(|a| a.iter().map(json_cn).collect()).unwrap_or_default()),
        "map" => CN::Map(
            j.get("v")
                .and_then(J::as_arr)
                .map(|a| {
                    a.iter()
                        .filter_map(|p| {
                            let p = p.as_arr()?;
                            Some((json_cn(p.first()?), json_cn(p.get(1)?)))
                        })
                        .collect()
                })
                .unwrap_or_default(),
        ),
        "rep" => CN::Rep(
            j.str_of("v"),
            saphyr_parser::ScalarStyle::Plain,
            j.get("tag").and_then(J::as_str).and_then(|t| t.split_once('\u{1}')).map(|(h, x)| (h.to_string(), x.to_string())),
        ),
        _ => CN::Bad,
    }
}

pub const C09_ALPHA: [char; 20] = ['a', ' ', '\n', '\r', '\t', '-', ':', '#', '\'', '"', '\\', '1', '.', 'e', '~', '[', '{', '?', ',', '%'];

pub const TYPE_WORDS: &[&str] = &[
    "null", "Null", "NULL", "~", "true", "True", "TRUE", "false", "yes", "no", "on", "off", "y", "n", "0x1F", "0o17", "0b1", "+.inf", ".inf", "-.inf",
    ".nan", ".NaN", "inf", "-inf", "NaN", "nan", "infinity", "1e3", "1E3", "1_0", "+1", "-1", "-", "--", "---", "...", "1.0", "1.", ".5", "+.5", "0.",
    "1e", "0x", "0o", "00", "0o8", "0xG", "1:2", "2001-12-14", "<<", "=", "!", "!!str", "&a", "*a", "| ", "> ", "|", ">", "%YAML", "@", "`", "?", "? ",
    ": ", ":", "- ", "-a", "a: b", "a:b", "a #b", "a#b", "#", " #", "[", "]", "{", "}", ",", "a,b", "a, b", "'", "\"", "''", "\"\"", "\\", "\\n",
    "\u{feff}", "\u{feff}a", "a\u{feff}", "\u{85}", "a\u{85}b", "\u{2028}", "\u{2029}", "\u{a0}", "\u{7f}", "\u{80}", "\u{9f}", "\u{1b}", "\0", "a\0b",
    "\u{fffd}", "\u{fffe}", "\u{ffff}", "😀", "\u{10ffff}", "é", " ", "  ", "a ", " a", "\t", "a\t", "\ta", "\n", "a\n", "\na", "a\nb", "a\n\nb", "a\n ",
    "a\n b", " \n", "\n\n", "a\r\nb", "\r", "a\rb", "a\n...\nb", "a\n---\nb", "...\n", "a\n#b", "- a\n- b", "k: v\n", "a\n  b\n", "a\u{2028}b", "a\n\tb",
];

fn gen_string(r: &mut Rng) -> String {
    if r.chance(1, 150) {
        // longer than the 1024 characters an implicit key may have (around the limit, and well beyond)
        let n = if r.chance(1, 2) { r.range(1015, 1035) } else { r.range(1036, 3000) };
        let c = r.pick(&['k', 'é', ' ', '\'', ':']);
        let mut t: String = std::iter::repeat(if c == ' ' { 'w' } else { c }).take(n).collect();
        if c == ' ' {
            // words separated by blanks
            t = t.chars().enumerate().map(|(i, ch)| if i % 7 == 6 { ' ' } else { ch }).collect();
        }
        return t;
    }
    if r.chance(1, 150) {
        // short enough as a string, longer than 1024 characters once quoted and escaped
        let (c, lo, hi) = r.pick(&[('\\', 500usize, 1000usize), ('"', 500, 1000), ('\u{1}', 165, 600), ('\u{9c}', 165, 600), ('\t', 500, 1000)]);
        let n = r.range(lo, hi);
        let mut t: String = std::iter::repeat(c).take(n).collect();
        if r.chance(1, 2) {
            t.insert(0, 'p');
        }
        return t;
    }
    match r.below(10) {
        0..=2 => r.pick(TYPE_WORDS).to_string(),
        3..=5 => {
            let n = r.range(0, 12);
            (0..n).map(|_| r.pick(&C09_ALPHA)).collect()
        }
        6 | 7 => {
            let n = r.range(1, 30);
            (0..n)
                .map(|_| match r.below(12) {
                    0 => r.pick(&['\n', ' ', '\t', '\u{feff}', '\u{85}', '\u{2028}', '\u{2029}', '\u{7}', '\u{1b}', '\u{7f}', '\u{9c}', '\0', '\u{80}', '\u{84}', '\u{86}', '\u{9f}', '\u{a0}', '\u{8}', '\u{b}', '\u{c}', '\u{e}', '\u{1f}', '\u{fffe}', '\u{ffff}', '\u{fffd}', '\u{d7ff}', '\u{e000}']),
                    1 => r.pick(&['😀', '中', 'é', '\u{10ffff}', '\u{fffd}', '\u{e000}']),
                    2 => r.pick(&C09_ALPHA),
                    _ => r.pick(&['a', 'b', 'c', 'x', 'y', 'z', '0', '1', ' ', '_']),
                })
                .collect()
        }
        _ => {
            // multi-line text
            let n = r.range(1, 5);
            let mut s = String::new();
            for i in 0..n {
                if i > 0 || r.chance(1, 6) {
                    s.push('\n');
                }
                s.push_str(r.pick(&["line", " lead", "trail ", "", "- x", "k: v", "# c", "...", "---", "\ttab", "é", "a  b", "\u{feff}bom", "x\u{fffe}", "\u{ffff}", "\u{e000}p", "\u{fffd}", "😀", "\u{85}nel", "\u{7f}", "\u{9b}"]));
            }
            if r.chance(1, 2) {
                s.push('\n');
            }
            if r.chance(1, 6) {
                s.push('\n');
            }
            s
        }
    }
}

fn gen_float(r: &mut Rng) -> f64 {
    match r.below(10) {
        0 => r.pick(&[0.0, -0.0, 1.0, -1.0, 2.0, 10.0, 100.0, 1e15, 1e16, 1e17, 1e21, 1e22, 1e23, 1e300, 1e-5, 1e-7, 1e-300, 5e-324, 0.1, 0.5, 1.5, -2.5]),
        1 => r.pick(&[f64::INFINITY, f64::NEG_INFINITY, f64::NAN, f64::MAX, f64::MIN, f64::MIN_POSITIVE, f64::EPSILON]),
        2 => (r.next() % 1_000_000) as f64,
        3 => ((r.next() % 1_000_000) as f64) / 1000.0,
        4 | 5 => f64::from_bits(r.next()),
        6 => (r.next() as i64) as f64,
        _ => r.f64() * 10f64.powi(r.below(40) as i32 - 20),
    }
}

fn gen_scalar(r: &mut Rng) -> CN {
    match r.below(12) {
        0 => CN::Null,
        1 => CN::Bool(r.chance(1, 2)),
        2 | 3 => CN::Int(match r.below(5) {
            0 => r.pick(&[0, 1, -1, i64::MAX, i64::MIN, i64::MAX - 1, i64::MIN + 1, 10, 255, -255]),
            1 => r.next() as i64,
            _ => (r.next() % 2000) as i64 - 1000,
        }),
        4 | 5 => CN::Float(gen_float(r)),
        _ => CN::Str(gen_string(r)),
    }
}

pub fn gen_tree(r: &mut Rng, depth: usize) -> CN {
    if depth >= 5 || r.chance(2, 5) {
        return gen_scalar(r);
    }
    if r.chance(1, 2) {
        let n = match r.below(6) {
            0 => 0,
            n => n,
        };
        CN::Seq((0..n).map(|_| gen_tree(r, depth + 1)).collect())
    } else {
        let n = match r.below(6) {
            0 => 0,
            n => n,
        };
        let mut pairs: Vec<(CN, CN)> = vec![];
        for _ in 0..n {
            let k = if r.chance(1, 6) { gen_tree(r, depth + 2) } else { gen_scalar(r) };
            if pairs.iter().any(|(pk, _)| *pk == k) {
                continue;
            }
            pairs.push((k, gen_tree(r, depth + 1)));
        }
        CN::Map(pairs)
    }
}

fn dump(y: &Yaml, compact: bool, multiline: bool) -> Result<String, String> {
    let mut out = String::new();
    let mut e = YamlEmitter::new(&mut out);
    e.compact(compact);
    e.multiline_strings(multiline);
    e.dump(y).map_err(|e| format!("{e}"))?;
    Ok(out)
}

/// Classify where the first difference between the original and the reloaded tree lies.
fn diff_class(a: &CN, b: &CN) -> String {
    match (a, b) {
        (CN::Seq(x), CN::Seq(y)) => {
            if x.len() != y.len() {
                return "seq-length".into();
            }
            for (p, q) in x.iter().zip(y) {
                if p != q {
                    return diff_class(p, q);
                }
            }
            "seq".into()
        }
        (CN::Map(x), CN::Map(y)) => {
            if x.len() != y.len() {
                return "map-size".into();
            }
            for ((k1, v1), (k2, v2)) in x.iter().zip(y) {
                if k1 != k2 {
                    return format!("key:{}", diff_class(k1, k2));
                }
                if v1 != v2 {
                    return diff_class(v1, v2);
                }
            }
            "map".into()
        }
        (CN::Str(s), other) => {
            let kind = if s.contains('\n') {
                "multi-line-string"
            } else if s.chars().any(|c| (c as u32) < 0x20 || c == '\u{7f}' || ('\u{80}'..='\u{9f}').contains(&c) || c == '\u{feff}' || c == '\u{2028}' || c == '\u{2029}' || c == '\u{fffe}' || c == '\u{ffff}') {
                "string-with-special-char"
            } else {
                "string"
            };
            let to = match other {
                CN::Str(_) => "different-string",
                CN::Null => "null",
                CN::Bool(_) => "bool",
                CN::Int(_) => "int",
                CN::Float(_) => "float",
                _ => "other",
            };
            format!("{kind}->{to}")
        }
        (CN::Float(_), CN::Int(_)) => "float->int".into(),
        (CN::Float(_), CN::Str(_)) => "float->string".into(),
        (CN::Float(_), CN::Float(_)) => "float-value".into(),
        (x, y) => format!("{}->{}", kind(x), kind(y)),
    }
}
fn kind(c: &CN) -> &'static str {
    match c {
        CN::Null => "null",
        CN::Bool(_) => "bool",
        CN::Int(_) => "int",
        CN::Float(_) => "float",
        CN::Str(_) => "string",
        CN::Seq(_) => "seq",
        CN::Map(_) => "map",
        _ => "other",
    }
}

pub fn check_c09(tree: &CN, compact: bool, multiline: bool, stats: &mut Stats) {
    let cfg = format!("compact={compact},multiline={multiline}");
    let case = |text: &str| J::obj(vec![("tree", cn_json(tree)), ("compact", J::Bool(compact)), ("multiline", J::Bool(multiline)), ("emitted", J::s(text))]);
    let y = cn_to_yaml(tree);
    let text = match catch(|| dump(&y, compact, multiline)) {
        Ok(Ok(t)) => t,
        Ok(Err(e)) => {
            viol(stats, format!("C09/emit-error/{cfg}"), format!("dump failed: {e}"), case(""));
            return;
        }
        Err(p) => {
            viol(stats, format!("C09/emit-panic/{}", crate::util::panic_site(&p)), format!("dump panicked: {p}"), case(""));
            return;
        }
    };
    stats.cnt("dumps", 1);
    // well-formed output consists of printable characters only (YAML 1.2.2 production [1]
    // c-printable): everything else has to be written as an escape sequence
    let printable = |c: char| matches!(c, '\t' | '\n' | '\r' | ' '..='~' | '\u{85}' | '\u{a0}'..='\u{d7ff}' | '\u{e000}'..='\u{fffd}' | '\u{10000}'..='\u{10ffff}');
    if let Some(c) = text.chars().find(|c| !printable(*c)) {
        let class = match c as u32 {
            0..=0x1f | 0x7f => "c0-control",
            0x80..=0x9f => "c1-control",
            _ => "non-character",
        };
        viol(stats, format!("C09/non-printable-in-output/{class}"), format!("the emitted text contains the non-printable character U+{:04X} unescaped", c as u32), case(&text));
        return;
    }
    if !crate::events::terminates(&text) {
        stats.cnt("skipped_parse_does_not_terminate", 1);
        return;
    }
    let loaded = catch(|| Yaml::load_from_str(&text).map(|d| d.iter().map(cn_yaml).collect::<Vec<_>>()).map_err(|e| e.to_string()));
    let docs = match loaded {
        Ok(Ok(d)) => d,
        Ok(Err(e)) => {
            let ctx = root_or_nested(tree);
            viol(stats, format!("C09/reload-error/{ctx}/multiline={multiline}"), format!("emitted text does not load: {e}\n--- emitted ---\n{text}"), case(&text));
            return;
        }
        Err(_) => return,
    };
    // the other loading route (string back-end) must read the emitted text the same way
    let via_str = catch(|| Yaml::load_from_parser(&mut saphyr_parser::Parser::new_from_str(&text)).map(|d| d.iter().map(cn_yaml).collect::<Vec<_>>()).map_err(|e| e.to_string()));
    match via_str {
        Ok(Ok(d2)) if d2 == docs => stats.cnt("reloads_through_string_backend_agreeing", 1),
        Ok(Ok(_)) => {
            viol(stats, format!("C09/reload-differs-through-string-backend/multiline={multiline}"), format!("emitted text loads differently through Parser::new_from_str\n--- emitted ---\n{text}"), case(&text));
            return;
        }
        Ok(Err(e)) => {
            viol(stats, format!("C09/reload-error-through-string-backend/multiline={multiline}"), format!("emitted text does not load through Parser::new_from_str: {e}\n--- emitted ---\n{text}"), case(&text));
            return;
        }
        Err(_) => {}
    }
    if docs.len() != 1 {
        viol(stats, format!("C09/document-count/multiline={multiline}"), format!("emitted text loads as {} documents\n--- emitted ---\n{text}", docs.len()), case(&text));
        return;
    }
    if docs[0] != *tree {
        let class = diff_class(tree, &docs[0]);
        viol(
            stats,
            format!("C09/round-trip-differs/{class}/multiline={multiline}"),
            format!("original {} reloads as {}\n--- emitted ---\n{text}", tree.show(), docs[0].show()),
            case(&text),
        );
        return;
    }
    // emitting the reloaded tree reproduces the text
    let again = catch(|| dump(&cn_to_yaml(&docs[0]), compact, multiline));
    if let Ok(Ok(t2)) = again {
        if t2 != text {
            viol(stats, format!("C09/re-emit-differs/{cfg}"), format!("second emission differs:\n{text}\n--- vs ---\n{t2}"), case(&text));
            return;
        }
    }
    stats.cnt("round_trips_ok", 1);
    stats.cnt(if text.contains('|') && multiline { "with_literal_blocks_maybe" } else { "without_literal_blocks" }, 1);
}

fn root_or_nested(t: &CN) -> &'static str {
    match t {
        CN::Seq(_) | CN::Map(_) => "collection",
        CN::Str(s) if s.contains('\n') => "root-multi-line-string",
        _ => "root-scalar",
    }
}

fn needs_decision(t: &CN) -> bool {
    // a bare safe word needs no quoting / formatting decision
    match t {
        CN::Str(s) => s.is_empty() || !s.chars().all(|c| c.is_ascii_alphabetic()) || matches!(s.to_ascii_lowercase().as_str(), "null" | "true" | "false" | "yes" | "no" | "on" | "off" | "y" | "n" | "inf" | "nan" | "infinity"),
        CN::Float(_) => true,
        CN::Seq(v) => v.is_empty() || v.iter().any(needs_decision),
        CN::Map(v) => v.is_empty() || v.iter().any(|(k, x)| needs_decision(k) || needs_decision(x) || matches!(k, CN::Seq(_) | CN::Map(_))),
        _ => false,
    }
}

pub fn run_c09(tier: &str, seed: u64, shard: u64, nshards: u64, scale: f64, stats: &mut Stats) {
    let thorough = tier == "thorough";
    let l: u32 = if thorough { 4 } else { 3 };
    let k = C09_ALPHA.len() as u64;
    let total: u64 = (0..=l).map(|i| k.pow(i)).sum();
    let mut idx = shard;
    let mut n = 0u64;
    let settings = [(true, false), (false, false), (true, true), (false, true)];
    let mut one = |tree: CN, stats: &mut Stats, all_settings: bool, r: &mut Rng| {
        if all_settings {
            for (c, m) in settings {
                check_c09(&tree, c, m, stats);
            }
        } else {
            let (c, m) = r.pick(&settings);
            check_c09(&tree, c, m, stats);
        }
        let nt = needs_decision(&tree);
        let key = tree.show();
        stats.eval(if nt { Some(key.as_bytes()) } else { None });
        if nt && stats.want_sample() && key.len() > 25 {
            let text = dump(&cn_to_yaml(&tree), true, false).unwrap_or_default();
            stats.sample(J::obj(vec![("tree", J::s(&key)), ("emitted_compact", J::s(&text))]));
        }
    };
    let mut r = Rng::derive(seed, 0xC09, shard);
    while idx < total {
        let mut x = idx;
        let mut len = 0u32;
        let mut p = 1u64;
        while x >= p {
            x -= p;
            p *= k;
            len += 1;
        }
        let mut s = String::new();
        for _ in 0..len {
            s.push(C09_ALPHA[(x % k) as usize]);
            x /= k;
        }
        let st = CN::Str(s);
        one(st.clone(), stats, true, &mut r);
        one(CN::Seq(vec![CN::Str("x".into()), st.clone()]), stats, true, &mut r);
        one(CN::Map(vec![(st.clone(), CN::Int(1)), (CN::Str("z".into()), CN::Null)]), stats, true, &mut r);
        one(CN::Map(vec![(CN::Str("k".into()), st.clone()), (CN::Str("z".into()), CN::Seq(vec![st]))]), stats, true, &mut r);
        n += 1;
        if n % 500 == 0 {
            emit_progress(n);
        }
        idx += nshards;
    }
    if shard == 0 {
        stats.exhaustive_parts.insert(format!("all {total} strings of length <= {l} over a 20-symbol alphabet, each as root / sequence item / mapping key / mapping value, under 4 emitter settings"));
        for w in TYPE_WORDS {
            let st = CN::Str((*w).to_string());
            one(st.clone(), stats, true, &mut r);
            one(CN::Seq(vec![st.clone(), st.clone()]), stats, true, &mut r);
            one(CN::Map(vec![(st.clone(), st.clone())]), stats, true, &mut r);
            one(CN::Map(vec![(CN::Seq(vec![st.clone()]), CN::Map(vec![(st.clone(), CN::Seq(vec![]))]))]), stats, true, &mut r);
        }
    }
    let per = ((if thorough { 2_500_000.0 } else { 100_000.0 }) * scale) as u64 / nshards;
    for i in 0..per {
        if i % 5000 == 0 {
            emit_progress(n + i);
        }
        let t = if r.chance(1, 40) {
            // a deep, narrow tree: the statement quantifies over every tree, not only shallow ones
            let depth = r.range(6, 48);
            let mut t = CN::Seq(vec![gen_scalar(&mut r), gen_scalar(&mut r)]);
            for _ in 0..depth {
                t = match r.below(4) {
                    0 => CN::Seq(vec![t]),
                    1 => CN::Seq(vec![gen_scalar(&mut r), t]),
                    2 => CN::Map(vec![(CN::Str(r.pick(&["k", "key", "a b", "1"]).to_string()), t)]),
                    _ => CN::Map(vec![(CN::Str("x".into()), gen_scalar(&mut r)), (CN::Str("y".into()), t)]),
                };
            }
            stats.cnt("deep_trees", 1);
            t
        } else {
            gen_tree(&mut r, 0)
        };
        one(t, stats, i % 4 == 0, &mut r);
    }
}

pub fn replay_c09(case: &J, stats: &mut Stats) {
    let tree = case.get("tree").map(json_cn).unwrap_or(CN::Bad);
    let compact = case.get("compact").and_then(J::as_bool).unwrap_or(true);
    let multiline = case.get("multiline").and_then(J::as_bool).unwrap_or(false);
    stats.eval(Some(tree.show().as_bytes()));
    check_c09(&tree, compact, multiline, stats);
}

// ------------------------------------------------------------------------------------------------
// C13: JSON
// ------------------------------------------------------------------------------------------------

#[derive(Clone, Debug)]
pub enum JV {
    Null,
    Bool(bool),
    /// number with its JSON spelling and the value it denotes
    Num(String, CN),
    Str(String),
    Arr(Vec<JV>),
    Obj(Vec<(String, JV)>),
}

impl JV {
    pub fn to_cn(&self) -> CN {
        match self {
            JV::Null => CN::Null,
            JV::Bool(b) => CN::Bool(*b),
            JV::Num(_, c) => c.clone(),
            JV::Str(s) => CN::Str(s.clone()),
            JV::Arr(v) => CN::Seq(v.iter().map(JV::to_cn).collect()),
            JV::Obj(v) => CN::Map(v.iter().map(|(k, x)| (CN::Str(k.clone()), x.to_cn())).collect()),
        }
    }
    fn has_container(&self) -> bool {
        matches!(self, JV::Arr(_) | JV::Obj(_))
    }
}

pub const HOSTILE: &[&str] = &[
    "", " ", "  ", "- x", "a: b", "#", " #", "# c", "null", "true", "false", "1", "1.5", "~", "'", "\"", "\\", "\\n", "a\"b", "a\\b", "/", "a/b", "\n", "\t",
    "\r", "\u{8}", "\u{c}", "a\nb", "tab\there", "é", "中文", "😀", "\u{10ffff}", "\u{7f}", "\u{1}", "\u{1f}", "\0", "\u{2028}", "\u{2029}", "\u{feff}",
    "\u{85}", "\u{a0}", "[", "]", "{", "}", ",", ":", "? ", "- ", "&a", "*a", "!t", "|", ">", "%", "@", "`", "key with spaces", " lead", "trail ",
    "---", "...", "a,b", "a: ", ":a", "[x]", "{y}", "0x1F", "1e3", "-", "+1", ".5", "x\u{fffd}y",
];

fn gen_json_string(r: &mut Rng) -> String {
    if r.chance(1, 150) {
        // longer than the 1024-character limit that applies to YAML implicit keys (not to JSON members)
        let n = r.range(1000, 1200);
        return (0..n).map(|i| if i % 97 == 0 { 'é' } else { 'k' }).collect();
    }
    match r.below(4) {
        0 | 1 => r.pick(HOSTILE).to_string(),
        2 => {
            let n = r.range(1, 12);
            (0..n).map(|_| r.pick(&['a', 'b', 'k', 'e', 'y', '0', '1', '_', ' ', 'x'])).collect()
        }
        _ => {
            let n = r.range(0, 10);
            (0..n)
                .map(|_| match r.below(8) {
                    0 => r.pick(&['"', '\\', '/', '\n', '\t', '\r', '\u{8}', '\u{c}']),
                    1 => r.pick(&['é', '中', '😀', '\u{7f}', '\u{1f}', '\u{2028}', '\0', '\u{ffff}']),
                    2 => r.pick(&[':', ',', '[', ']', '{', '}', '#', '-', '?', '&', '*', '!', '|', '>', '\'', '%', '@', '`', ' ']),
                    _ => r.pick(&['a', 'b', 'c', 'd', 'e']),
                })
                .collect()
        }
    }
}

fn gen_json_number(r: &mut Rng) -> JV {
    if r.chance(1, 120) {
        // number texts far longer than any value-derived spelling (zero padding is legal JSON)
        let z = "0".repeat(r.range(300, 1200));
        let s = match r.below(4) {
            0 => format!("1.{z}"),
            1 => format!("-2.5{z}e2"),
            2 => format!("18446744073709551616.{z}"),
            _ => format!("0.{z}1"),
        };
        let v = s.parse::<f64>().unwrap();
        return JV::Num(s, CN::Float(v));
    }
    match r.below(9) {
        0 => {
            let v: i64 = r.pick(&[0, 1, -1, 10, 255, i64::MAX, i64::MIN, i64::MAX - 1, 1_000_000]);
            JV::Num(v.to_string(), CN::Int(v))
        }
        1 => {
            let v = r.next() as i64;
            JV::Num(v.to_string(), CN::Int(v))
        }
        2 => JV::Num("-0".into(), CN::Int(0)),
        3 => {
            // integers beyond 64 bits are floats of the same value
            let s = r.pick(&["9223372036854775808", "-9223372036854775809", "18446744073709551616", "123456789012345678901234567890"]);
            JV::Num(s.to_string(), CN::Float(s.parse::<f64>().unwrap()))
        }
        4 => {
            let s = r.pick(&["1E5", "1e5", "1e+5", "1E+5", "1e-5", "0.1", "1.0", "-1.5", "0.0", "-0.0", "1.5e3", "2.5E-3", "0e0", "1e0", "0.5", "123.456e7", "1e308", "1e-320"]);
            JV::Num(s.to_string(), CN::Float(s.parse::<f64>().unwrap()))
        }
        5 | 6 => {
            let f = (r.next() % 1_000_000) as f64 / r.pick(&[1.0, 10.0, 1000.0, 7.0]);
            let s = if f.fract() == 0.0 { format!("{f:.1}") } else { format!("{f}") };
            JV::Num(s.clone(), CN::Float(s.parse::<f64>().unwrap()))
        }
        _ => {
            let v = (r.next() % 100000) as i64 - 50000;
            JV::Num(v.to_string(), CN::Int(v))
        }
    }
}

pub fn gen_json(r: &mut Rng, depth: usize, max_depth: usize) -> JV {
    if depth >= max_depth || (depth > 0 && r.chance(1, 3)) {
        return match r.below(8) {
            0 => JV::Null,
            1 => JV::Bool(r.chance(1, 2)),
            2 | 3 => gen_json_number(r),
            _ => JV::Str(gen_json_string(r)),
        };
    }
    let n = if max_depth > 12 { r.range(1, 2) } else { r.below(5) };
    if r.chance(1, 2) {
        JV::Arr((0..n).map(|_| gen_json(r, depth + 1, max_depth)).collect())
    } else {
        let mut kv: Vec<(String, JV)> = vec![];
        for _ in 0..n {
            let k = gen_json_string(r);
            if kv.iter().any(|(x, _)| *x == k) {
                continue;
            }
            kv.push((k, gen_json(r, depth + 1, max_depth)));
        }
        JV::Obj(kv)
    }
}

#[derive(Clone, Copy, PartialEq)]
pub enum JStyle {
    Compact,
    Pretty(usize),
    PrettyTab,
    RandomWs,
}

fn json_str(s: &str, r: &mut Rng, out: &mut String) {
    out.push('"');
    for c in s.chars() {
        let cp = c as u32;
        match c {
            '"' => out.push_str("\\\""),
            '\\' => out.push_str("\\\\"),
            '\n' => out.push_str("\\n"),
            '\r' => out.push_str("\\r"),
            '\t' => out.push_str("\\t"),
            '\u{8}' => out.push_str(if r.chance(1, 2) { "\\b" } else { "\\u0008" }),
            '\u{c}' => out.push_str(if r.chance(1, 2) { "\\f" } else { "\\u000C" }),
            '/' => out.push_str(if r.chance(1, 2) { "\\/" } else { "/" }),
            c if cp < 0x20 => {
                let _ = write!(out, "\\u{cp:04x}");
            }
            c if cp > 0xffff => out.push(c), // raw astral (escaping would need surrogate halves)
            c if cp >= 0x7f && r.chance(1, 3) => {
                if (0xd800..0xe000).contains(&cp) {
                    out.push(c);
                } else if r.chance(1, 2) {
                    let _ = write!(out, "\\u{cp:04X}");
                } else {
                    let _ = write!(out, "\\u{cp:04x}");
                }
            }
            c if c.is_ascii_alphanumeric() && r.chance(1, 20) => {
                let _ = write!(out, "\\u{cp:04x}");
            }
            c => out.push(c),
        }
    }
    out.push('"');
}

fn ws(style: JStyle, r: &mut Rng, out: &mut String) {
    if style == JStyle::RandomWs && r.chance(1, 400) {
        for _ in 0..r.range(1020, 1100) {
            out.push(r.pick(&[' ', ' ', '\t', '\n']));
        }
        return;
    }
    if style == JStyle::RandomWs {
        for _ in 0..r.below(3) {
            out.push(r.pick(&[' ', ' ', '\t', '\n', '\r', ' ']));
        }
    }
}

fn nl(style: JStyle, level: usize, out: &mut String) {
    match style {
        JStyle::Pretty(n) => {
            out.push('\n');
            for _ in 0..level * n {
                out.push(' ');
            }
        }
        JStyle::PrettyTab => {
            out.push('\n');
            for _ in 0..level {
                out.push('\t');
            }
        }
        _ => {}
    }
}

pub fn json_text(v: &JV, style: JStyle, level: usize, r: &mut Rng, out: &mut String) {
    match v {
        JV::Null => out.push_str("null"),
        JV::Bool(b) => out.push_str(if *b { "true" } else { "false" }),
        JV::Num(s, _) => out.push_str(s),
        JV::Str(s) => json_str(s, r, out),
        JV::Arr(items) => {
            out.push('[');
            if items.is_empty() {
                ws(style, r, out);
            }
            for (i, it) in items.iter().enumerate() {
                if i > 0 {
                    out.push(',');
                }
                nl(style, level + 1, out);
                ws(style, r, out);
                json_text(it, style, level + 1, r, out);
                ws(style, r, out);
            }
            if !items.is_empty() {
                nl(style, level, out);
            }
            out.push(']');
        }
        JV::Obj(kv) => {
            out.push('{');
            if kv.is_empty() {
                ws(style, r, out);
            }
            for (i, (k, x)) in kv.iter().enumerate() {
                if i > 0 {
                    out.push(',');
                }
                nl(style, level + 1, out);
                ws(style, r, out);
                json_str(k, r, out);
                ws(style, r, out);
                out.push(':');
                match style {
                    JStyle::Pretty(_) | JStyle::PrettyTab => out.push(' '),
                    _ => ws(style, r, out),
                }
                json_text(x, style, level + 1, r, out);
                ws(style, r, out);
            }
            if !kv.is_empty() {
                nl(style, level, out);
            }
            out.push('}');
        }
    }
}

pub fn check_c13(text: &str, want: &CN, what: &str, stats: &mut Stats) {
    if !crate::events::terminates(text) {
        stats.cnt("skipped_parse_does_not_terminate", 1);
        return;
    }
    // both loading routes: load_from_str reads through the buffered character iterator, a caller
    // holding a &str may equally use Parser::new_from_str + load_from_parser (the string back-end)
    for route in ["", "/StrInput"] {
        let case = || J::obj(vec![("input", J::s(text)), ("expected", cn_json(want)), ("route", J::s(if route.is_empty() { "load_from_str" } else { "load_from_parser(Parser::new_from_str)" }))]);
        let r = catch(|| {
            let docs = if route.is_empty() { Yaml::load_from_str(text) } else { Yaml::load_from_parser(&mut saphyr_parser::Parser::new_from_str(text)) };
            docs.map(|d| d.iter().map(cn_yaml).collect::<Vec<_>>()).map_err(|e| e.to_string())
        });
        match r {
            Err(p) => viol(stats, format!("C13/panic/{}{route}", crate::util::panic_site(&p)), format!("panic: {p}"), case()),
            Ok(Err(e)) => {
                let cls: String = e.split(" at byte").next().unwrap_or("").chars().take(60).collect();
                viol(stats, format!("C13/rejected/{what}/{cls}{route}"), format!("JSON text rejected: {e}"), case());
            }
            Ok(Ok(d)) => {
                if d.len() != 1 {
                    viol(stats, format!("C13/document-count/{what}{route}"), format!("JSON text loads as {} documents", d.len()), case());
                } else if d[0] != *want {
                    let cls = diff_class(want, &d[0]);
                    viol(stats, format!("C13/value-differs/{what}/{cls}{route}"), format!("JSON value {} loads as {}", want.show(), d[0].show()), case());
                } else {
                    stats.cnt(if route.is_empty() { "json_texts_matching" } else { "json_texts_matching_through_string_backend" }, 1);
                }
            }
        }
    }
}

pub fn run_c13(tier: &str, seed: u64, shard: u64, nshards: u64, scale: f64, stats: &mut Stats) {
    let thorough = tier == "thorough";
    let per = ((if thorough { 4_000_000.0 } else { 160_000.0 }) * scale) as u64 / nshards;
    let mut r = Rng::derive(seed, 0xC13, shard);
    let styles = [JStyle::Compact, JStyle::Pretty(2), JStyle::Pretty(4), JStyle::PrettyTab, JStyle::RandomWs, JStyle::RandomWs];
    let names = ["compact", "pretty2", "pretty4", "pretty-tab", "random-ws", "random-ws"];
    for i in 0..per {
        if i % 5000 == 0 {
            emit_progress(i);
        }
        let max_depth = if r.chance(1, 40) { if r.chance(1, 3) { r.range(248, 254) } else { r.range(40, 200) } } else { r.range(1, 6) };
        let v = gen_json(&mut r, 0, max_depth);
        let si = r.below(styles.len());
        let mut text = String::new();
        json_text(&v, styles[si], 0, &mut r, &mut text);
        if r.chance(1, 2) {
            text.push('\n');
        }
        if styles[si] == JStyle::RandomWs && r.chance(1, 3) {
            let mut pre = String::new();
            ws(JStyle::RandomWs, &mut r, &mut pre);
            text = format!("{pre}{text}");
        }
        stats.cnt(&format!("style_{}", names[si]), 1);
        if max_depth >= 40 {
            stats.cnt("deeply_nested_values", 1);
        }
        check_c13(&text, &v.to_cn(), names[si], stats);
        stats.eval(if v.has_container() { Some(text.as_bytes()) } else { None });
        if v.has_container() && stats.want_sample() && text.len() > 40 && text.len() < 400 {
            stats.sample(J::obj(vec![("json_text", J::s(&text)), ("style", J::s(names[si]))]));
        }
    }
}

pub fn replay_c13(case: &J, stats: &mut Stats) {
    let input = case.str_of("input");
    let want = case.get("expected").map(json_cn).unwrap_or(CN::Bad);
    stats.eval(Some(input.as_bytes()));
    check_c13(&input, &want, "replay", stats);
}
