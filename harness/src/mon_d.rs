//! Monitors for C04 (plain / quoted scalar text) and C05 (block scalar text).

use crate::events::*;
use crate::scalars::*;
use crate::util::{catch, emit_progress, Rng, Stats, Violation, J};
use saphyr_parser::ScalarStyle;

fn viol(stats: &mut Stats, sig: String, msg: String, case: J) {
    stats.violation(Violation { sig, msg, case });
}

pub const C04_ALPHA: [char; 14] = ['a', ' ', '\t', '\n', '\'', '"', '\\', ':', '#', '-', 'é', '😀', '\u{85}', ','];
pub const C04_EXTRA: [char; 26] = [
    'b', 'Z', '0', '9', '_', '.', '?', '!', '&', '*', '[', ']', '{', '}', '|', '>', '%', '@', '`', '中', '\u{a0}', '\u{2028}', '\u{7}', '\u{1b}', '\r', '\0',
];

pub const CONTEXTS: [&str; 9] = ["top-explicit", "top-bare", "block-key", "block-value", "seq-entry", "flow-seq-entry", "flow-map-key", "flow-map-value", "nested-block-value"];

/// Wrap a rendered scalar `s` into a document for context `c`. Returns (text, expected scalars in order).
fn wrap(c: usize, s: &str, t: &str, style: ScalarStyle, r: &mut Rng) -> (String, Vec<(String, ScalarStyle)>) {
    let me = (t.to_string(), style);
    let p = |x: &str| (x.to_string(), ScalarStyle::Plain);
    let tail = if r.chance(1, 6) { " # c\n" } else if r.chance(1, 10) { "" } else { "\n" };
    match c {
        0 => (format!("--- {s}{tail}"), vec![me]),
        1 => (format!("{s}{tail}"), vec![me]),
        2 => (format!("{s}: v{tail}"), vec![me, p("v")]),
        3 => (format!("k: {s}{tail}"), vec![p("k"), me]),
        4 => (format!("- {s}{}- z\n", if tail.is_empty() { "\n" } else { tail }), vec![me, p("z")]),
        5 => (format!("[{s}, z]{tail}"), vec![me, p("z")]),
        6 => (format!("{{{s}: v}}{tail}"), vec![me, p("v")]),
        7 => (format!("{{k: {s}}}{tail}"), vec![p("k"), me]),
        _ => (format!("a:\n  b:\n    - c\n    - {s}{tail}"), vec![p("a"), p("b"), p("c"), me]),
    }
}

fn ctx_for(c: usize) -> FlowCtx {
    match c {
        0 => FlowCtx { in_flow: false, single_line: false, cont_min: 0, top_level: true, first_col0: false },
        1 => FlowCtx { in_flow: false, single_line: false, cont_min: 0, top_level: true, first_col0: true },
        2 => FlowCtx { in_flow: false, single_line: true, cont_min: 1, top_level: false, first_col0: true },
        3 | 4 => FlowCtx { in_flow: false, single_line: false, cont_min: 1, top_level: false, first_col0: false },
        5 | 7 => FlowCtx { in_flow: true, single_line: false, cont_min: 0, top_level: true, first_col0: false },
        6 => FlowCtx { in_flow: true, single_line: true, cont_min: 0, top_level: true, first_col0: false },
        _ => FlowCtx { in_flow: false, single_line: false, cont_min: 5, top_level: false, first_col0: false },
    }
}

fn fstyle(i: usize) -> (FStyle, ScalarStyle) {
    match i {
        0 => (FStyle::Plain, ScalarStyle::Plain),
        1 => (FStyle::Single, ScalarStyle::SingleQuoted),
        _ => (FStyle::Double, ScalarStyle::DoubleQuoted),
    }
}

pub fn c04_check(text: &str, expected: &[(String, ScalarStyle)], target: &str, stats: &mut Stats, what: &str) {
    for (cfg, it) in [("StrInput", false), ("BufferedInput", true)] {
        let Ok(p) = catch(|| if it { parse_iter(text) } else { parse_str(text) }) else { continue };
        let case = || {
            J::obj(vec![
                ("input", J::s(text)),
                ("target", J::s(target)),
                ("expected", J::Arr(expected.iter().map(|(v, s)| J::s(&format!("{}{}", style_char(*s), v))).collect())),
            ])
        };
        if let Some(e) = &p.error {
            viol(stats, format!("C04/rejected/{what}/{cfg}"), format!("{cfg}: legal presentation rejected: {}", e.display), case());
            return;
        }
        let got: Vec<(String, ScalarStyle)> = p
            .events
            .iter()
            .filter_map(|(e, _)| match e {
                SEv::Scalar { v, style, .. } => Some((v.clone(), *style)),
                _ => None,
            })
            .collect();
        if got != expected {
            let class = if got.len() != expected.len() {
                "scalar-count"
            } else if got.iter().zip(expected).any(|(a, b)| a.1 != b.1) {
                "style"
            } else {
                "text"
            };
            viol(
                stats,
                format!("C04/{class}/{what}/{cfg}"),
                format!("{cfg}: scalars {:?}, expected {:?}", got, expected),
                case(),
            );
            return;
        }
    }
    stats.cnt("presentations_matching", 1);
}

fn c04_one(t: &str, si: usize, c: usize, r: &mut Rng, stats: &mut Stats) {
    let (fs, ss) = fstyle(si);
    let ctx = ctx_for(c);
    let fold = r.chance(2, 3);
    let Some(s) = render_flow_scalar(t, fs, ctx, r, fold) else {
        stats.cnt("not_expressible_in_style", 1);
        return;
    };
    // oracle self-test: the independent inverse must give back the target
    match reference_flow_value(&s, fs) {
        Some(v) if v == t => {}
        other => {
            stats.cnt("oracle_selftest_mismatch", 1);
            stats.set("oracle_selftest_examples", &format!("{t:?} -> {s:?} -> {other:?}"));
            return;
        }
    }
    let (mut text, expected) = wrap(c, &s, t, ss, r);
    // line-break style: the value does not depend on how the breaks of the presentation are written
    match r.below(8) {
        0 | 1 => {
            text = text.replace('\n', "\r\n");
            stats.cnt("presentations_with_crlf_breaks", 1);
        }
        2 => {
            text = text.replace('\n', "\r");
            stats.cnt("presentations_with_cr_breaks", 1);
        }
        _ => {}
    }
    let what = format!("{}/{}", ["plain", "single", "double"][si], CONTEXTS[c]);
    c04_check(&text, &expected, t, stats, &what);
    stats.cnt(&format!("style_{}", ["plain", "single", "double"][si]), 1);
    stats.cnt(&format!("context_{}", CONTEXTS[c]), 1);
    if s.contains('\n') {
        stats.cnt("multi_line_presentations", 1);
    }
    if s.contains("\\\n") {
        stats.cnt("escaped_line_breaks", 1);
    }
    let mut key = Vec::from(text.as_bytes());
    key.push(si as u8);
    stats.eval(if t.is_empty() { None } else { Some(&key) });
    if stats.want_sample() && t.chars().count() > 6 && s.contains('\n') {
        stats.sample(J::obj(vec![("target", J::s(t)), ("presentation", J::s(&text)), ("style", J::s(["plain", "single", "double"][si]))]));
    }
}

pub fn run_c04(tier: &str, seed: u64, shard: u64, nshards: u64, scale: f64, stats: &mut Stats) {
    let thorough = tier == "thorough";
    let mut r = Rng::derive(seed, 0xC04, shard);
    // exhaustive targets
    let l = if thorough { 5 } else { 3 };
    let k = C04_ALPHA.len() as u64;
    let total: u64 = (0..=l).map(|i| k.pow(i)).sum();
    let mut idx = shard;
    let reps = if thorough { 3 } else { 2 };
    let mut n = 0u64;
    while idx < total {
        // decode idx
        let mut x = idx;
        let mut len = 0u32;
        let mut p = 1u64;
        while x >= p {
            x -= p;
            p *= k;
            len += 1;
        }
        let mut t = String::new();
        for _ in 0..len {
            t.push(C04_ALPHA[(x % k) as usize]);
            x /= k;
        }
        for si in 0..3 {
            for c in 0..CONTEXTS.len() {
                for _ in 0..reps {
                    c04_one(&t, si, c, &mut r, stats);
                }
            }
        }
        n += 1;
        if n % 500 == 0 {
            emit_progress(n);
        }
        idx += nshards;
    }
    if shard == 0 {
        stats.exhaustive_parts.insert(format!("all {total} target strings of length <= {l} over a 14-symbol alphabet x 3 styles x 9 contexts (x {reps} random layouts each)"));
    }
    // random longer targets
    let per = ((if thorough { 3_000_000.0 } else { 120_000.0 }) * scale) as u64 / nshards;
    for i in 0..per {
        if i % 5000 == 0 {
            emit_progress(n + i);
        }
        if r.chance(1, 5) {
            // a whitespace-free word with an indicator character placed around a multiple of the
            // 16-char (BufferedInput) or 128-char (StrInput) look-ahead chunk
            let base = r.pick(&[16usize, 16, 32, 48, 128, 128, 256]);
            let at = (base + r.below(3)).saturating_sub(1);
            let total = at + r.range(1, 6);
            let mut t = String::new();
            for i in 0..total {
                if i == at {
                    t.push(r.pick(&['#', ':', ',', '\'', '"', '-', ']', '}', '\\', 'é']));
                } else {
                    t.push(r.pick(&['a', 'b', 'c', 'x', '1', '/', '.', '_']));
                }
            }
            let si = r.below(3);
            let c = r.below(CONTEXTS.len());
            c04_one(&t, si, c, &mut r, stats);
            stats.cnt("long_word_targets", 1);
            continue;
        }
        if r.chance(1, 30) {
            // lines that look like document markers: text when indented (continuation lines of a
            // nested scalar), markers only at column 0
            let n = r.range(1, 4);
            let mut t = String::new();
            for j in 0..n {
                if j > 0 {
                    t.push_str(if r.chance(1, 4) { "\n\n" } else { "\n" });
                }
                t.push_str(r.pick(&["---", "...", "--- b", "... c", "a", "x y", "---x", "....", "-- -"]));
            }
            let si = r.below(3);
            let c = r.below(CONTEXTS.len());
            c04_one(&t, si, c, &mut r, stats);
            stats.cnt("marker_lookalike_targets", 1);
            continue;
        }
        let len = match r.below(10) {
            0..=3 => r.range(1, 10),
            4..=7 => r.range(8, 24),
            _ => r.range(14, 60),
        };
        let mut t = String::new();
        for _ in 0..len {
            let c = match r.below(20) {
                0..=9 => 'a',
                10 => ' ',
                11 => '\n',
                12..=16 => r.pick(&C04_ALPHA),
                _ => r.pick(&C04_EXTRA),
            };
            let c = if c == 'a' { r.pick(&['a', 'b', 'c', 'x', 'y', 'z', 'K', '1', ' ', ' ']) } else { c };
            t.push(c);
        }
        let si = r.below(3);
        let c = r.below(CONTEXTS.len());
        c04_one(&t, si, c, &mut r, stats);
    }
}

pub fn replay_c04(case: &J, stats: &mut Stats) {
    let input = case.str_of("input");
    let target = case.str_of("target");
    let expected: Vec<(String, ScalarStyle)> = case
        .get("expected")
        .and_then(J::as_arr)
        .map(|a| {
            a.iter()
                .filter_map(|x| x.as_str())
                .map(|s| {
                    let mut ch = s.chars();
                    let st = match ch.next() {
                        Some(':') => ScalarStyle::Plain,
                        Some('\'') => ScalarStyle::SingleQuoted,
                        Some('"') => ScalarStyle::DoubleQuoted,
                        Some('|') => ScalarStyle::Literal,
                        _ => ScalarStyle::Folded,
                    };
                    (ch.as_str().to_string(), st)
                })
                .collect()
        })
        .unwrap_or_default();
    stats.eval(Some(input.as_bytes()));
    c04_check(&input, &expected, &target, stats, "replay");
}

// ------------------------------------------------------------------------------------------------
// C05
// ------------------------------------------------------------------------------------------------

pub const LINE_KINDS: [&str; 12] = ["text", "", " more", "   ", "- x", "k: v", "# c", "\ttab", "é中", "   deeper text", "---", "x  "];
pub const PARENTS: [&str; 7] = ["top-explicit", "top-bare", "map-value", "seq-entry", "nested-map", "nested-seq-compact", "deep-indent"];
pub const EOF_SHAPES: [&str; 5] = ["final-newline", "no-final-newline", "sibling-follows", "doc-end-follows", "doc-start-follows"];

/// (prefix before the header, parent indent n, minimal content indent, text of a following sibling)
fn parent_ctx(p: usize) -> (String, isize, String) {
    match p {
        0 => ("--- ".into(), -1, String::new()),
        1 => (String::new(), -1, String::new()),
        2 => ("k: ".into(), 0, "z: w\n".into()),
        3 => ("- ".into(), 0, "- w\n".into()),
        4 => ("a:\n  b: ".into(), 2, "  z: w\n".into()),
        5 => ("- - ".into(), 2, "  - w\n".into()),
        _ => (format!("a:\n{}b: ", " ".repeat(17)), 17, format!("{}z: w\n", " ".repeat(17))),
    }
}

#[allow(clippy::too_many_arguments)]
fn c05_one(lines: &[String], folded: bool, chomp: Chomp, parent: usize, eof: usize, explicit: bool, hc: bool, r: &mut Rng, stats: &mut Stats) {
    let (prefix, n, sibling) = parent_ctx(parent);
    let base = (n + 1).max(0) as usize;
    let mut ci = base + if explicit { r.below(4) } else { r.below(3) };
    if r.chance(1, 10) {
        ci += 13 + r.below(6); // wider than the look-ahead buffer
    }
    if n < 0 && ci == 0 && lines.iter().any(|l| l.starts_with("---") || l.starts_with("...") || l.starts_with('#') || l.starts_with('%')) {
        ci = 1;
    }
    let Some(br) = render_block_scalar(lines, folded, chomp, n, ci, explicit, hc, r) else {
        stats.cnt("not_expressible", 1);
        return;
    };
    let mut text = format!("{prefix}{}\n", br.header);
    let mut expected = br.expected.clone();
    let mut body = br.body_lines.clone();
    let shape = match eof {
        1 if body.last().is_some_and(|l| l.is_empty()) || body.is_empty() => 0,
        2 if sibling.is_empty() => 3,
        e => e,
    };
    // a last line made of spaces only without a final break still counts as an empty line; nothing to adapt
    for (i, l) in body.drain(..).enumerate() {
        let _ = i;
        text.push_str(&l);
        text.push('\n');
    }
    // trailing comment lines, indented less than the content (they end the scalar; also when the
    // scalar has no content at all, which only an explicit indicator can express)
    let has_content = br.body_lines.iter().any(|l| !l.trim_matches(' ').is_empty());
    if ci > 0 && (br.explicit_indicator || has_content) && r.chance(1, 6) {
        for _ in 0..r.range(1, 3) {
            text.push_str(&" ".repeat(r.below(ci)));
            text.push_str(r.pick(&["# c", "#", "# trailing: comment"]));
            text.push('\n');
        }
        stats.cnt("trailing_comments_less_indented", 1);
    }
    let mut extra_scalars: Vec<(String, ScalarStyle)> = vec![];
    match shape {
        0 => {}
        1 => {
            text.pop();
        }
        2 => {
            text.push_str(&sibling);
            extra_scalars.push(("w".into(), ScalarStyle::Plain));
        }
        3 => text.push_str("...\n"),
        _ => {
            text.push_str("--- w\n");
            extra_scalars.push(("w".into(), ScalarStyle::Plain));
        }
    }
    let _ = &mut expected;
    match r.below(8) {
        0 | 1 => {
            text = text.replace('\n', "\r\n");
            stats.cnt("documents_with_crlf_breaks", 1);
        }
        2 => {
            text = text.replace('\n', "\r");
            stats.cnt("documents_with_cr_breaks", 1);
        }
        _ => {}
    }
    let style = if folded { ScalarStyle::Folded } else { ScalarStyle::Literal };
    let what = format!("{}/{}/{}", if folded { "folded" } else { "literal" }, PARENTS[parent], EOF_SHAPES[shape]);
    stats.cnt(&format!("parent_{}", PARENTS[parent]), 1);
    stats.cnt(&format!("eof_{}", EOF_SHAPES[shape]), 1);
    stats.cnt(if br.explicit_indicator { "explicit_indicator" } else { "auto_detected" }, 1);
    stats.cnt(match chomp {
        Chomp::Strip => "chomp_strip",
        Chomp::Clip => "chomp_clip",
        Chomp::Keep => "chomp_keep",
    }, 1);
    if ci >= 15 {
        stats.cnt("content_indent_beyond_buffer", 1);
    }
    let case = J::obj(vec![
        ("input", J::s(&text)),
        ("expected", J::s(&expected)),
        ("folded", J::Bool(folded)),
        ("lines", J::Arr(lines.iter().map(|l| J::s(l)).collect())),
    ]);
    c05_check(&text, &expected, style, &what, stats, &case);
    let mut key = Vec::from(text.as_bytes());
    key.push(u8::from(folded));
    stats.eval(if lines.iter().any(|l| !l.is_empty()) { Some(&key) } else { None });
    if stats.want_sample() && lines.len() >= 3 && shape != 0 {
        stats.sample(case);
    }
}

pub fn c05_check(text: &str, expected: &str, style: ScalarStyle, what: &str, stats: &mut Stats, case: &J) {
    for (cfg, it) in [("StrInput", false), ("BufferedInput", true)] {
        let Ok(p) = catch(|| if it { parse_iter(text) } else { parse_str(text) }) else { continue };
        if let Some(e) = &p.error {
            viol(stats, format!("C05/rejected/{what}/{cfg}"), format!("{cfg}: legal block scalar rejected: {}", e.display), case.clone());
            return;
        }
        let blocks: Vec<(&String, &ScalarStyle)> = p
            .events
            .iter()
            .filter_map(|(e, _)| match e {
                SEv::Scalar { v, style, .. } if matches!(style, ScalarStyle::Literal | ScalarStyle::Folded) => Some((v, style)),
                _ => None,
            })
            .collect();
        if blocks.len() != 1 || *blocks[0].1 != style {
            viol(stats, format!("C05/structure/{what}/{cfg}"), format!("{cfg}: expected exactly one {style:?} scalar, got {blocks:?}"), case.clone());
            return;
        }
        if blocks[0].0 != expected {
            viol(
                stats,
                format!("C05/text/{what}/{cfg}"),
                format!("{cfg}: block scalar value {:?}, reference value {:?}", blocks[0].0, expected),
                case.clone(),
            );
            return;
        }
    }
    stats.cnt("block_scalars_matching", 1);
}

pub fn run_c05(tier: &str, seed: u64, shard: u64, nshards: u64, scale: f64, stats: &mut Stats) {
    let thorough = tier == "thorough";
    let mut r = Rng::derive(seed, 0xC05, shard);
    // exhaustive: line lists up to 3 lines over 6 line kinds x style x chomp x parent x eof x explicit
    let kinds6 = ["text", "", " more", "   ", "- x", "# c"];
    let maxl = if thorough { 5u32 } else { 3u32 };
    let k = kinds6.len() as u64;
    let total: u64 = (0..=maxl).map(|i| k.pow(i)).sum();
    let mut idx = shard;
    let mut n = 0u64;
    while idx < total {
        let mut x = idx;
        let mut len = 0u32;
        let mut p = 1u64;
        while x >= p {
            x -= p;
            p *= k;
            len += 1;
        }
        let mut lines = vec![];
        for _ in 0..len {
            lines.push(kinds6[(x % k) as usize].to_string());
            x /= k;
        }
        for folded in [false, true] {
            for chomp in [Chomp::Strip, Chomp::Clip, Chomp::Keep] {
                for parent in 0..PARENTS.len() {
                    for eof in 0..EOF_SHAPES.len() {
                        for explicit in [false, true] {
                            if !thorough && parent >= 4 && (idx + eof as u64) % 3 != 0 {
                                continue;
                            }
                            let hc = r.chance(1, 6);
                            c05_one(&lines, folded, chomp, parent, eof, explicit, hc, &mut r, stats);
                        }
                    }
                }
            }
        }
        n += 1;
        if n % 20 == 0 {
            emit_progress(n);
        }
        idx += nshards;
    }
    if shard == 0 {
        stats.exhaustive_parts.insert(format!("all {total} line lists of up to {maxl} lines over 6 line kinds x {{literal,folded}} x 3 chomping modes x 7 parents x 5 end shapes x {{auto,explicit}} indentation"));
    }
    let per = ((if thorough { 2_500_000.0 } else { 100_000.0 }) * scale) as u64 / nshards;
    for i in 0..per {
        if i % 5000 == 0 {
            emit_progress(n + i);
        }
        let len = r.below(13);
        let mut lines = vec![];
        for _ in 0..len {
            let mut l = r.pick(&LINE_KINDS).to_string();
            if r.chance(1, 10) {
                l = format!("{}{}", " ".repeat(r.below(4)), "long line of text that is longer than sixteen characters é中");
            }
            lines.push(l);
        }
        let chomp = r.pick(&[Chomp::Strip, Chomp::Clip, Chomp::Keep]);
        c05_one(&lines, r.chance(1, 2), chomp, r.below(PARENTS.len()), r.below(EOF_SHAPES.len()), r.chance(1, 3), r.chance(1, 6), &mut r, stats);
    }
}

pub fn replay_c05(case: &J, stats: &mut Stats) {
    let input = case.str_of("input");
    let expected = case.str_of("expected");
    let folded = case.get("folded").and_then(J::as_bool).unwrap_or(false);
    stats.eval(Some(input.as_bytes()));
    c05_check(&input, &expected, if folded { ScalarStyle::Folded } else { ScalarStyle::Literal }, "replay", stats, case);
}

/// A random block-scalar document (text only), used as a feeder for the C01 family of monitors.
pub fn random_block_doc(r: &mut Rng) -> String {
    let len = r.below(8);
    let lines: Vec<String> = (0..len).map(|_| r.pick(&LINE_KINDS).to_string()).collect();
    let chomp = r.pick(&[Chomp::Strip, Chomp::Clip, Chomp::Keep]);
    let parent = r.below(PARENTS.len());
    let (prefix, n, sibling) = parent_ctx(parent);
    let base = (n + 1).max(0) as usize;
    let ci = base + r.below(4) + if r.chance(1, 3) { 11 + r.below(8) } else { 0 };
    let explicit = r.chance(1, 3);
    match render_block_scalar(&lines, r.chance(1, 2), chomp, n, ci.max(1), explicit, r.chance(1, 6), r) {
        Some(br) => {
            let mut t = format!("{prefix}{}\n", br.header);
            for l in &br.body_lines {
                t.push_str(l);
                t.push('\n');
            }
            match r.below(4) {
                0 => {
                    t.pop();
                }
                1 => t.push_str(&sibling),
                _ => {}
            }
            t
        }
        None => format!("{prefix}|\n"),
    }
}
