//! The shared input space of C01 / C02 / C10 / C12 / C14 / C17 and its case stream.

use crate::corpus;
use crate::gen;
use crate::util::{emit_progress, Rng, Stats};

#[derive(Clone, Copy)]
pub struct Budget {
    /// max length of the exhaustive small scope per alphabet (0 = alphabet not used)
    pub g1_lens: [usize; 3],
    /// sampled strings of length g1_len+1 (0 = none)
    pub g1_sampled: u64,
    /// random cases (all shards together)
    pub random: u64,
    /// long inputs (all shards together), and their size
    pub long: u64,
    pub long_size: usize,
}

// (the third alphabet is used by the thorough tier)
pub fn alphabets() -> [&'static [&'static str]; 3] {
    [&gen::ALPHA_A, &gen::ALPHA_B, &gen::ALPHA_C]
}

/// Iterate over this shard's cases. `f(input, origin)`.
pub fn for_each_case(
    b: Budget,
    seed: u64,
    shard: u64,
    nshards: u64,
    from: u64,
    to: u64,
    trace: bool,
    stats: &mut Stats,
    f: &mut dyn FnMut(&str, &'static str, &mut Stats),
) {
    let mut n: u64 = 0; // running case index within this shard
    let mut step = |s: &str, origin: &'static str, stats: &mut Stats, n: &mut u64| {
        let i = *n;
        *n += 1;
        if i < from || i >= to {
            return;
        }
        if trace {
            eprintln!("TRACE {} {}", i, crate::util::J::s(s).to_string());
        }
        if i % 2000 == 0 {
            emit_progress(i);
        }
        f(s, origin, stats);
    };

    // Part A: exhaustive small scope
    let alphas = alphabets();
    for (ai, alpha) in alphas.iter().enumerate() {
        let l = b.g1_lens[ai];
        if l == 0 {
            continue;
        }
        let total = gen::g1_count(alpha.len(), l);
        let mut idx = shard;
        while idx < total {
            let s = gen::g1_string(alpha, l, idx);
            step(&s, "g1", stats, &mut n);
            idx += nshards;
        }
        if shard == 0 {
            stats.exhaustive_parts.insert(format!("all {} strings of length <= {} over alphabet {}", total, l, ai));
        }
        stats.cnt("g1_exhaustive", (total + nshards - 1 - shard) / nshards);
    }
    // sampled strings one longer
    if b.g1_sampled > 0 {
        let per = b.g1_sampled / nshards;
        let mut r = Rng::derive(seed, 0x61, shard);
        for _ in 0..per {
            let alpha = alphas[r.below(3)];
            let l = b.g1_lens.iter().copied().max().unwrap_or(4).min(5) + 1 + r.below(2);
            let mut s = String::new();
            for _ in 0..l {
                s.push_str(r.pick(alpha));
            }
            step(&s, "g1s", stats, &mut n);
        }
    }
    // Part B: random
    let per = b.random / nshards;
    let mut r = Rng::derive(seed, 0xB0, shard);
    let corp = corpus::all_yaml();
    for _ in 0..per {
        let k = r.below(134);
        if k >= 124 {
            // a model-rendered stream damaged by one of the C06 operators: ill-formed by construction,
            // i.e. a rich source of inputs for the error paths
            let rd = crate::mon_c::gen_stream(&mut r, true, true);
            let op = r.below(crate::mon_c::OPERATORS.len());
            match crate::mon_c::damage(&rd, op, &mut r) {
                Some((bad, _)) => step(&bad, "rendered-damaged", stats, &mut n),
                None => step(&rd.text, "rendered", stats, &mut n),
            }
        } else if k >= 100 {
            // model-rendered streams (valid by construction), their mutants, and block-scalar documents
            if k < 110 {
                let rd = crate::mon_c::gen_stream(&mut r, true, true);
                step(&rd.text, "rendered", stats, &mut n);
            } else if k < 117 {
                let rd = crate::mon_c::gen_stream(&mut r, true, true);
                let s = gen::mutate(&mut r, &rd.text);
                step(&s, "rendered-mut", stats, &mut n);
            } else {
                let s = crate::mon_d::random_block_doc(&mut r);
                step(&s, "block-scalar-doc", stats, &mut n);
            }
        } else if k < 38 {
            let s = gen::soup(&mut r);
            step(&s, "soup", stats, &mut n);
        } else if k < 72 {
            let s = gen::line_soup(&mut r);
            step(&s, "lines", stats, &mut n);
        } else if k < 86 && !corp.is_empty() {
            let base = &corp[r.below(corp.len())];
            let s = gen::mutate(&mut r, base);
            step(&s, "corpus-mut", stats, &mut n);
        } else if k < 92 && !corp.is_empty() {
            let s = corp[r.below(corp.len())].clone();
            step(&s, "corpus", stats, &mut n);
        } else {
            let base = r.pick(gen::BASE_DOCS);
            let s = gen::mutate(&mut r, base);
            step(&s, "base-mut", stats, &mut n);
        }
    }
    // Part D: alias amplification (each level aliases the previous one m times), and a long anchored
    // list aliased many times
    if shard == 0 {
        for (m, k) in [(3usize, 3usize), (4, 4), (8, 3), (5, 5), (9, 4), (6, 5)] {
            for flow in [true, false] {
                let mut s = String::new();
                for lvl in 0..k {
                    let item = if lvl == 0 { "x".to_string() } else { format!("*a{}", lvl - 1) };
                    if flow {
                        s.push_str(&format!("a{lvl}: &a{lvl} [{}]\n", vec![item; m].join(", ")));
                    } else {
                        s.push_str(&format!("a{lvl}: &a{lvl}\n"));
                        for _ in 0..m {
                            s.push_str(&format!("  - {item}\n"));
                        }
                    }
                }
                step(&s, "alias-amplification", stats, &mut n);
            }
        }
        // a long %TAG prefix used by many short tags (every tag event carries the resolved prefix)
        for plen in [400usize, 4000] {
            let s = format!("%TAG !e! {}\n--- [{}]\n", "x".repeat(plen), "!e!a b, ".repeat(plen / 8));
            step(&s, "tag-prefix-expansion", stats, &mut n);
        }
        // collection keys nested in collection keys (every insertion hashes the whole key)
        for d in [40usize, 400] {
            let s = format!("{}a\n", "? ".repeat(d));
            step(&s, "nested-keys", stats, &mut n);
            let s = format!("{}a{}\n", "{ ? ".repeat(d.min(200)), " }".repeat(d.min(200)));
            step(&s, "nested-keys", stats, &mut n);
        }
        let mut s = String::from("l: &l [");
        s.push_str(&vec!["x"; 150].join(","));
        s.push_str("]\nu: [");
        s.push_str(&vec!["*l"; 150].join(","));
        s.push_str("]\n");
        step(&s, "alias-amplification", stats, &mut n);
    }
    // Part C: long inputs
    for i in 0..b.long {
        if i % nshards == shard {
            let s = gen::long_input(i as usize, b.long_size);
            step(&s, "long", stats, &mut n);
        }
    }
}

/// A CR-free, BOM-free (etc.) filter is up to the monitors; the non-triviality rule of the family:
/// the input produced at least one event beyond StreamStart or an error not at index 0.
pub fn nontrivial(p: &crate::events::Parsed) -> bool {
    p.events.len() > 1 || p.error.as_ref().is_some_and(|e| e.at.index > 0)
}
