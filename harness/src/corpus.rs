//! The yaml-test-suite snapshot (committed as /verif/corpus/suite.jsonl, embedded at build time).

use crate::util::{JParser, J};
use std::sync::OnceLock;

pub struct SuiteCase {
    pub id: String,
    pub yaml: String,
    pub tree: String,
    pub json: Option<String>,
    pub fail: bool,
}

static DATA: &str = include_str!("../../corpus/suite.jsonl");
static CASES: OnceLock<Vec<SuiteCase>> = OnceLock::new();
static YAMLS: OnceLock<Vec<String>> = OnceLock::new();

pub fn all() -> &'static [SuiteCase] {
    CASES.get_or_init(|| {
        DATA.lines()
            .filter(|l| !l.trim().is_empty())
            .map(|l| {
                let j = JParser::parse(l).expect("corpus line");
                SuiteCase {
                    id: j.str_of("id"),
                    yaml: j.str_of("yaml"),
                    tree: j.str_of("tree"),
                    json: j.get("json").and_then(J::as_str).map(str::to_string),
                    fail: j.get("fail").and_then(J::as_bool).unwrap_or(false),
                }
            })
            .collect()
    })
}

pub fn all_yaml() -> &'static [String] {
    YAMLS.get_or_init(|| all().iter().map(|c| c.yaml.clone()).collect())
}

/// Expected event lines of a suite case in our `SEv::line_nodoc` format (anchor names -> numbers,
/// flow/block markers dropped), mirroring parser/tests/yaml-test-suite.rs::expected_events.
pub fn expected_lines(tree: &str) -> Vec<String> {
    let mut anchors: Vec<String> = vec![];
    tree.split('\n')
        .map(|s| s.trim_start().to_owned())
        .filter(|s| !s.is_empty())
        .map(|mut s| {
            if let Some(start) = s.find('&') {
                if s[..start].find(':').is_none() {
                    let len = s[start..].find(' ').unwrap_or(s[start..].len());
                    anchors.push(s[start + 1..start + len].to_owned());
                    s = s.replace(&s[start..start + len].to_string(), &format!("&{}", anchors.len()));
                }
            }
            if s.starts_with("=ALI") {
                let start = s.find('*').unwrap();
                let name = s[start + 1..].to_string();
                let idx = anchors.iter().enumerate().filter(|(_, v)| **v == name).next_back().map(|x| x.0).unwrap_or(usize::MAX - 1);
                s = s.replace(&s[start..].to_string(), &format!("*{}", idx.wrapping_add(1)));
            }
            match &*s {
                "+DOC ---" => "+DOC".into(),
                "-DOC ..." => "-DOC".into(),
                s if s.starts_with("+SEQ []") => s.replacen("+SEQ []", "+SEQ", 1),
                s if s.starts_with("+MAP {}") => s.replacen("+MAP {}", "+MAP", 1),
                s => s.into(),
            }
        })
        .collect()
}
