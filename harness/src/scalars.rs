//! G4/G5: scalar presentations generated *from* a target string (so the expected value is known by
//! construction), plus the spec-derived reference functions (block_value, fold / unescape inverse).

use crate::util::Rng;
use std::fmt::Write as _;

// ------------------------------------------------------------------------------------------------
// Flow scalars (plain / single / double)
// ------------------------------------------------------------------------------------------------

#[derive(Clone, Copy, PartialEq, Eq, Debug)]
pub enum FStyle {
    Plain,
    Single,
    Double,
}

#[derive(Clone, Copy, PartialEq, Eq, Debug)]
pub struct FlowCtx {
    /// inside a flow collection (plain scalars may not contain ,[]{})
    pub in_flow: bool,
    /// implicit key: must stay on one line
    pub single_line: bool,
    /// minimum indentation of continuation lines
    pub cont_min: usize,
    /// continuation lines may start at column 0 (then they must not look like a document marker)
    pub top_level: bool,
    /// the first character of the scalar may stand at column 0 (where `---` / `...` are document markers)
    pub first_col0: bool,
}

fn is_blank(c: char) -> bool {
    c == ' ' || c == '\t'
}

/// Characters allowed literally inside quoted scalars / plain scalars (printable, non-break, non-BOM).
pub fn printable_literal(c: char) -> bool {
    matches!(c, '\t' | '\u{20}'..='\u{7e}' | '\u{85}' | '\u{a0}'..='\u{d7ff}' | '\u{e000}'..='\u{fefe}' | '\u{ff00}'..='\u{fffd}' | '\u{10000}'..='\u{10ffff}')
}

/// Can the '\n' runs of `t` be expressed by line folding (n LFs -> n+1 breaks)? Folding drops blanks
/// around breaks, so every run must have non-blank neighbours (or the string boundary).
fn newlines_foldable(t: &[char]) -> bool {
    let mut i = 0;
    while i < t.len() {
        if t[i] == '\n' {
            let st = i;
            while i < t.len() && t[i] == '\n' {
                i += 1;
            }
            if st > 0 && is_blank(t[st - 1]) {
                return false;
            }
            if i < t.len() && is_blank(t[i]) {
                return false;
            }
        } else {
            i += 1;
        }
    }
    true
}

fn plain_first_ok(t: &[char], in_flow: bool) -> bool {
    let c = t[0];
    let next_safe = |i: usize| t.get(i).is_some_and(|n| !is_blank(*n) && *n != '\n' && !(in_flow && ",[]{}".contains(*n)));
    match c {
        '-' | '?' | ':' => next_safe(1),
        ',' | '[' | ']' | '{' | '}' | '#' | '&' | '*' | '!' | '|' | '>' | '\'' | '"' | '%' | '@' | '`' => false,
        c => !is_blank(c) && c != '\n',
    }
}

/// Is `t` expressible as a plain scalar in the given context (possibly multi-line through folding)?
pub fn plain_ok(t: &str, ctx: FlowCtx) -> bool {
    let v: Vec<char> = t.chars().collect();
    if v.is_empty() {
        return false;
    }
    if !v.iter().all(|c| *c == '\n' || printable_literal(*c)) {
        return false;
    }
    if v.contains(&'\u{feff}') {
        return false;
    }
    if is_blank(v[0]) || is_blank(*v.last().unwrap()) || v[0] == '\n' || *v.last().unwrap() == '\n' {
        return false;
    }
    if !plain_first_ok(&v, ctx.in_flow) {
        return false;
    }
    if ctx.single_line && v.contains(&'\n') {
        return false;
    }
    if !newlines_foldable(&v) {
        return false;
    }
    // document markers at the very start of a (possibly column-0) scalar; an indented `---` is text
    if ctx.first_col0 && (t.starts_with("---") || t.starts_with("...")) {
        return false;
    }
    for i in 0..v.len() {
        let c = v[i];
        let next = v.get(i + 1).copied();
        if c == ':' {
            match next {
                None => return false,
                Some(n) if is_blank(n) || n == '\n' => return false,
                Some(n) if ctx.in_flow && ",[]{}".contains(n) => return false,
                _ => {}
            }
        }
        if c == '#' && i > 0 && (is_blank(v[i - 1]) || v[i - 1] == '\n') {
            return false;
        }
        if ctx.in_flow && ",[]{}".contains(c) {
            return false;
        }
        // first character of each continuation line (after a '\n' run): keep clear of anything that
        // could be read as an indicator or a document marker
        if c == '\n' {
            if let Some(n) = next {
                // continuation lines that are always indented may also begin with `---` / `...`
                let rest: String = v[i + 1..].iter().take(3).collect();
                let marker_like = ctx.cont_min >= 1 && (rest == "---" || rest == "...");
                if n != '\n' && !(n.is_alphanumeric() || (n as u32) > 0x7f) && !marker_like {
                    return false;
                }
            }
        }
        // tabs next to a fold point are avoided (blanks around breaks are dropped)
    }
    true
}

pub fn single_ok(t: &str, ctx: FlowCtx) -> bool {
    let v: Vec<char> = t.chars().collect();
    if !v.iter().all(|c| *c == '\n' || printable_literal(*c)) || v.contains(&'\u{feff}') {
        return false;
    }
    if ctx.single_line && v.contains(&'\n') {
        return false;
    }
    newlines_foldable(&v)
}

/// Render `t` in the requested style. Returns None when the style cannot express `t` in this context.
/// `fold` enables random line folding at interior single spaces.
pub fn render_flow_scalar(t: &str, style: FStyle, ctx: FlowCtx, r: &mut Rng, fold: bool) -> Option<String> {
    let v: Vec<char> = t.chars().collect();
    match style {
        FStyle::Plain => {
            if !plain_ok(t, ctx) {
                return None;
            }
        }
        FStyle::Single => {
            if !single_ok(t, ctx) {
                return None;
            }
        }
        FStyle::Double => {}
    }
    let mut out = String::new();
    let indent = |r: &mut Rng, out: &mut String, next: Option<char>| {
        let mut n = ctx.cont_min + if r.chance(1, 2) { 0 } else { r.below(4) };
        // a continuation line at column 0 must not look like a document marker, directive or comment
        if n == 0 && (ctx.top_level || true) {
            if let Some(c) = next {
                if !(c.is_alphanumeric() || (c as u32) > 0x7f) {
                    n = 1;
                }
            }
        }
        for _ in 0..n {
            out.push(' ');
        }
    };
    match style {
        FStyle::Single => out.push('\''),
        FStyle::Double => out.push('"'),
        FStyle::Plain => {}
    }
    let can_fold = fold && !ctx.single_line;
    let mut i = 0;
    while i < v.len() {
        let c = v[i];
        // newline runs
        if c == '\n' {
            let st = i;
            while i < v.len() && v[i] == '\n' {
                i += 1;
            }
            let run = i - st;
            let foldable = (st == 0 || !is_blank(v[st - 1])) && (i >= v.len() || !is_blank(v[i])) && !ctx.single_line;
            let use_fold = match style {
                FStyle::Double => foldable && can_fold && r.chance(1, 2),
                _ => true,
            };
            // double-quoted only: an escaped line break followed by `run` empty lines yields
            // exactly `run` line feeds (s-double-escaped: the break itself is not content, each
            // following empty line is); blanks before the backslash are content, blanks after the
            // last break are dropped
            if style == FStyle::Double && !use_fold && can_fold && st > 0 && (i >= v.len() || !is_blank(v[i])) && r.chance(1, 2) {
                out.push('\\');
                out.push('\n');
                for _ in 0..run {
                    if r.chance(1, 4) {
                        for _ in 0..r.below(ctx.cont_min + 2) {
                            out.push(' ');
                        }
                    }
                    out.push('\n');
                }
                indent(r, &mut out, v.get(i).copied());
                continue;
            }
            if use_fold {
                // optional trailing blanks before the break are dropped by folding
                if r.chance(1, 4) {
                    out.push_str(if r.chance(1, 2) { " " } else { "  " });
                }
                for k in 0..=run {
                    out.push('\n');
                    if k < run {
                        // an empty line: may carry some blanks
                        if r.chance(1, 4) {
                            for _ in 0..r.below(ctx.cont_min + 2) {
                                out.push(' ');
                            }
                        }
                    }
                }
                indent(r, &mut out, v.get(i).copied());
            } else {
                for _ in 0..run {
                    out.push_str("\\n");
                }
            }
            continue;
        }
        // interior single space -> optional fold
        if c == ' '
            && can_fold
            && i > 0
            && i + 1 < v.len()
            && !is_blank(v[i - 1])
            && v[i - 1] != '\n'
            && !is_blank(v[i + 1])
            && v[i + 1] != '\n'
            && r.chance(1, 3)
            && (style != FStyle::Plain || v[i + 1].is_alphanumeric() || (v[i + 1] as u32) > 0x7f)
        {
            if r.chance(1, 4) {
                out.push_str(if r.chance(1, 2) { " " } else { " \t" });
                if style == FStyle::Plain {
                    // keep it to spaces for plain scalars
                    while out.ends_with('\t') {
                        out.pop();
                    }
                }
            }
            out.push('\n');
            indent(r, &mut out, v.get(i + 1).copied());
            i += 1;
            continue;
        }
        match style {
            FStyle::Plain => out.push(c),
            FStyle::Single => {
                if c == '\'' {
                    out.push_str("''");
                } else {
                    out.push(c);
                }
            }
            FStyle::Double => {
                // escaped line break: joins lines without a space; only between two characters
                if can_fold && i > 0 && r.chance(1, 12) {
                    out.push_str("\\\n");
                    indent(r, &mut out, Some('a'));
                    if is_blank(c) {
                        // leading blanks of the continuation line would be dropped: escape
                        out.push_str(if c == ' ' { "\\ " } else { "\\t" });
                        i += 1;
                        continue;
                    }
                }
                let must_escape = c == '"' || c == '\\' || !printable_literal(c) || c == '\u{feff}';
                // blanks at the edge of a line that we created by folding would be dropped; the
                // folding branches above never leave a literal blank next to a break because they
                // require non-blank neighbours, so literal blanks are safe here.
                if must_escape || r.chance(1, 6) {
                    push_escape(&mut out, c, r);
                } else {
                    out.push(c);
                }
            }
        }
        i += 1;
    }
    match style {
        FStyle::Single => out.push('\''),
        FStyle::Double => out.push('"'),
        FStyle::Plain => {}
    }
    // a continuation line of a quoted scalar that could stand at column 0 must not begin like a
    // document marker (`---` / `...` followed by a blank, a break or the end): indent it by one
    // blank (leading blanks of continuation lines are not content)
    if ctx.cont_min == 0 && !matches!(style, FStyle::Plain) {
        let mut fixed = String::with_capacity(out.len() + 4);
        let chars: Vec<char> = out.chars().collect();
        for (k, c) in chars.iter().enumerate() {
            fixed.push(*c);
            if *c == '\n' {
                let rest: String = chars[k + 1..].iter().take(4).collect();
                if rest.starts_with("---") || rest.starts_with("...") {
                    fixed.push(' ');
                }
            }
        }
        out = fixed;
    }
    Some(out)
}

fn push_escape(out: &mut String, c: char, r: &mut Rng) {
    let named = match c {
        '\0' => Some("\\0"),
        '\u{7}' => Some("\\a"),
        '\u{8}' => Some("\\b"),
        '\t' => Some(if r.chance(1, 2) { "\\t" } else { "\\\t" }),
        '\n' => Some("\\n"),
        '\u{b}' => Some("\\v"),
        '\u{c}' => Some("\\f"),
        '\r' => Some("\\r"),
        '\u{1b}' => Some("\\e"),
        ' ' => Some("\\ "),
        '"' => Some("\\\""),
        '/' => Some("\\/"),
        '\\' => Some("\\\\"),
        '\u{85}' => Some("\\N"),
        '\u{a0}' => Some("\\_"),
        '\u{2028}' => Some("\\L"),
        '\u{2029}' => Some("\\P"),
        _ => None,
    };
    let cp = c as u32;
    let forced_named = c == '"' || c == '\\';
    if let Some(n) = named {
        if forced_named || r.chance(2, 3) {
            out.push_str(n);
            return;
        }
    }
    let upper = r.chance(1, 2);
    let hex = |w: usize| if upper { format!("{cp:0w$X}") } else { format!("{cp:0w$x}") };
    if cp <= 0xff && r.chance(1, 2) {
        let _ = write!(out, "\\x{}", hex(2));
    } else if cp <= 0xffff && r.chance(2, 3) {
        let _ = write!(out, "\\u{}", hex(4));
    } else {
        let _ = write!(out, "\\U{}", hex(8));
    }
}

// ------------------------------------------------------------------------------------------------
// Reference inverse for flow scalars (spec 6.5 / 7.3): used as an oracle self-test of the renderer
// ------------------------------------------------------------------------------------------------

/// Parse the *body* of a rendered flow scalar (with quotes for quoted styles) back to its value.
pub fn reference_flow_value(text: &str, style: FStyle) -> Option<String> {
    let v: Vec<char> = text.chars().collect();
    let (mut i, end) = match style {
        FStyle::Plain => (0, v.len()),
        _ => (1, v.len().checked_sub(1)?),
    };
    let mut out = String::new();
    while i < end {
        let c = v[i];
        if c == '\n' || is_blank(c) {
            // gather a whitespace/break region
            let st = i;
            let mut breaks = 0;
            while i < end && (v[i] == '\n' || is_blank(v[i])) {
                if v[i] == '\n' {
                    breaks += 1;
                }
                i += 1;
            }
            if breaks == 0 {
                // plain blanks: content (interior) — trailing blanks before the closing quote too
                out.extend(v[st..i].iter());
            } else if breaks == 1 {
                out.push(' ');
            } else {
                for _ in 0..breaks - 1 {
                    out.push('\n');
                }
            }
            continue;
        }
        match style {
            FStyle::Single if c == '\'' => {
                if v.get(i + 1) == Some(&'\'') && i + 1 < end {
                    out.push('\'');
                    i += 2;
                    continue;
                }
                return None;
            }
            FStyle::Double if c == '\\' => {
                let e = *v.get(i + 1)?;
                i += 2;
                let simple = match e {
                    '0' => Some('\0'),
                    'a' => Some('\u{7}'),
                    'b' => Some('\u{8}'),
                    't' | '\t' => Some('\t'),
                    'n' => Some('\n'),
                    'v' => Some('\u{b}'),
                    'f' => Some('\u{c}'),
                    'r' => Some('\r'),
                    'e' => Some('\u{1b}'),
                    ' ' => Some(' '),
                    '"' => Some('"'),
                    '/' => Some('/'),
                    '\\' => Some('\\'),
                    'N' => Some('\u{85}'),
                    '_' => Some('\u{a0}'),
                    'L' => Some('\u{2028}'),
                    'P' => Some('\u{2029}'),
                    _ => None,
                };
                if let Some(ch) = simple {
                    out.push(ch);
                    continue;
                }
                if e == '\n' {
                    // escaped break: join; preceding blanks are content (already pushed), following
                    // empty lines and leading blanks are dropped
                    while i < end && (v[i] == '\n' || is_blank(v[i])) {
                        // l-empty lines after an escaped break each contribute a newline
                        if v[i] == '\n' {
                            out.push('\n');
                        }
                        i += 1;
                    }
                    continue;
                }
                let w = match e {
                    'x' => 2,
                    'u' => 4,
                    'U' => 8,
                    _ => return None,
                };
                if i + w > end {
                    return None;
                }
                let h: String = v[i..i + w].iter().collect();
                let cp = u32::from_str_radix(&h, 16).ok()?;
                out.push(char::from_u32(cp)?);
                i += w;
                continue;
            }
            _ => {}
        }
        out.push(c);
        i += 1;
    }
    Some(out)
}

// ------------------------------------------------------------------------------------------------
// Block scalars
// ------------------------------------------------------------------------------------------------

#[derive(Clone, Copy, PartialEq, Eq, Debug)]
pub enum Chomp {
    Strip,
    Clip,
    Keep,
}

/// Reference value of a block scalar whose de-indented content lines are `lines` ("" = empty line).
/// Written from YAML 1.2.2 §8.1.1.2 (chomping), §8.1.2 (literal), §8.1.3 (folded).
pub fn block_value(lines: &[String], folded: bool, chomp: Chomp) -> String {
    // split off trailing empty lines
    let mut last = lines.len();
    while last > 0 && lines[last - 1].is_empty() {
        last -= 1;
    }
    let trailing = lines.len() - last;
    let body = &lines[..last];
    if body.is_empty() {
        // content-less scalar (Example 8.6): only "keep" retains the empty lines
        return match chomp {
            Chomp::Keep => "\n".repeat(trailing),
            _ => String::new(),
        };
    }
    let mut out = String::new();
    if !folded {
        out.push_str(&body.join("\n"));
    } else {
        let spaced = |s: &str| s.starts_with(' ') || s.starts_with('\t');
        let mut prev: Option<&str> = None;
        let mut empties = 0usize;
        for l in body {
            if l.is_empty() {
                empties += 1;
                continue;
            }
            match prev {
                None => {
                    // leading empty lines
                    out.push_str(&"\n".repeat(empties));
                }
                Some(p) => {
                    if !spaced(p) && !spaced(l) {
                        if empties == 0 {
                            out.push(' ');
                        } else {
                            out.push_str(&"\n".repeat(empties));
                        }
                    } else {
                        out.push_str(&"\n".repeat(empties + 1));
                    }
                }
            }
            out.push_str(l);
            prev = Some(l);
            empties = 0;
        }
    }
    match chomp {
        Chomp::Strip => {}
        Chomp::Clip => out.push('\n'),
        Chomp::Keep => {
            out.push('\n');
            out.push_str(&"\n".repeat(trailing));
        }
    }
    out
}

/// One rendered block scalar: the header text (starting at `|` / `>`), and the content lines
/// (already indented, without line terminators).
pub struct BlockRender {
    pub header: String,
    pub body_lines: Vec<String>,
    pub expected: String,
    pub explicit_indicator: bool,
}

/// Render a block scalar with content `lines` (de-indented; "" = empty line; a line may start with
/// blanks = more-indented). `parent_indent` is the indentation n of the enclosing block construct
/// (-1 at top level); the content is indented by `content_indent` > parent_indent (>= 0 at top level).
/// Returns None when this combination cannot be rendered legally.
#[allow(clippy::too_many_arguments)]
pub fn render_block_scalar(
    lines: &[String],
    folded: bool,
    chomp: Chomp,
    parent_indent: isize,
    content_indent: usize,
    want_explicit: bool,
    header_comment: bool,
    r: &mut Rng,
) -> Option<BlockRender> {
    if (content_indent as isize) <= parent_indent {
        return None;
    }
    let first_nonempty = lines.iter().position(|l| !l.is_empty());
    // auto-detection is legal only when the first non-empty line does not start with a space and
    // no leading empty line is longer than the content indentation (we never render those longer).
    let needs_explicit = match first_nonempty {
        Some(i) => lines[i].starts_with(' '),
        None => false,
    };
    let explicit = want_explicit || needs_explicit;
    let mut digit = 0usize;
    if explicit {
        // At the top level there is no parent indentation: the property statement ("the content
        // indentation is the explicit indicator") is read as libyaml / PyYAML read it, i.e. the
        // indicator counts from column 0.
        let d = content_indent as isize - parent_indent.max(0);
        if !(1..=9).contains(&d) {
            return None;
        }
        digit = d as usize;
    }
    // a first content line starting with a tab right after the header is rejected by some parsers'
    // reading of the spec; keep tab-led lines away from the first position
    if let Some(i) = first_nonempty {
        if lines[i].starts_with('\t') {
            return None;
        }
    }
    let mut header = String::new();
    header.push(if folded { '>' } else { '|' });
    let ch = match chomp {
        Chomp::Strip => "-",
        Chomp::Clip => "",
        Chomp::Keep => "+",
    };
    if explicit {
        if r.chance(1, 2) {
            let _ = write!(header, "{digit}{ch}");
        } else {
            let _ = write!(header, "{ch}{digit}");
        }
    } else {
        header.push_str(ch);
    }
    if header_comment {
        header.push_str(if r.chance(1, 2) { " # comment" } else { "  #c" });
    } else if r.chance(1, 8) {
        header.push_str("  ");
    }
    let mut body = Vec::new();
    let seen_content_before = |idx: usize| lines[..idx].iter().any(|l| !l.is_empty());
    for (idx, l) in lines.iter().enumerate() {
        if l.is_empty() {
            // an empty line may carry up to content_indent spaces; before the first content line of
            // an auto-detected scalar it must not be longer than the content indentation
            let max = content_indent;
            let n = if r.chance(1, 3) { r.below(max + 1) } else { 0 };
            let _ = seen_content_before(idx);
            body.push(" ".repeat(n));
        } else {
            body.push(format!("{}{}", " ".repeat(content_indent), l));
        }
    }
    Some(BlockRender { header, body_lines: body, expected: block_value(lines, folded, chomp), explicit_indicator: explicit })
}
