//! Monitor for C08: scalar typing follows the YAML 1.2 core schema (§10.3.2), hand-written recognisers.

use crate::nodes::*;
use crate::util::{catch, emit_progress, Rng, Stats, Violation, J};
use saphyr::{LoadableYamlNode, MarkedYaml, MarkedYamlOwned, Scalar, ScalarOwned, Yaml, YamlOwned};
use saphyr_parser::{ScalarStyle, Tag};

fn viol(stats: &mut Stats, sig: String, msg: String, case: J) {
    stats.violation(Violation { sig, msg, case });
}

pub const ALPHA: [char; 27] = [
    '0', '1', '7', '8', '9', '+', '-', '.', 'e', 'E', 'x', 'o', 'a', 'f', 'A', 'F', '_', 'n', 'u', 'l', 't', 'r', 's', 'i', 'N', 'I', '~',
];

pub const WORDS: &[&str] = &[
    "null", "Null", "NULL", "~", "true", "True", "TRUE", "false", "False", "FALSE", ".inf", ".Inf", ".INF", "+.inf", "+.Inf", "+.INF", "-.inf",
    "-.Inf", "-.INF", ".nan", ".NaN", ".NAN", "inf", "Inf", "INF", "nan", "NaN", "NAN", "infinity", "Infinity", "+inf", "-inf", "+nan", "-nan",
    "-.nan", "+.nan", ".Nan", ".nAn", ".InF", "nUll", "tRue", "yes", "no", "on", "off", "y", "n", "0x", "0o", "0b1", "0x+1", "0x-1", "0o-7", "0o+7",
    "+-5", "++5", "-+5", "--5", "+0x1", "-0x1", "+0o1", "0X1F", "0O17", "1_000", "1__0", "_1", "1_", "0.", ".0", ".", "..", "+.", "-.", "e5", "1e",
    "1e+", "1e-", "1E5", "1e05", "1.e5", ".5e-3", "+.5E+3", "1.5.2", "1e5e5", "0x1.8", "1 2", "1e1000", "-1e1000", "1e-1000", "00", "007", "-0",
    "+0", "-0.0", "0.0", "9223372036854775807", "9223372036854775808", "-9223372036854775808", "-9223372036854775809", "+9223372036854775807",
    "+9223372036854775808", "0x7FFFFFFFFFFFFFFF", "0x8000000000000000", "0xFFFFFFFFFFFFFFFF", "0xffffffffffffffffff", "0o777777777777777777777",
    "0o1000000000000000000000", "0o7777777777777777777777", "123456789012345678901234567890", "0.1", "1.0", "1.", "3.14159", "6.02e23", "12e03",
    "0x0", "0o0", "0xdeadBEEF", "0xG", "0o8", "0x1F ", " 1", "1,000", "1:30", "1:30:00", "2001-12-14", "0b101", "1e5.5", "3.14159265358979323846264338327950288419716939937510582097494459230781640628", "000000000000000000000000000000000000000000000000000000000000000042", "10000000000000000000000000000000000000000000000000000000000000000000000", "-3.14159265358979323846264338327950288419716939937510582097494459230781640628", "0x000000000000000000000000000000000000000000000000000000000000001F", "0o000000000000000000000000000000000000000000000000000000000000000000000017", "99999999999999999999999999999999999999999999999999999999999999999999999999999999.5e-3", "+000000000000000000000000000000000000000000000000000000000000000042", "０", "١", "1٠", "−1", "",
];

#[derive(Clone, Debug, PartialEq)]
pub enum Lit {
    Null,
    Bool(bool),
    /// integer literal; None when the value does not fit in 64 bits
    Int(Option<i64>),
    /// decimal / exponent float that is not also an integer literal
    Float,
    PosInf,
    NegInf,
    Nan,
    /// null/bool spelling of the core schema that is outside the set the statement names (Null, NULL~ are named; True TRUE False FALSE Null are optional)
    OptionalNull,
    OptionalBool(bool),
    None,
}

fn all_digits(s: &str) -> bool {
    !s.is_empty() && s.bytes().all(|b| b.is_ascii_digit())
}

fn int_value(digits: &str, radix: u32, neg: bool) -> Option<i64> {
    let mut v: i128 = 0;
    for c in digits.chars() {
        let d = c.to_digit(radix)? as i128;
        v = v * (radix as i128) + d;
        if v > (1i128 << 70) {
            return None;
        }
    }
    let v = if neg { -v } else { v };
    i64::try_from(v).ok()
}

/// Is `s` a decimal / exponent float of the core schema: [-+]?(\.[0-9]+|[0-9]+(\.[0-9]*)?)([eE][-+]?[0-9]+)?
pub fn is_core_float(s: &str) -> bool {
    let b = s.as_bytes();
    let mut i = 0;
    if i < b.len() && (b[i] == b'+' || b[i] == b'-') {
        i += 1;
    }
    let digits = |i: &mut usize| {
        let st = *i;
        while *i < b.len() && b[*i].is_ascii_digit() {
            *i += 1;
        }
        *i - st
    };
    if i < b.len() && b[i] == b'.' {
        i += 1;
        if digits(&mut i) == 0 {
            return false;
        }
    } else {
        if digits(&mut i) == 0 {
            return false;
        }
        if i < b.len() && b[i] == b'.' {
            i += 1;
            digits(&mut i);
        }
    }
    if i < b.len() && (b[i] == b'e' || b[i] == b'E') {
        i += 1;
        if i < b.len() && (b[i] == b'+' || b[i] == b'-') {
            i += 1;
        }
        if digits(&mut i) == 0 {
            return false;
        }
    }
    i == b.len()
}

pub fn classify(s: &str) -> Lit {
    match s {
        "null" | "~" | "NULL" => return Lit::Null,
        "Null" => return Lit::OptionalNull,
        "true" => return Lit::Bool(true),
        "false" => return Lit::Bool(false),
        "True" | "TRUE" => return Lit::OptionalBool(true),
        "False" | "FALSE" => return Lit::OptionalBool(false),
        ".inf" | ".Inf" | ".INF" | "+.inf" | "+.Inf" | "+.INF" => return Lit::PosInf,
        "-.inf" | "-.Inf" | "-.INF" => return Lit::NegInf,
        ".nan" | ".NaN" | ".NAN" => return Lit::Nan,
        _ => {}
    }
    if let Some(h) = s.strip_prefix("0x") {
        if !h.is_empty() && h.bytes().all(|b| b.is_ascii_hexdigit()) {
            return Lit::Int(int_value(h, 16, false));
        }
        return Lit::None;
    }
    if let Some(o) = s.strip_prefix("0o") {
        if !o.is_empty() && o.bytes().all(|b| (b'0'..=b'7').contains(&b)) {
            return Lit::Int(int_value(o, 8, false));
        }
        return Lit::None;
    }
    let (neg, body) = match s.as_bytes().first() {
        Some(b'-') => (true, &s[1..]),
        Some(b'+') => (false, &s[1..]),
        _ => (false, s),
    };
    if all_digits(body) {
        return Lit::Int(int_value(body, 10, neg));
    }
    if is_core_float(s) {
        return Lit::Float;
    }
    Lit::None
}

fn float_value(s: &str) -> f64 {
    // only called on texts already recognised as decimal floats / integers
    s.parse::<f64>().unwrap_or(f64::NAN)
}

/// Coarse shape of a text for violation signatures: digits collapse to 9, letters to lower case.
fn shape(text: &str) -> String {
    let mut o = String::new();
    let mut last = '\0';
    for c in text.chars().take(24) {
        let m = if c.is_ascii_digit() { '9' } else { c.to_ascii_lowercase() };
        if !(m == '9' && last == '9') {
            o.push(m);
        }
        last = m;
    }
    o
}

fn case_of(text: &str, style: ScalarStyle, tag: Option<&Tag>) -> J {
    J::obj(vec![
        ("text", J::s(text)),
        ("style", J::s(&format!("{style:?}"))),
        ("tag", tag.map_or(J::Null, |t| J::s(&format!("{}{}", t.handle, t.suffix)))),
    ])
}

/// Check the untagged plain reading of `text`. Returns the CN of the reading.
/// What is wrong with `got` as the untagged plain reading of `text` (class, message); empty = nothing.
pub fn untagged_problems(text: &str, got: &CN) -> Vec<(String, String)> {
    let lit = classify(text);
    let mut out: Vec<(String, String)> = vec![];
    let mut bad = |class: &str, msg: String| out.push((class.to_string(), msg));
    // soundness
    match got {
        CN::Null => {
            if !matches!(lit, Lit::Null | Lit::OptionalNull) {
                bad("unsound-null", format!("{text:?} loads as null but is not a core-schema null"));
            }
        }
        CN::Bool(b) => {
            if !matches!(&lit, Lit::Bool(x) | Lit::OptionalBool(x) if x == b) {
                bad("unsound-bool", format!("{text:?} loads as {b} but is not that core-schema boolean"));
            }
        }
        CN::Int(v) => match &lit {
            Lit::Int(Some(x)) if x == v => {}
            Lit::Int(x) => bad("wrong-int-value", format!("{text:?} loads as integer {v}, the literal denotes {x:?}")),
            _ => bad("unsound-int", format!("{text:?} loads as integer {v} but is not a core-schema integer")),
        },
        CN::Float(v) => match &lit {
            Lit::PosInf if *v == f64::INFINITY => {}
            Lit::NegInf if *v == f64::NEG_INFINITY => {}
            Lit::Nan if v.is_nan() => {}
            Lit::Float | Lit::Int(None) => {
                let want = float_value(text);
                if !(want == *v || (want.is_nan() && v.is_nan())) || want.is_nan() {
                    bad("wrong-float-value", format!("{text:?} loads as float {v:?}, the literal denotes {want:?}"));
                }
            }
            _ => bad("unsound-float", format!("{text:?} loads as float {v:?} but is not a core-schema float")),
        },
        CN::Str(s) => {
            if s != text {
                bad("string-content-changed", format!("{text:?} loads as the different string {s:?}"));
            }
            // completeness for the set the statement names
            match &lit {
                Lit::Null => bad("missed-null", format!("{text:?} is a null literal but loads as a string")),
                Lit::Bool(_) => bad("missed-bool", format!("{text:?} is a boolean literal but loads as a string")),
                Lit::Int(Some(_)) => bad("missed-int", format!("{text:?} is an integer literal within 64 bits but loads as a string")),
                Lit::Float => bad("missed-float", format!("{text:?} is a float literal but loads as a string")),
                Lit::PosInf | Lit::NegInf | Lit::Nan => bad("missed-special-float", format!("{text:?} is a .inf/.nan spelling but loads as a string")),
                _ => {}
            }
        }
        other => bad("unexpected-kind", format!("{text:?} loads as {}", other.show())),
    }
    out
}

pub fn check_untagged(text: &str, stats: &mut Stats) -> Option<CN> {
    let r = catch(|| cn_scalar(&Scalar::parse_from_cow(text.into())));
    let Ok(got) = r else {
        viol(stats, "C08/panic/parse_from_cow".into(), format!("parse_from_cow({text:?}) panicked"), case_of(text, ScalarStyle::Plain, None));
        return None;
    };
    let key = shape(text);
    for (class, msg) in untagged_problems(text, &got) {
        viol(stats, format!("C08/{class}/{key}"), msg, case_of(text, ScalarStyle::Plain, None));
    }
    Some(got)
}

fn core_tag(suffix: &str) -> Tag {
    Tag { handle: "tag:yaml.org,2002:".into(), suffix: suffix.into() }
}

/// What is wrong with `got` (None = BadValue) as the reading of the plain scalar `text` under the core
/// tag `!!suffix`, given the untagged reading of the same text.
pub fn tagged_problems(text: &str, suffix: &str, untagged: &CN, got: &Option<CN>) -> Vec<(String, String)> {
    let lit = classify(text);
    let mut out: Vec<(String, String)> = vec![];
    let mut bad = |class: &str, msg: String| out.push((class.to_string(), msg));
    match (got, suffix) {
        (None, _) => {
            // BadValue is allowed unless the statement guarantees acceptance
            let must = match suffix {
                "int" => matches!(lit, Lit::Int(Some(_))) && !text.starts_with("0x") && !text.starts_with("0o"),
                "float" => matches!(lit, Lit::Float | Lit::Int(_)) && !text.starts_with("0x") && !text.starts_with("0o"),
                "bool" => matches!(lit, Lit::Bool(_)),
                _ => matches!(text, "null" | "~"),
            };
            if must {
                bad("refused-own-literal", format!("!!{suffix} {text:?} is refused (BadValue)"));
            }
        }
        (Some(CN::Int(v)), "int") => {
            if *untagged != CN::Int(*v) {
                bad("disagrees-with-untagged", format!("!!int {text:?} gives {v}, the untagged reading is {}", untagged.show()));
            }
        }
        (Some(CN::Float(v)), "float") => {
            let ok = match untagged {
                CN::Float(u) => (u == v) || (u.is_nan() && v.is_nan()),
                CN::Int(i) => (*i as f64) == *v,
                _ => false,
            };
            if !ok {
                bad("disagrees-with-untagged", format!("!!float {text:?} gives {v:?}, the untagged reading is {}", untagged.show()));
            }
        }
        (Some(CN::Bool(b)), "bool") => {
            if *untagged != CN::Bool(*b) {
                bad("disagrees-with-untagged", format!("!!bool {text:?} gives {b}, the untagged reading is {}", untagged.show()));
            }
        }
        (Some(CN::Null), "null") => {
            if *untagged != CN::Null {
                bad("disagrees-with-untagged", format!("!!null {text:?} gives null, the untagged reading is {}", untagged.show()));
            }
        }
        (Some(other), _) => bad("other-type", format!("!!{suffix} {text:?} gives {} (another type)", other.show())),
    }
    out
}

pub fn check_tagged_and_styles(text: &str, untagged: &CN, stats: &mut Stats) {
    let lit = classify(text);
    let key = shape(text);
    // non-plain styles: always a string with identical content, whatever the tag
    for style in [ScalarStyle::SingleQuoted, ScalarStyle::DoubleQuoted, ScalarStyle::Literal, ScalarStyle::Folded] {
        for tag in [None, Some(core_tag("int")), Some(core_tag("null"))] {
            let r = catch(|| Scalar::parse_from_cow_and_metadata(text.into(), style, tag.as_ref()).map(|s| cn_scalar(&s)));
            stats.cnt("styled_readings", 1);
            if let Ok(got) = r {
                if got != Some(CN::Str(text.to_string())) {
                    viol(
                        stats,
                        format!("C08/non-plain-not-string/{key}"),
                        format!("{text:?} in style {style:?} (tag {tag:?}) loads as {got:?} instead of the same string"),
                        case_of(text, style, tag.as_ref()),
                    );
                }
            }
        }
    }
    // core tags
    for suffix in ["int", "float", "bool", "null"] {
        let tag = core_tag(suffix);
        let r = catch(|| Scalar::parse_from_cow_and_metadata(text.into(), ScalarStyle::Plain, Some(&tag)).map(|s| cn_scalar(&s)));
        let Ok(got) = r else {
            viol(stats, format!("C08/panic/tagged/{suffix}"), format!("!!{suffix} {text:?} panicked"), case_of(text, ScalarStyle::Plain, Some(&tag)));
            continue;
        };
        stats.cnt("tagged_readings", 1);
        let mut bad = |class: &str, msg: String, stats: &mut Stats| {
            viol(stats, format!("C08/tag-{suffix}/{class}/{key}"), msg, case_of(text, ScalarStyle::Plain, Some(&tag)));
        };
        for (class, msg) in tagged_problems(text, suffix, untagged, &got) {
            bad(&class, msg, stats);
        }
        // the same tag written verbatim (`!<tag:yaml.org,2002:int>`) or through a %TAG prefix that cuts
        // the name elsewhere is the same tag: handle and suffix are only its two halves
        for (h, sfx) in [("", format!("tag:yaml.org,2002:{suffix}")), ("tag:yaml.org,", format!("2002:{suffix}")), ("tag:yaml.org,2002:i", suffix[1..].to_string())] {
            if h.ends_with('i') && !suffix.starts_with('i') {
                continue;
            }
            let alt = Tag { handle: h.to_string(), suffix: sfx };
            if let Ok(g2) = catch(|| Scalar::parse_from_cow_and_metadata(text.into(), ScalarStyle::Plain, Some(&alt)).map(|s| cn_scalar(&s))) {
                stats.cnt("tag_spelling_readings", 1);
                let same = match (&got, &g2) {
                    (Some(CN::Float(a)), Some(CN::Float(b))) => a == b || (a.is_nan() && b.is_nan()),
                    (a, b) => a == b,
                };
                if !same {
                    viol(
                        stats,
                        format!("C08/tag-spelling/{suffix}"),
                        format!("{text:?} under the tag tag:yaml.org,2002:{suffix} gives {got:?} when the tag is split as `tag:yaml.org,2002:` + `{suffix}` and {g2:?} when split as {:?} + {:?}", alt.handle, alt.suffix),
                        case_of(text, ScalarStyle::Plain, Some(&alt)),
                    );
                }
            }
        }
    }
    // !!str, other yaml.org tags and foreign tags leave a string
    for tag in [
        core_tag("str"),
        core_tag("binary"),
        core_tag("timestamp"),
        Tag { handle: "!".into(), suffix: "local".into() },
        Tag { handle: "tag:example.com,2000:".into(), suffix: "int".into() },
        Tag { handle: String::new(), suffix: "!".into() },
    ] {
        let r = catch(|| Scalar::parse_from_cow_and_metadata(text.into(), ScalarStyle::Plain, Some(&tag)).map(|s| cn_scalar(&s)));
        stats.cnt("tagged_readings", 1);
        if let Ok(got) = r {
            if got != Some(CN::Str(text.to_string())) {
                viol(
                    stats,
                    format!("C08/string-tag-not-string/{}{}/{key}", tag.handle, tag.suffix),
                    format!("{text:?} under tag {}{} loads as {got:?}", tag.handle, tag.suffix),
                    case_of(text, ScalarStyle::Plain, Some(&tag)),
                );
            }
        }
    }
    // borrowed and owned agree
    for tag in [None, Some(core_tag("int")), Some(core_tag("float"))] {
        let a = catch(|| Scalar::parse_from_cow_and_metadata(text.into(), ScalarStyle::Plain, tag.as_ref()).map(|s| cn_scalar(&s)));
        let b = catch(|| ScalarOwned::parse_from_cow_and_metadata(text.into(), ScalarStyle::Plain, tag.as_ref()).map(|s| cn_scalar_owned(&s)));
        if let (Ok(a), Ok(b)) = (a, b) {
            stats.cnt("borrowed_owned_comparisons", 1);
            if a != b {
                viol(stats, format!("C08/borrowed-vs-owned/{key}"), format!("{text:?}: Scalar gives {a:?}, ScalarOwned gives {b:?}"), case_of(text, ScalarStyle::Plain, tag.as_ref()));
            }
        }
    }
    let b = catch(|| cn_scalar_owned(&ScalarOwned::parse_from_cow(text.into())));
    if let Ok(b) = b {
        if b != *untagged {
            viol(stats, format!("C08/borrowed-vs-owned/{key}"), format!("{text:?}: Scalar::parse_from_cow gives {}, ScalarOwned gives {}", untagged.show(), b.show()), case_of(text, ScalarStyle::Plain, None));
        }
    }
}

/// The same text through real documents in the four node types (when it is a legal plain scalar).
pub fn check_in_document(text: &str, untagged: &CN, stats: &mut Stats) {
    if !crate::events::terminates(&format!("- {text}\n")) {
        stats.cnt("skipped_parse_does_not_terminate", 1);
        return;
    }
    let ctx = crate::scalars::FlowCtx { in_flow: false, single_line: true, cont_min: 1, top_level: false, first_col0: false };
    if !crate::scalars::plain_ok(text, ctx) {
        return;
    }
    let doc = format!(
        "- {text}\n- !!str {text}\n- '{}'\n- \"{}\"\n- |-\n  {text}\n- >-\n  {text}\n",
        text.replace('\'', "''"),
        text.replace('\\', "\\\\").replace('"', "\\\"")
    );
    let st = || CN::Str(text.to_string());
    let want = CN::Seq(vec![untagged.clone(), st(), st(), st(), st(), st()]);
    let key = shape(text);
    macro_rules! ld {
        ($ty:ty, $cn:expr, $name:literal) => {{
            if let Ok(Ok(d)) = catch(|| <$ty>::load_from_str(&doc).map(|d| d.iter().map($cn).collect::<Vec<_>>())) {
                stats.cnt("document_loads", 1);
                if d.len() != 1 || d[0] != want {
                    viol(
                        stats,
                        format!("C08/in-document/{}/{key}", $name),
                        format!("{}: document {doc:?} loads as {}, expected {}", $name, d.first().map_or("<none>".to_string(), CN::show), want.show()),
                        J::obj(vec![("text", J::s(text)), ("document", J::s(&doc))]),
                    );
                }
            }
        }};
    }
    ld!(Yaml, cn_yaml, "Yaml");
    ld!(YamlOwned, cn_owned, "YamlOwned");
    ld!(MarkedYaml, cn_marked, "MarkedYaml");
    ld!(MarkedYamlOwned, cn_marked_owned, "MarkedYamlOwned");
    // the same document loaded with resolution deferred, then resolved
    macro_rules! deferred {
        ($ty:ty, $cn:expr, $name:literal, $resolve:expr) => {{
            let r = catch(|| {
                let mut loader: saphyr::YamlLoader<$ty> = saphyr::YamlLoader::default();
                loader.early_parse(false);
                let mut p = saphyr_parser::Parser::new_from_str(&doc);
                p.load(&mut loader, true).ok()?;
                let mut docs = loader.into_documents();
                for d in &mut docs {
                    $resolve(d);
                }
                Some(docs.iter().map($cn).collect::<Vec<_>>())
            });
            if let Ok(Some(d)) = r {
                stats.cnt("deferred_document_loads", 1);
                if d.len() != 1 || d[0] != want {
                    viol(
                        stats,
                        format!("C08/in-document-deferred/{}/{key}", $name),
                        format!("{}: document {doc:?} loaded with early_parse(false) and then resolved is {}, expected {}", $name, d.first().map_or("<none>".to_string(), CN::show), want.show()),
                        J::obj(vec![("text", J::s(text)), ("document", J::s(&doc))]),
                    );
                }
            }
        }};
    }
    deferred!(Yaml, cn_yaml, "Yaml", |d: &mut Yaml| d.parse_representation_recursive());
    deferred!(YamlOwned, cn_owned, "YamlOwned", |d: &mut YamlOwned| d.parse_representation_recursive());
    deferred!(MarkedYaml, cn_marked, "MarkedYaml", |d: &mut MarkedYaml| d.data.parse_representation_recursive());
    deferred!(MarkedYamlOwned, cn_marked_owned, "MarkedYamlOwned", |d: &mut MarkedYamlOwned| d.data.parse_representation_recursive());
}

fn near_literal(text: &str) -> bool {
    // a literal of some type, or one edit (deletion of one char) away from one
    if classify(text) != Lit::None {
        return true;
    }
    let v: Vec<char> = text.chars().collect();
    for i in 0..v.len() {
        let t: String = v.iter().enumerate().filter(|(j, _)| *j != i).map(|(_, c)| *c).collect();
        if !t.is_empty() && classify(&t) != Lit::None {
            return true;
        }
    }
    false
}

pub fn check_text(text: &str, full: bool, stats: &mut Stats) {
    let Some(untagged) = check_untagged(text, stats) else { return };
    stats.cnt("untagged_readings", 1);
    stats.cnt(
        match untagged {
            CN::Null => "read_as_null",
            CN::Bool(_) => "read_as_bool",
            CN::Int(_) => "read_as_int",
            CN::Float(_) => "read_as_float",
            _ => "read_as_string",
        },
        1,
    );
    if full {
        check_tagged_and_styles(text, &untagged, stats);
        check_in_document(text, &untagged, stats);
    }
    let nt = near_literal(text);
    stats.eval(if nt { Some(text.as_bytes()) } else { None });
    if nt && stats.want_sample() && text.len() >= 3 && !matches!(untagged, CN::Str(_)) {
        stats.sample(J::obj(vec![("text", J::s(text)), ("untagged_plain_reading", J::s(&untagged.show()))]));
    }
}

/// Literals whose text is far longer than any value-derived spelling.
fn long_literals() -> Vec<String> {
    let mut v = vec![];
    for n in [100usize, 400, 800, 1500] {
        let z = "0".repeat(n);
        v.push(format!("1.{z}"));
        v.push(format!("-2.5{z}e2"));
        v.push(format!("0.{z}1"));
        v.push(format!("{z}7"));
        v.push(format!("+{z}7"));
        v.push(format!("0x{z}1F"));
        v.push(format!("0o{z}17"));
        v.push(format!("1{z}"));
        v.push(format!("1{z}.5"));
        v.push(format!("1e{z}1"));
    }
    v
}

pub fn run_c08(tier: &str, seed: u64, shard: u64, nshards: u64, scale: f64, stats: &mut Stats) {
    let thorough = tier == "thorough";
    let l: u32 = if thorough { 5 } else { 4 };
    let k = ALPHA.len() as u64;
    let total: u64 = (0..=l).map(|i| k.pow(i)).sum();
    let mut idx = shard;
    let mut n = 0u64;
    while idx < total {
        let mut x = idx;
        let mut len = 0u32;
        let mut p = 1u64;
        while x >= p {
            x -= p;
            p *= k;
            len += 1;
        }
        let mut t = String::new();
        for _ in 0..len {
            t.push(ALPHA[(x % k) as usize]);
            x /= k;
        }
        // the full battery (tags, styles, documents) on every text up to length 3 and a 1/16 sample beyond
        let full = len <= 3 || (idx / nshards) % 16 == 0 || classify(&t) != Lit::None;
        check_text(&t, full, stats);
        n += 1;
        if n % 20000 == 0 {
            emit_progress(n);
        }
        idx += nshards;
    }
    if shard == 0 {
        stats.exhaustive_parts.insert(format!("all {total} texts of length <= {l} over the 27-symbol core-schema alphabet (untagged plain reading; tags/styles/documents on all texts of length <= 3, on every literal, and on a 1/16 sample)"));
        for w in WORDS {
            check_text(w, true, stats);
        }
        for w in long_literals() {
            check_text(&w, true, stats);
        }
    }
    // random longer texts: mutations of literals
    let per = ((if thorough { 3_000_000.0 } else { 150_000.0 }) * scale) as u64 / nshards;
    let mut r = Rng::derive(seed, 0xC08, shard);
    for i in 0..per {
        if i % 20000 == 0 {
            emit_progress(n + i);
        }
        let mut t: Vec<char> = match r.below(4) {
            0 => r.pick(WORDS).chars().collect(),
            1 => {
                // random integer / float spelling
                let mut s = String::new();
                if r.chance(1, 3) {
                    s.push(r.pick(&['+', '-']));
                }
                match r.below(5) {
                    0 => s.push_str("0x"),
                    1 => s.push_str("0o"),
                    _ => {}
                }
                for _ in 0..r.range(1, 22) {
                    s.push(r.pick(&['0', '1', '2', '7', '8', '9', 'a', 'F']));
                }
                if r.chance(1, 3) {
                    s.push('.');
                    for _ in 0..r.below(6) {
                        s.push(r.pick(&['0', '5', '9']));
                    }
                }
                if r.chance(1, 3) {
                    s.push(r.pick(&['e', 'E']));
                    if r.chance(1, 2) {
                        s.push(r.pick(&['+', '-']));
                    }
                    for _ in 0..r.below(4) {
                        s.push(r.pick(&['0', '1', '3']));
                    }
                }
                s.chars().collect()
            }
            2 => {
                let v: i64 = match r.below(4) {
                    0 => i64::MAX - r.below(3) as i64,
                    1 => i64::MIN + r.below(3) as i64,
                    2 => r.next() as i64,
                    _ => (r.next() % 100000) as i64,
                };
                match r.below(3) {
                    0 => format!("{v}"),
                    1 if v >= 0 => format!("0x{v:x}"),
                    2 if v >= 0 => format!("0o{v:o}"),
                    _ => format!("{v}"),
                }
                .chars()
                .collect()
            }
            _ => {
                let f = f64::from_bits(r.next());
                format!("{f:?}").chars().collect()
            }
        };
        // one random edit
        if r.chance(1, 2) && !t.is_empty() {
            let at = r.below(t.len());
            match r.below(3) {
                0 => {
                    t.remove(at);
                }
                1 => t.insert(at, r.pick(&ALPHA)),
                _ => t[at] = r.pick(&ALPHA),
            }
        }
        let s: String = t.into_iter().collect();
        check_text(&s, r.chance(1, 4), stats);
    }
}

pub fn replay_c08(case: &J, stats: &mut Stats) {
    let text = case.str_of("text");
    check_text(&text, true, stats);
}
