//! G3: abstract streams -> YAML text under random *legal* layout choices, together with the
//! expected event sentence and a table of marks used by the damage operators (C06).
//! Written from the YAML 1.2.2 productions; see DESIGN.md Appendix A for what is emitted/avoided.

use crate::events::SEv;
use crate::scalars::{self, Chomp, FStyle, FlowCtx};
use crate::util::Rng;
use saphyr_parser::ScalarStyle;
use std::collections::{BTreeMap, HashMap};

#[derive(Clone, Debug)]
pub enum ATag {
    /// `!name`
    Local(String),
    /// `!!name`
    Secondary(String),
    /// `!<text>`
    Verbatim(String),
    /// `!`
    NonSpecific,
    /// `!h!suffix` with the handle declared by a %TAG directive of the document
    Named(String, String),
}

#[derive(Clone, Debug)]
pub enum AKind {
    Scalar(String),
    /// block scalar given as de-indented content lines
    Block { lines: Vec<String>, folded: bool, chomp: u8 },
    Seq(Vec<ANode>),
    Map(Vec<(ANode, ANode)>),
    Alias(String),
    Null,
}

#[derive(Clone, Debug)]
pub struct ANode {
    pub kind: AKind,
    pub anchor: Option<String>,
    pub tag: Option<ATag>,
}

#[derive(Clone, Debug, Default)]
pub struct ADoc {
    pub root: Option<ANode>,
    pub yaml_directive: bool,
    /// (handle, prefix) pairs
    pub tag_directives: Vec<(String, String)>,
    pub reserved_directive: bool,
}

#[derive(Clone, Debug, PartialEq, Eq)]
pub enum MarkKind {
    /// a quoted scalar: byte offsets of the opening and closing quote
    /// `block_key`: an implicit key limited to one line (block mapping key, or key of a single pair in a flow sequence)
    Quoted { open: usize, close: usize, single: bool, block_key: bool },
    /// a flow collection: offsets of the brackets, and the indent of the enclosing block (-1 = top)
    FlowColl { open: usize, close: usize, seq: bool, block_n: isize },
    /// first line of an entry of a block collection nested in another block collection
    EntryLine { line_start: usize, indent: usize, parent_indent: isize, first: bool },
    /// a content-bearing continuation line inside a multi-line flow collection
    FlowContLine { line_start: usize, indent: usize, block_n: isize },
    /// a scalar written on one line inside a flow collection that is nested in a block at `block_n` >= 0
    FlowScalar { start: usize, end: usize, block_n: isize },
    /// a plain, single-line implicit key (block mapping, or single pair in a flow sequence)
    PlainKey { start: usize, end: usize, flow_seq_pair: bool, in_flow: bool },
    /// a plain scalar node without properties that is not a key
    PlainValue { start: usize, end: usize },
    /// `---` line of a document (offset of the line start), `explicit_end_before`: preceded by `...` or first
    DocStart { line_start: usize, fresh: bool },
    DocEnd { line_start: usize },
    /// start of a bare document (no `---`)
    BareDoc { line_start: usize },
}

#[derive(Clone, Debug)]
pub struct Mark {
    pub kind: MarkKind,
}

pub struct Rendered {
    pub text: String,
    pub events: Vec<SEv>,
    pub marks: Vec<Mark>,
    pub constructs: BTreeMap<&'static str, u32>,
    pub n_docs: usize,
    /// the last document has no explicit end marker and its root is a collection or quoted scalar,
    /// and its last leaf is not omitted (precondition of damage operator 8)
    pub second_root_ok: bool,
}

#[derive(Clone, Copy, PartialEq, Eq, Debug)]
enum Pos {
    AfterDash(usize),
    AfterKeyColon,
    AfterQuestion(usize),
    AfterColon(usize),
    AfterDocStart,
    BareDoc,
}

pub struct Renderer<'r> {
    out: String,
    r: &'r mut Rng,
    ev: Vec<SEv>,
    anchor_ids: HashMap<String, usize>,
    next_anchor: usize,
    marks: Vec<Mark>,
    constructs: BTreeMap<&'static str, u32>,
    /// handle -> prefix for the current document
    handles: HashMap<String, String>,
    /// comments / blank lines may be inserted before the next line
    may_interleave: bool,
    pub comments: bool,
    /// model the parser's keep_tags option: declarations stay in force in later documents
    pub keep_tags: bool,
    pub trailing_tabs: bool,
    last_leaf_null: bool,
}

/// RFC 3986 percent-decoding: %HH octets are assembled and decoded as UTF-8.
pub fn percent_decode(s: &str) -> String {
    let b = s.as_bytes();
    let mut out: Vec<u8> = Vec::with_capacity(b.len());
    let mut i = 0;
    while i < b.len() {
        if b[i] == b'%' && i + 3 <= b.len() && s.is_char_boundary(i + 1) && s.is_char_boundary(i + 3) {
            if let Ok(v) = u8::from_str_radix(&s[i + 1..i + 3], 16) {
                out.push(v);
                i += 3;
                continue;
            }
        }
        out.push(b[i]);
        i += 1;
    }
    String::from_utf8_lossy(&out).into_owned()
}

fn is_collection(n: &ANode) -> bool {
    matches!(n.kind, AKind::Seq(_) | AKind::Map(_))
}

impl<'r> Renderer<'r> {
    pub fn new(r: &'r mut Rng) -> Self {
        Renderer {
            out: String::new(),
            r,
            ev: vec![],
            anchor_ids: HashMap::new(),
            next_anchor: 1,
            marks: vec![],
            constructs: BTreeMap::new(),
            handles: HashMap::new(),
            may_interleave: true,
            comments: true,
            keep_tags: false,
            trailing_tabs: false,
            last_leaf_null: false,
        }
    }

    fn note(&mut self, c: &'static str) {
        *self.constructs.entry(c).or_insert(0) += 1;
    }

    fn col(&self) -> usize {
        match self.out.rfind('\n') {
            Some(i) => self.out[i + 1..].chars().count(),
            None => self.out.chars().count(),
        }
    }

    fn spaces(&mut self, n: usize) {
        for _ in 0..n {
            self.out.push(' ');
        }
    }

    /// End the current line, optionally with a trailing comment.
    fn eol(&mut self, comment_ok: bool) {
        // trailing blanks (also tabs) at the end of a line or before a comment are not content
        // (not directly after a bare indicator: a tab there is *separation* inside block structure,
        // which the renderer avoids — see Appendix A)
        let last_line = self.out.rsplit('\n').next().unwrap_or("").trim_end_matches(' ');
        let after_indicator = matches!(last_line.chars().last(), Some('?' | '-' | ':')) && (last_line.len() == 1 || last_line[..last_line.len() - 1].ends_with(' '));
        if comment_ok && self.comments && self.trailing_tabs && !after_indicator && self.r.chance(1, 14) {
            self.out.push_str(if self.r.chance(1, 2) { "\t" } else { " \t " });
            self.note("trailing-tab");
        }
        if comment_ok && self.comments && self.r.chance(1, 10) {
            self.out.push_str(if self.r.chance(1, 2) { " # c" } else { "  #comment text" });
            self.note("trailing-comment");
        }
        self.out.push('\n');
        self.may_interleave = true;
    }

    /// Possibly insert blank lines / comment lines before the next entry line.
    fn interleave(&mut self) {
        if !self.may_interleave || !self.comments {
            return;
        }
        if self.r.chance(1, 14) {
            self.out.push('\n');
            self.note("blank-line");
        }
        if self.r.chance(1, 16) {
            let ind = self.r.below(7);
            self.spaces(ind);
            self.out.push_str("# full line comment\n");
            self.note("comment-line");
        }
        if self.r.chance(1, 40) {
            let ind = self.r.below(4);
            self.spaces(ind);
            self.out.push('\n');
            self.note("blank-line-with-spaces");
        }
    }

    // -------------------------------------------------------------------------------------------
    // properties
    // -------------------------------------------------------------------------------------------

    /// (prefix, suffix) the parser must report: the prefix bound to the handle by the directives in
    /// force, and the percent-decoded suffix.
    fn resolved_tag(&self, t: &ATag) -> (String, String) {
        match t {
            ATag::Local(n) => (self.handles.get("!").cloned().unwrap_or_else(|| "!".to_string()), percent_decode(n)),
            ATag::Secondary(n) => (self.handles.get("!!").cloned().unwrap_or_else(|| "tag:yaml.org,2002:".to_string()), percent_decode(n)),
            ATag::Verbatim(v) => (String::new(), percent_decode(v)),
            ATag::NonSpecific => (String::new(), "!".into()),
            ATag::Named(h, s) => (self.handles.get(h).cloned().unwrap_or_default(), percent_decode(s)),
        }
    }

    fn tag_text(t: &ATag) -> String {
        match t {
            ATag::Local(n) => format!("!{n}"),
            ATag::Secondary(n) => format!("!!{n}"),
            ATag::Verbatim(v) => format!("!<{v}>"),
            ATag::NonSpecific => "!".into(),
            ATag::Named(h, s) => format!("{h}{s}"),
        }
    }

    /// Text of the node's properties ("" if none) and (anchor id, resolved tag) for the event.
    fn props(&mut self, n: &ANode) -> (String, usize, Option<(String, String)>) {
        let mut parts: Vec<String> = vec![];
        let mut aid = 0;
        if let Some(a) = &n.anchor {
            aid = self.next_anchor;
            self.next_anchor += 1;
            self.anchor_ids.insert(a.clone(), aid);
            parts.push(format!("&{a}"));
            self.note("anchor");
        }
        let mut tag = None;
        if let Some(t) = &n.tag {
            tag = Some(self.resolved_tag(t));
            parts.push(Self::tag_text(t));
            self.note("tag");
        }
        if parts.len() == 2 && self.r.chance(1, 2) {
            parts.swap(0, 1);
            self.note("tag-before-anchor");
        }
        let sep = if self.r.chance(1, 5) { "  " } else { " " };
        (parts.join(sep), aid, tag)
    }

    // -------------------------------------------------------------------------------------------
    // scalars
    // -------------------------------------------------------------------------------------------

    /// Choose a flow-scalar style able to express `t`; returns (text, style).
    fn flow_scalar(&mut self, t: &str, ctx: FlowCtx, fold: bool) -> (String, ScalarStyle, FStyle) {
        let mut order = [FStyle::Plain, FStyle::Single, FStyle::Double];
        // random preference
        let k = self.r.below(6);
        match k {
            0 | 1 | 2 => {}
            3 => order.swap(0, 1),
            4 => order.swap(0, 2),
            _ => order.swap(1, 2),
        }
        for st in order {
            if let Some(s) = scalars::render_flow_scalar(t, st, ctx, self.r, fold) {
                let style = match st {
                    FStyle::Plain => ScalarStyle::Plain,
                    FStyle::Single => ScalarStyle::SingleQuoted,
                    FStyle::Double => ScalarStyle::DoubleQuoted,
                };
                self.note(match st {
                    FStyle::Plain => "plain-scalar",
                    FStyle::Single => "single-quoted",
                    FStyle::Double => "double-quoted",
                });
                if s.contains('\n') {
                    self.note("multi-line-flow-scalar");
                }
                return (s, style, st);
            }
        }
        unreachable!("double-quoted style can express any string")
    }

    /// Append a flow scalar at the cursor, recording marks. `key`: Some(flow_seq_pair) for implicit keys.
    fn put_flow_scalar(&mut self, t: &str, ctx: FlowCtx, fold: bool, has_props: bool, key: Option<bool>, block_key: bool) -> ScalarStyle {
        let (s, style, st) = self.flow_scalar(t, ctx, fold);
        let start = self.out.len();
        self.out.push_str(&s);
        let end = self.out.len();
        if ctx.in_flow && !ctx.top_level && !s.contains('\n') {
            self.marks.push(Mark { kind: MarkKind::FlowScalar { start, end, block_n: ctx.cont_min as isize - 1 } });
        }
        match st {
            FStyle::Plain => {
                if !s.contains('\n') {
                    if let Some(pair) = key {
                        if !has_props {
                            self.marks.push(Mark { kind: MarkKind::PlainKey { start, end, flow_seq_pair: pair, in_flow: ctx.in_flow } });
                        }
                    } else if !has_props {
                        self.marks.push(Mark { kind: MarkKind::PlainValue { start, end } });
                    }
                }
            }
            _ => {
                self.marks.push(Mark { kind: MarkKind::Quoted { open: start, close: end - 1, single: st == FStyle::Single, block_key } });
            }
        }
        style
    }

    // -------------------------------------------------------------------------------------------
    // flow collections
    // -------------------------------------------------------------------------------------------

    /// Separator inside a flow collection: blanks, or (multi-line) a break plus indentation.
    fn flow_sep(&mut self, multi: bool, block_n: isize, min_one: bool) {
        if multi && self.r.chance(1, 3) {
            if self.comments && self.r.chance(1, 6) {
                self.out.push_str(" # fc");
                self.note("comment-in-flow");
            }
            self.out.push('\n');
            let min = (block_n + 1).max(0) as usize;
            let ind = min + self.r.below(4);
            let line_start = self.out.len();
            self.spaces(ind);
            self.marks.push(Mark { kind: MarkKind::FlowContLine { line_start, indent: ind, block_n } });
            self.note("multi-line-flow-collection");
        } else {
            let n = if min_one { 1 + self.r.below(2) } else { self.r.below(2) };
            self.spaces(n);
        }
    }

    fn flow_ctx(&self, block_n: isize, single_line: bool) -> FlowCtx {
        FlowCtx { in_flow: true, single_line, cont_min: (block_n + 1).max(0) as usize, top_level: block_n < 0, first_col0: block_n < 0 }
    }

    /// Emit `node` in flow style at the cursor. `multi`: line breaks allowed. `as_key`: single line.
    fn flow_node(&mut self, node: &ANode, block_n: isize, multi: bool) {
        let (p, aid, tag) = match node.kind {
            AKind::Alias(_) => (String::new(), 0, None),
            _ => self.props(node),
        };
        match &node.kind {
            AKind::Alias(name) => {
                let id = *self.anchor_ids.get(name).unwrap_or(&0);
                self.out.push('*');
                self.out.push_str(name);
                self.ev.push(SEv::Alias(id));
                self.note("alias");
                self.last_leaf_null = false;
            }
            AKind::Null => {
                self.out.push_str(&p);
                self.ev.push(SEv::Scalar { v: String::new(), style: ScalarStyle::Plain, aid, tag });
                self.note("flow-empty-node");
                self.last_leaf_null = true;
            }
            AKind::Scalar(t) => {
                if !p.is_empty() {
                    self.out.push_str(&p);
                    self.out.push(' ');
                }
                let ctx = self.flow_ctx(block_n, !multi);
                let style = self.put_flow_scalar(t, ctx, multi, !p.is_empty(), None, false);
                self.ev.push(SEv::Scalar { v: t.clone(), style, aid, tag });
                self.last_leaf_null = false;
            }
            AKind::Block { .. } => unreachable!("block scalar in flow context"),
            AKind::Seq(items) => {
                if !p.is_empty() {
                    self.out.push_str(&p);
                    self.out.push(' ');
                }
                self.ev.push(SEv::SeqStart { aid, tag });
                let open = self.out.len();
                self.out.push('[');
                self.note("flow-seq");
                for (i, it) in items.iter().enumerate() {
                    self.flow_sep(multi, block_n, false);
                    self.flow_seq_entry(it, block_n, multi);
                    // separator before , is optional
                    if self.r.chance(1, 6) {
                        self.flow_sep(multi, block_n, false);
                    }
                    if i + 1 < items.len() {
                        self.out.push(',');
                    } else if self.r.chance(1, 6) {
                        self.out.push(',');
                        self.note("trailing-comma");
                    }
                }
                self.flow_sep(multi, block_n, false);
                let close = self.out.len();
                self.out.push(']');
                self.marks.push(Mark { kind: MarkKind::FlowColl { open, close, seq: true, block_n } });
                self.ev.push(SEv::SeqEnd);
                self.last_leaf_null = false;
            }
            AKind::Map(pairs) => {
                if !p.is_empty() {
                    self.out.push_str(&p);
                    self.out.push(' ');
                }
                self.ev.push(SEv::MapStart { aid, tag });
                let open = self.out.len();
                self.out.push('{');
                self.note("flow-map");
                for (i, (k, v)) in pairs.iter().enumerate() {
                    self.flow_sep(multi, block_n, false);
                    self.flow_map_entry(k, v, block_n, multi);
                    if self.r.chance(1, 6) {
                        self.flow_sep(multi, block_n, false);
                    }
                    if i + 1 < pairs.len() {
                        self.out.push(',');
                    } else if self.r.chance(1, 6) {
                        self.out.push(',');
                        self.note("trailing-comma");
                    }
                }
                self.flow_sep(multi, block_n, false);
                let close = self.out.len();
                self.out.push('}');
                self.marks.push(Mark { kind: MarkKind::FlowColl { open, close, seq: false, block_n } });
                self.ev.push(SEv::MapEnd);
                self.last_leaf_null = false;
            }
        }
    }

    /// Is the key JSON-like (quoted scalar or flow collection), so that the value may be adjacent to ':'?
    fn key_is_simple_scalar(k: &ANode) -> bool {
        matches!(k.kind, AKind::Scalar(_))
    }

    /// An implicit key in a flow context: single line. Returns whether adjacency after ':' is allowed.
    fn flow_implicit_key(&mut self, k: &ANode, block_n: isize, pair_in_seq: bool, multi: bool) -> bool {
        // the key of a flow *mapping* entry is an ordinary flow node and may span lines; the key of
        // a single pair in a flow sequence may not
        let multi = multi && !pair_in_seq && self.r.chance(1, 4);
        match &k.kind {
            AKind::Scalar(t) => {
                let (p, aid, tag) = self.props(k);
                if !p.is_empty() {
                    self.out.push_str(&p);
                    self.out.push(' ');
                }
                let ctx = self.flow_ctx(block_n, !multi);
                if multi {
                    self.note("multi-line-flow-mapping-key");
                }
                let style = self.put_flow_scalar(t, ctx, multi, !p.is_empty(), Some(pair_in_seq), pair_in_seq);
                self.ev.push(SEv::Scalar { v: t.clone(), style, aid, tag });
                style != ScalarStyle::Plain
            }
            AKind::Alias(_) => {
                self.flow_node(k, block_n, false);
                // ':' could be read as part of the alias name
                self.out.push(' ');
                false
            }
            AKind::Seq(_) | AKind::Map(_) => {
                self.flow_node(k, block_n, multi);
                true
            }
            _ => unreachable!(),
        }
    }

    fn flow_value_after_colon(&mut self, v: &ANode, block_n: isize, multi: bool, adjacent_ok: bool) {
        match v.kind {
            AKind::Null if v.anchor.is_none() && v.tag.is_none() => {
                // `k:` / `k: `
                if self.r.chance(1, 2) {
                    self.out.push(' ');
                }
                self.ev.push(SEv::Scalar { v: String::new(), style: ScalarStyle::Plain, aid: 0, tag: None });
                self.note("flow-empty-value");
                self.last_leaf_null = true;
            }
            _ => {
                if adjacent_ok && self.r.chance(1, 3) {
                    self.note("adjacent-value");
                } else {
                    self.flow_sep(multi, block_n, true);
                }
                self.flow_node(v, block_n, multi);
            }
        }
    }

    fn flow_map_entry(&mut self, k: &ANode, v: &ANode, block_n: isize, multi: bool) {
        let null_plain = |n: &ANode| matches!(n.kind, AKind::Null) && n.anchor.is_none() && n.tag.is_none();
        let explicit = self.r.chance(1, 7) || matches!(k.kind, AKind::Null) && (k.anchor.is_some() || k.tag.is_some());
        if explicit {
            // `? k : v` / `? k`
            self.out.push('?');
            self.note("flow-explicit-key");
            if null_plain(k) {
                self.out.push(' ');
                self.ev.push(SEv::Scalar { v: String::new(), style: ScalarStyle::Plain, aid: 0, tag: None });
            } else {
                // the key may start on a later line
                self.flow_sep(multi, block_n, true);
                self.flow_node(k, block_n, false);
            }
            if null_plain(v) && self.r.chance(1, 2) {
                self.ev.push(SEv::Scalar { v: String::new(), style: ScalarStyle::Plain, aid: 0, tag: None });
                self.last_leaf_null = true;
            } else {
                self.flow_sep(multi, block_n, true);
                self.out.push(':');
                self.flow_value_after_colon(v, block_n, multi, false);
            }
            return;
        }
        if null_plain(k) {
            // `: v`
            self.out.push(':');
            self.note("flow-empty-key");
            self.ev.push(SEv::Scalar { v: String::new(), style: ScalarStyle::Plain, aid: 0, tag: None });
            self.flow_value_after_colon(v, block_n, multi, false);
            return;
        }
        let adjacent_ok = self.flow_implicit_key(k, block_n, false, multi);
        if null_plain(v) && self.r.chance(1, 3) {
            // `{k}`
            self.ev.push(SEv::Scalar { v: String::new(), style: ScalarStyle::Plain, aid: 0, tag: None });
            self.note("flow-key-only");
            self.last_leaf_null = true;
            return;
        }
        if adjacent_ok && multi && self.r.chance(1, 6) {
            // after a JSON-like key (quoted scalar, flow collection) the ':' may stand on a later line,
            // with the value still adjacent to it
            self.flow_sep(true, block_n, false);
            self.note("separation-before-colon-after-json-like-key");
        } else if self.r.chance(1, 8) {
            self.out.push(' ');
        }
        self.out.push(':');
        self.flow_value_after_colon(v, block_n, multi, adjacent_ok);
    }

    fn flow_seq_entry(&mut self, it: &ANode, block_n: isize, multi: bool) {
        // a mapping with exactly one pair and no properties may be written as a single pair
        if let AKind::Map(pairs) = &it.kind {
            if pairs.len() == 1 && it.anchor.is_none() && it.tag.is_none() && self.r.chance(2, 3) {
                let (k, v) = &pairs[0];
                let null_plain = |n: &ANode| matches!(n.kind, AKind::Null) && n.anchor.is_none() && n.tag.is_none();
                let key_ok = short_enough_for_limited_implicit_key(k) && (match &k.kind {
                    AKind::Scalar(_) | AKind::Alias(_) | AKind::Seq(_) | AKind::Map(_) => true,
                    AKind::Null => null_plain(k),
                    AKind::Block { .. } => false,
                });
                if key_ok {
                    self.note("flow-single-pair");
                    self.ev.push(SEv::MapStart { aid: 0, tag: None });
                    if null_plain(k) {
                        if self.r.chance(1, 2) {
                            self.out.push(':');
                            self.note("flow-seq-empty-key");
                            self.ev.push(SEv::Scalar { v: String::new(), style: ScalarStyle::Plain, aid: 0, tag: None });
                            self.flow_value_after_colon(v, block_n, multi, false);
                        } else {
                            self.out.push_str("? ");
                            self.ev.push(SEv::Scalar { v: String::new(), style: ScalarStyle::Plain, aid: 0, tag: None });
                            self.out.push(':');
                            self.flow_value_after_colon(v, block_n, multi, false);
                        }
                    } else if self.r.chance(1, 4) {
                        self.out.push('?');
                        self.flow_sep(multi, block_n, true);
                        self.note("flow-explicit-key");
                        self.flow_node(k, block_n, false);
                        self.out.push(' ');
                        self.out.push(':');
                        self.flow_value_after_colon(v, block_n, multi, false);
                    } else {
                        let adjacent_ok = self.flow_implicit_key(k, block_n, true, false);
                        if self.r.chance(1, 8) {
                            self.out.push(' ');
                        }
                        self.out.push(':');
                        self.flow_value_after_colon(v, block_n, multi, adjacent_ok);
                    }
                    self.ev.push(SEv::MapEnd);
                    return;
                }
            }
        }
        self.flow_node(it, block_n, multi);
    }

    // -------------------------------------------------------------------------------------------
    // block nodes
    // -------------------------------------------------------------------------------------------

    fn sep_after_indicator(&mut self, pos: Pos) {
        match pos {
            Pos::BareDoc => {}
            _ => {
                let n = if self.r.chance(1, 5) { 1 + self.r.below(3) } else { 1 };
                self.spaces(n);
            }
        }
    }

    /// Can this node be written as a block collection here?
    fn block_node(&mut self, node: &ANode, n: isize, pos: Pos) {
        let force_block = is_collection(node) && fn_contains_block(node);
        match &node.kind {
            AKind::Seq(items) if !items.is_empty() && (force_block || self.r.chance(3, 4)) => self.block_collection(node, n, pos),
            AKind::Map(pairs) if !pairs.is_empty() && (force_block || self.r.chance(3, 4)) => self.block_collection(node, n, pos),
            AKind::Block { lines, folded, chomp } => self.block_scalar(node, lines, *folded, *chomp, n, pos),
            _ => self.flow_in_block(node, n, pos),
        }
    }

    /// scalar / alias / flow collection / empty node in a block context
    fn flow_in_block(&mut self, node: &ANode, n: isize, pos: Pos) {
        let null_plain = matches!(node.kind, AKind::Null) && node.anchor.is_none() && node.tag.is_none();
        if null_plain {
            self.ev.push(SEv::Scalar { v: String::new(), style: ScalarStyle::Plain, aid: 0, tag: None });
            self.note("block-empty-node");
            self.last_leaf_null = true;
            if pos != Pos::BareDoc {
                self.eol(true);
            }
            return;
        }
        // placement: same line or next line
        let next_line = pos != Pos::BareDoc && self.r.chance(1, 6);
        let cont_n = n; // continuation / flow lines must be indented deeper than n
        if next_line {
            self.eol(true);
            self.interleave();
            let ind = (n + 1).max(0) as usize + self.r.below(3);
            self.spaces(ind);
            self.note("node-on-next-line");
        } else {
            self.sep_after_indicator(pos);
        }
        let multi = self.r.chance(1, 3);
        match &node.kind {
            AKind::Scalar(t) => {
                let (p, aid, tag) = self.props(node);
                if !p.is_empty() {
                    self.out.push_str(&p);
                    // properties may be separated from the content by a line break
                    if self.r.chance(1, 10) && !next_line {
                        self.eol(true);
                        let ind = (n + 1).max(0) as usize + self.r.below(3);
                        self.spaces(ind);
                        self.note("props-then-break");
                    } else {
                        self.out.push(' ');
                    }
                }
                let ctx = FlowCtx { in_flow: false, single_line: !multi, cont_min: (cont_n + 1).max(0) as usize, top_level: n < 0, first_col0: n < 0 };
                let style = self.put_flow_scalar(t, ctx, multi, !p.is_empty(), None, false);
                self.ev.push(SEv::Scalar { v: t.clone(), style, aid, tag });
                self.last_leaf_null = false;
                // a trailing comment directly after a multi-line plain scalar is fine too
                self.eol(true);
            }
            _ => {
                self.flow_node(node, cont_n, multi);
                self.eol(true);
            }
        }
    }

    fn block_scalar(&mut self, node: &ANode, lines: &[String], folded: bool, chomp: u8, n: isize, pos: Pos) {
        let chomp = match chomp % 3 {
            0 => Chomp::Strip,
            1 => Chomp::Clip,
            _ => Chomp::Keep,
        };
        let (p, aid, tag) = self.props(node);
        self.sep_after_indicator(pos);
        if !p.is_empty() {
            self.out.push_str(&p);
            self.out.push(' ');
        }
        // content indentation
        let base = (n + 1).max(0) as usize;
        let mut content_indent = base + if self.r.chance(1, 12) { 13 + self.r.below(8) } else { self.r.below(4) };
        if n < 0 && lines.iter().any(|l| l.starts_with("---") || l.starts_with("...") || l.starts_with('%')) && content_indent == 0 {
            content_indent = 1;
        }
        let want_explicit = self.r.chance(1, 4);
        let hc = self.comments && self.r.chance(1, 8);
        let br = scalars::render_block_scalar(lines, folded, chomp, n, content_indent, want_explicit, hc, self.r)
            .or_else(|| {
                // fall back to the smallest legal explicit/auto variant
                let ci = (n + 1).max(0) as usize + 1;
                scalars::render_block_scalar(lines, folded, chomp, n, ci.max(1), false, false, self.r)
                    .or_else(|| scalars::render_block_scalar(lines, folded, chomp, n, ci.max(1), true, false, self.r))
            });
        let Some(br) = br else {
            // cannot be expressed as a block scalar here (e.g. leading space at top level): use a
            // double-quoted scalar with the same value instead
            let v = scalars::block_value(lines, folded, chomp);
            let ctx = FlowCtx { in_flow: false, single_line: true, cont_min: (n + 1).max(0) as usize, top_level: n < 0, first_col0: n < 0 };
            let s = scalars::render_flow_scalar(&v, FStyle::Double, ctx, self.r, false).unwrap();
            self.out.push_str(&s);
            self.ev.push(SEv::Scalar { v, style: ScalarStyle::DoubleQuoted, aid, tag });
            self.eol(true);
            self.last_leaf_null = false;
            return;
        };
        self.note(if folded { "folded-block-scalar" } else { "literal-block-scalar" });
        if br.explicit_indicator {
            self.note("block-indent-indicator");
        }
        self.out.push_str(&br.header);
        self.out.push('\n');
        for l in &br.body_lines {
            self.out.push_str(l);
            self.out.push('\n');
        }
        self.ev.push(SEv::Scalar {
            v: br.expected,
            style: if folded { ScalarStyle::Folded } else { ScalarStyle::Literal },
            aid,
            tag,
        });
        self.may_interleave = false;
        self.last_leaf_null = false;
    }

    fn block_collection(&mut self, node: &ANode, n: isize, pos: Pos) {
        let (p, aid, tag) = self.props(node);
        let has_props = !p.is_empty();
        let is_seq = matches!(node.kind, AKind::Seq(_));
        // compact form: only after '-', '?', ':' (explicit), without properties
        let compact_ok = matches!(pos, Pos::AfterDash(_) | Pos::AfterQuestion(_) | Pos::AfterColon(_)) && !has_props;
        let compact = compact_ok && self.r.chance(1, 2);
        let m: usize;
        if compact {
            let k = 1 + if self.r.chance(1, 4) { self.r.below(3) } else { 0 };
            self.spaces(k);
            m = self.col();
            self.note(if is_seq { "compact-nested-seq" } else { "compact-nested-map" });
        } else {
            match pos {
                Pos::BareDoc => {
                    if has_props {
                        self.out.push_str(&p);
                        self.eol(true);
                        self.interleave();
                    }
                }
                _ => {
                    if has_props {
                        self.sep_after_indicator(pos);
                        self.out.push_str(&p);
                    }
                    self.eol(true);
                    self.interleave();
                }
            }
            // indentation of the collection
            let min = (n + 1).max(0) as usize;
            let mut mm = min + if self.r.chance(1, 10) { self.r.below(6) } else { self.r.below(3) };
            if is_seq && pos == Pos::AfterKeyColon && n >= 0 && self.r.chance(1, 3) {
                mm = n as usize; // sequence at the indentation of its parent key
                self.note("indentless-seq");
            }
            if self.r.chance(1, 60) {
                mm += 14; // deeper than the look-ahead buffer
            }
            m = mm;
        }
        match &node.kind {
            AKind::Seq(items) => {
                self.ev.push(SEv::SeqStart { aid, tag });
                self.note("block-seq");
                for (i, it) in items.iter().enumerate() {
                    if !(compact && i == 0) {
                        self.interleave();
                        let line_start = self.out.len();
                        self.spaces(m);
                        if n >= 0 && m > 0 {
                            self.marks.push(Mark { kind: MarkKind::EntryLine { line_start, indent: m, parent_indent: n, first: i == 0 } });
                        }
                    }
                    self.out.push('-');
                    self.block_node(it, m as isize, Pos::AfterDash(m));
                }
                self.ev.push(SEv::SeqEnd);
            }
            AKind::Map(pairs) => {
                self.ev.push(SEv::MapStart { aid, tag });
                self.note("block-map");
                for (i, (k, v)) in pairs.iter().enumerate() {
                    if !(compact && i == 0) {
                        self.interleave();
                        let line_start = self.out.len();
                        self.spaces(m);
                        if n >= 0 && m > 0 {
                            self.marks.push(Mark { kind: MarkKind::EntryLine { line_start, indent: m, parent_indent: n, first: i == 0 } });
                        }
                    }
                    let next_key_empty = pairs.get(i + 1).is_some_and(|(nk, _)| matches!(nk.kind, AKind::Null) && nk.anchor.is_none() && nk.tag.is_none());
                    self.block_map_entry(k, v, m, next_key_empty);
                }
                self.ev.push(SEv::MapEnd);
            }
            _ => unreachable!(),
        }
    }

    fn block_map_entry(&mut self, k: &ANode, v: &ANode, m: usize, next_key_empty: bool) {
        let null_plain = |n: &ANode| matches!(n.kind, AKind::Null) && n.anchor.is_none() && n.tag.is_none();
        // can the key be implicit?
        let implicit_ok = match &k.kind {
            AKind::Scalar(t) => !t.contains('\n') && t.chars().count() <= 60,
            AKind::Alias(_) => true,
            AKind::Seq(items) => items.len() <= 3,
            AKind::Map(pairs) => pairs.len() <= 2,
            AKind::Null => null_plain(k),
            AKind::Block { .. } => false,
        };
        let key_has_block_inside = fn_contains_block(k);
        let implicit = implicit_ok && !key_has_block_inside && short_enough_for_limited_implicit_key(k) && !self.r.chance(1, 7);
        if implicit {
            if null_plain(k) {
                // `: v`
                self.out.push(':');
                self.note("block-empty-key");
                self.ev.push(SEv::Scalar { v: String::new(), style: ScalarStyle::Plain, aid: 0, tag: None });
                self.block_node(v, m as isize, Pos::AfterColon(m));
                return;
            }
            self.note("block-implicit-key");
            match &k.kind {
                AKind::Scalar(t) => {
                    let (p, aid, tag) = self.props(k);
                    if !p.is_empty() {
                        self.out.push_str(&p);
                        self.out.push(' ');
                    }
                    let ctx = FlowCtx { in_flow: false, single_line: true, cont_min: m + 1, top_level: false, first_col0: m == 0 };
                    let style = self.put_flow_scalar(t, ctx, false, !p.is_empty(), Some(false), true);
                    self.ev.push(SEv::Scalar { v: t.clone(), style, aid, tag });
                    if self.r.chance(1, 8) {
                        {
                            let k = 1 + self.r.below(2);
                            self.spaces(k);
                        }
                    }
                }
                AKind::Alias(_) => {
                    self.flow_node(k, m as isize, false);
                    self.out.push(' ');
                }
                _ => {
                    self.flow_node(k, m as isize, false);
                    if self.r.chance(1, 8) {
                        self.out.push(' ');
                    }
                }
            }
            self.out.push(':');
            self.value_after_key(v, m);
        } else {
            self.note("block-explicit-key");
            self.out.push('?');
            self.block_node(k, m as isize, Pos::AfterQuestion(m));
            // (a following `: v` entry with an empty key would be read as this key's value)
            if null_plain(v) && !next_key_empty && self.r.chance(1, 2) {
                self.ev.push(SEv::Scalar { v: String::new(), style: ScalarStyle::Plain, aid: 0, tag: None });
                self.note("explicit-key-without-value");
                self.last_leaf_null = true;
            } else {
                self.interleave();
                self.spaces(m);
                self.out.push(':');
                self.block_node(v, m as isize, Pos::AfterColon(m));
            }
        }
    }

    fn value_after_key(&mut self, v: &ANode, m: usize) {
        self.block_node(v, m as isize, Pos::AfterKeyColon);
    }

    // -------------------------------------------------------------------------------------------
    // documents
    // -------------------------------------------------------------------------------------------

    pub fn render_stream(mut self, docs: &[ADoc], allow_drop_final_newline: bool) -> Rendered {
        self.ev.push(SEv::StreamStart);
        let mut prev_explicit_end = true; // start of stream counts as "fresh"
        let mut second_root_ok = false;
        let ndocs = docs.len();
        if self.comments && self.r.chance(1, 10) {
            self.out.push_str("# leading comment\n");
        }
        for (di, d) in docs.iter().enumerate() {
            if !self.keep_tags {
                self.handles.clear();
            }
            let has_dirs = d.yaml_directive || !d.tag_directives.is_empty() || d.reserved_directive;
            let Some(root) = &d.root else { continue };
            let root_null_plain = matches!(root.kind, AKind::Null) && root.anchor.is_none() && root.tag.is_none();
            let needs_marker = has_dirs || !prev_explicit_end || root_null_plain || matches!(root.kind, AKind::Alias(_));
            let explicit = needs_marker || self.r.chance(1, 2);
            if has_dirs {
                // directives need a fresh start (first document or after `...`)
                let mut lines: Vec<String> = vec![];
                if d.yaml_directive {
                    lines.push("%YAML 1.2".to_string());
                }
                for (h, p) in &d.tag_directives {
                    lines.push(format!("%TAG {h} {p}"));
                    self.handles.insert(h.clone(), percent_decode(p));
                }
                if d.reserved_directive {
                    // a reserved directive: any name of non-space characters, any parameters
                    lines.push(self.r.pick(&["%FOO bar baz", "%FOO", "%FOO.BAR x", "%foo:bar baz", "%été x y", "%X-1_2 a", "%YAMLX 1.2", "%TAGS ! x"]).to_string());
                }
                // random order of YAML vs TAG lines
                if lines.len() > 1 && self.r.chance(1, 2) {
                    let k = self.r.below(lines.len());
                    lines.rotate_left(k);
                }
                for l in lines {
                    self.out.push_str(&l);
                    self.eol(true);
                }
                self.note("directives");
            }
            self.ev.push(SEv::DocStart(explicit));
            self.last_leaf_null = false;
            if explicit {
                let line_start = self.out.len();
                self.marks.push(Mark { kind: MarkKind::DocStart { line_start, fresh: prev_explicit_end } });
                self.out.push_str("---");
                self.note("explicit-doc-start");
                self.block_node(root, -1, Pos::AfterDocStart);
            } else {
                let line_start = self.out.len();
                self.marks.push(Mark { kind: MarkKind::BareDoc { line_start } });
                self.note("bare-document");
                // a bare root collection may be indented
                self.block_node(root, -1, Pos::BareDoc);
                if !self.out.ends_with('\n') {
                    self.eol(true);
                }
            }
            self.ev.push(SEv::DocEnd);
            // document end marker
            let next_has_dirs = docs.get(di + 1).is_some_and(|n| n.root.is_some() && (n.yaml_directive || !n.tag_directives.is_empty() || n.reserved_directive));
            let end_marker = next_has_dirs || self.r.chance(1, 4);
            if end_marker {
                let line_start = self.out.len();
                self.marks.push(Mark { kind: MarkKind::DocEnd { line_start } });
                self.out.push_str("...");
                self.may_interleave = true;
                self.eol(true);
                self.note("explicit-doc-end");
                prev_explicit_end = true;
            } else {
                prev_explicit_end = false;
                if di + 1 == ndocs {
                    let quoted_or_coll = match &root.kind {
                        AKind::Seq(_) | AKind::Map(_) => true,
                        _ => false,
                    };
                    second_root_ok = quoted_or_coll && !self.last_leaf_null && self.may_interleave;
                }
            }
            if self.comments && self.may_interleave && self.r.chance(1, 12) {
                self.out.push_str("# between documents\n");
            }
        }
        self.ev.push(SEv::StreamEnd);
        let mut text = self.out;
        if allow_drop_final_newline && self.may_interleave && text.ends_with('\n') && !text.ends_with("\n\n") && self.r.chance(1, 8) {
            text.pop();
            second_root_ok = false;
        }
        let n_docs = self.ev.iter().filter(|e| matches!(e, SEv::DocStart(_))).count();
        Rendered { text, events: self.ev, marks: self.marks, constructs: self.constructs, n_docs, second_root_ok }
    }
}

/// True when the node cannot be written in flow style: it contains a block scalar, or a flow
/// sequence would need an entry that is a completely omitted node (`[a, , b]` is not YAML).
/// Number of characters of scalar text inside a node (before any escaping).
fn raw_len(n: &ANode) -> usize {
    match &n.kind {
        AKind::Scalar(t) => t.chars().count() + 2,
        AKind::Block { lines, .. } => lines.iter().map(|l| l.len() + 1).sum(),
        AKind::Seq(items) => 2 + items.iter().map(|i| raw_len(i) + 2).sum::<usize>(),
        AKind::Map(pairs) => 2 + pairs.iter().map(|(k, v)| raw_len(k) + raw_len(v) + 4).sum::<usize>(),
        AKind::Alias(a) => a.len() + 1,
        AKind::Null => 0,
    }
}

/// Implicit keys of block mappings and of single pairs in flow sequences are limited to 1024
/// characters *as written*; escapes can expand a character tenfold, so only keys with little raw
/// text are written in those forms (flow mapping keys have no such limit).
fn short_enough_for_limited_implicit_key(n: &ANode) -> bool {
    raw_len(n) <= 90
}

fn fn_contains_block(n: &ANode) -> bool {
    match &n.kind {
        AKind::Block { .. } => true,
        AKind::Seq(items) => items.iter().any(|i| fn_contains_block(i) || (matches!(i.kind, AKind::Null) && i.anchor.is_none() && i.tag.is_none())),
        AKind::Map(pairs) => pairs.iter().any(|(k, v)| fn_contains_block(k) || fn_contains_block(v)),
        _ => false,
    }
}

// ------------------------------------------------------------------------------------------------
// random abstract streams
// ------------------------------------------------------------------------------------------------

pub const WORDS: &[&str] = &[
    "a", "b", "c", "key", "value", "x y", "foo bar baz", "1", "-1", "1.5", "true", "null", "~", "é", "中文", "a:b", "a#b", "-x",
    "x-", "?q", ":z", "a,b", "it's", "say \"hi\"", "back\\slash", "tab\there", " lead", "trail ", "", "multi\nline", "two\n\nbreaks",
    "end\n", "[x]", "{y}", "# not comment", "a: b", "- dash", "!bang", "&amp", "*star", "|pipe", ">gt", "%pct", "@at", "`tick",
    "long text with several words in it", "0x1F", ".inf", "😀 emoji", "q'q\"q", "a  b", "e\u{85}nel", "http://x.y/z?a=b#c",
    "---", "...", "--- x", "k:", ":", "-", "?", "a ,b", "x\ty", "\n", "l1\nl2\nl3", "sp \nnl",
    "3.14159265358979323846264338327950288419716939937510582097494459230781640628", "000000000000000000000000000000000000000000000000000000000000000042", "10000000000000000000000000000000000000000000000000000000000000000000000", "+000000000000000000000000000000000000000000000000000000000000000042", "0x000000000000000000000000000000000000000000000000000000000000001F", "0o000000000000000000000000000000000000000000000000000000000000000000000017", "99999999999999999999999999999999999999999999999999999999999999999999999999999999.5e-3",
];

pub const BLOCK_LINES: &[&str] = &[
    "text", "more text", "", "", " indented", "   deeper", "- item", "key: value", "# not a comment", "\ttab led", "a  b", "é中",
    "---", "...", "trailing  ", "x", "[flow]", "'q'", "%dir",
];

pub struct GenCfg {
    pub max_depth: usize,
    pub max_nodes: usize,
    pub anchors: bool,
    pub tags: bool,
    pub blocks: bool,
}

pub struct TreeGen<'a> {
    pub r: &'a mut Rng,
    pub cfg: GenCfg,
    nodes: usize,
    closed_anchors: Vec<String>,
    /// anchors of collections still being generated: an alias to one of them is a reference to a
    /// node that is still open
    open_anchors: Vec<String>,
    handles: Vec<String>,
}

impl<'a> TreeGen<'a> {
    pub fn new(r: &'a mut Rng, cfg: GenCfg) -> Self {
        TreeGen { r, cfg, nodes: 0, closed_anchors: vec![], open_anchors: vec![], handles: vec![] }
    }

    fn scalar_text(&mut self) -> String {
        if self.r.chance(1, 150) {
            // longer than the 1024-character limit of implicit keys: legal as a value, as an explicit
            // key and as an implicit key of a flow mapping
            let n = self.r.range(1030, 1300);
            let c = self.r.pick(&['k', 'x', 'é']);
            return std::iter::repeat(c).take(n).collect();
        }
        if self.r.chance(1, 12) {
            // synthesized word
            let n = self.r.range(1, 24);
            let mut s = String::new();
            for _ in 0..n {
                s.push(self.r.pick(&['a', 'b', 'z', 'é', '0', '9', '_', '-', '.', ' ', 'x', 'Q']));
            }
            return s;
        }
        self.r.pick(WORDS).to_string()
    }

    fn block_lines(&mut self) -> Vec<String> {
        let n = self.r.below(6);
        (0..n).map(|_| self.r.pick(BLOCK_LINES).to_string()).collect()
    }

    fn props(&mut self, node: &mut ANode) {
        if self.cfg.anchors && self.r.chance(1, 7) {
            node.anchor = Some(self.r.pick(&["a", "b", "anc", "x1", "a-b", "é"]).to_string());
        }
        if self.cfg.tags && self.r.chance(1, 9) {
            node.tag = Some(match self.r.below(6) {
                0 => ATag::Local(self.r.pick(&["t", "local", "a-b", "x.y"]).to_string()),
                1 => ATag::Secondary(self.r.pick(&["str", "custom", "map", "seq", "x"]).to_string()),
                2 => ATag::Verbatim(self.r.pick(&["tag:example.com,2000:app/x", "!local", "tag:yaml.org,2002:str"]).to_string()),
                3 => ATag::NonSpecific,
                4 if !self.handles.is_empty() => {
                    let h = self.r.pick(&self.handles.iter().map(String::as_str).collect::<Vec<_>>()).to_string();
                    ATag::Named(h, self.r.pick(&["t", "foo", "x-y"]).to_string())
                }
                _ => ATag::Local("u".into()),
            });
        }
    }

    /// `flow_only`: inside a flow collection (no block scalars); `as_key`: keep it small.
    pub fn node(&mut self, depth: usize, flow_only: bool) -> ANode {
        self.nodes += 1;
        let leaf = depth >= self.cfg.max_depth || self.nodes >= self.cfg.max_nodes;
        let k = self.r.below(100);
        let mut n = if !leaf && k < 22 {
            let cnt = self.r.below(4);
            let mut items = vec![];
            let placeholder = ANode { kind: AKind::Null, anchor: None, tag: None };
            let mut me = placeholder;
            self.props(&mut me);
            if let Some(a) = &me.anchor {
                self.open_anchors.push(a.clone());
            }
            if self.r.chance(1, 20) {
                // a sequence of one-pair mappings (in flow style: `[a: b, ? c : d, e: f]`)
                for _ in 0..self.r.range(2, 5) {
                    let key = if self.r.chance(1, 10) {
                        ANode { kind: AKind::Null, anchor: None, tag: None }
                    } else {
                        ANode { kind: AKind::Scalar(self.scalar_text()), anchor: None, tag: None }
                    };
                    let val = if self.r.chance(1, 4) {
                        ANode { kind: AKind::Null, anchor: None, tag: None }
                    } else {
                        ANode { kind: AKind::Scalar(self.scalar_text()), anchor: None, tag: None }
                    };
                    self.nodes += 3;
                    items.push(ANode { kind: AKind::Map(vec![(key, val)]), anchor: None, tag: None });
                }
            }
            for _ in 0..cnt {
                items.push(self.node(depth + 1, flow_only));
            }
            if me.anchor.is_some() {
                self.open_anchors.pop();
            }
            me.kind = AKind::Seq(items);
            me
        } else if !leaf && k < 46 {
            let cnt = self.r.below(4);
            let mut pairs = vec![];
            let mut me = ANode { kind: AKind::Null, anchor: None, tag: None };
            self.props(&mut me);
            if let Some(a) = &me.anchor {
                self.open_anchors.push(a.clone());
            }
            for _ in 0..cnt {
                // keys: mostly scalars
                let key = if self.r.chance(1, 8) {
                    self.node(depth + 2, flow_only)
                } else if self.r.chance(1, 14) {
                    ANode { kind: AKind::Null, anchor: None, tag: None }
                } else {
                    let mut kn = ANode { kind: AKind::Scalar(self.scalar_text()), anchor: None, tag: None };
                    if self.r.chance(1, 6) {
                        self.props(&mut kn);
                    }
                    self.nodes += 1;
                    if let Some(a) = &kn.anchor {
                        self.closed_anchors.push(a.clone());
                    }
                    kn
                };
                let val = self.node(depth + 1, flow_only);
                pairs.push((key, val));
            }
            if me.anchor.is_some() {
                self.open_anchors.pop();
            }
            me.kind = AKind::Map(pairs);
            me
        } else if k < 52 && !self.open_anchors.is_empty() && self.r.chance(1, 3) {
            let name = self.open_anchors[self.r.below(self.open_anchors.len())].clone();
            return ANode { kind: AKind::Alias(name), anchor: None, tag: None };
        } else if k < 52 && !self.closed_anchors.is_empty() {
            let name = self.closed_anchors[self.r.below(self.closed_anchors.len())].clone();
            return ANode { kind: AKind::Alias(name), anchor: None, tag: None };
        } else if k < 60 {
            let mut me = ANode { kind: AKind::Null, anchor: None, tag: None };
            if self.r.chance(1, 4) {
                self.props(&mut me);
            }
            me
        } else if k < 68 && self.cfg.blocks && !flow_only {
            let mut me = ANode { kind: AKind::Block { lines: self.block_lines(), folded: self.r.chance(1, 2), chomp: self.r.below(3) as u8 }, anchor: None, tag: None };
            if self.r.chance(1, 5) {
                self.props(&mut me);
            }
            me
        } else {
            let mut me = ANode { kind: AKind::Scalar(self.scalar_text()), anchor: None, tag: None };
            self.props(&mut me);
            me
        };
        // a Null key with properties is avoided by the map generator; collections register anchors when closed
        if let Some(a) = &n.anchor {
            self.closed_anchors.push(a.clone());
        }
        if matches!(n.kind, AKind::Null) && depth == 0 && n.anchor.is_none() && n.tag.is_none() && self.r.chance(1, 2) {
            n.kind = AKind::Scalar(self.scalar_text());
        }
        n
    }

    pub fn doc(&mut self) -> ADoc {
        self.nodes = 0;
        self.closed_anchors.clear();
        self.open_anchors.clear();
        self.handles.clear();
        let mut d = ADoc::default();
        if self.r.chance(1, 8) {
            d.yaml_directive = true;
        }
        if self.cfg.tags && self.r.chance(1, 8) {
            let h = self.r.pick(&["!e!", "!a-b!", "!x1!"]).to_string();
            let p = self.r.pick(&["tag:example.com,2000:", "!local-", "tag:x.y,2024:app/"]).to_string();
            self.handles.push(h.clone());
            d.tag_directives.push((h, p));
        }
        if self.cfg.tags && self.r.chance(1, 10) {
            // the primary or secondary handle redefined for this document only: `!t` / `!!t` of this
            // document resolve through it, those of the next document through the defaults again
            let h = self.r.pick(&["!", "!!"]).to_string();
            let p = self.r.pick(&["tag:example.com,2000:app/", "!my-", "tag:yaml.org,2002:", "tag:x.y,2024:"]).to_string();
            d.tag_directives.push((h, p));
        }
        if self.r.chance(1, 30) {
            d.reserved_directive = true;
        }
        d.root = Some(self.node(0, false));
        d
    }

    pub fn stream(&mut self) -> Vec<ADoc> {
        let n = match self.r.below(10) {
            0 => 0,
            1..=6 => 1,
            7 | 8 => 2,
            _ => 3,
        };
        (0..n).map(|_| self.doc()).collect()
    }
}

/// Does a node (recursively) contain block-only constructs? Used to force flow-free placement.
pub fn has_block_scalar(n: &ANode) -> bool {
    fn_contains_block(n)
}
