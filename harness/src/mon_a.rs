//! Monitors for C01 (termination / no panic / linear work), C02 (event grammar), C10 (back-ends agree).

use crate::events::*;
use crate::family::nontrivial;
use crate::inputs::WORK_BOUND_MSG;
use crate::util::{catch, panic_site, visible, Rng, Stats, Violation, J};
use saphyr::{LoadableYamlNode, MarkedYaml, MarkedYamlOwned, Yaml, YamlOwned};
use saphyr_parser::verif::{self, VerifEvent};
use saphyr_parser::{BufferedInput, Parser, StrInput};
use std::cell::RefCell;
use std::rc::Rc;

pub fn ops_bound(n_chars: usize) -> u64 {
    64 * (n_chars as u64 + 1)
}
pub fn ev_bound(n_chars: usize) -> usize {
    8 * (n_chars + 1)
}

pub fn case_json(input: &str, extra: Vec<(&str, J)>) -> J {
    let mut kv = vec![("input", J::s(input))];
    kv.extend(extra);
    J::obj(kv)
}

#[derive(Default)]
struct H2State {
    last: Option<(usize, usize)>,
    fetches: u64,
    err: Option<String>,
}

fn viol(stats: &mut Stats, sig: String, msg: String, case: J) {
    stats.violation(Violation { sig, msg, case });
}

// ------------------------------------------------------------------------------------------------
// C01
// ------------------------------------------------------------------------------------------------

/// Classify a caught panic message into a C01 violation signature.
fn c01_panic(stats: &mut Stats, input: &str, config: &str, pmsg: &str) {
    if pmsg.contains(WORK_BOUND_MSG) {
        viol(
            stats,
            format!("C01/work-bound/input-ops/{config}"),
            format!("more than 64*(n+1) input operations for an input of {} chars via {config}", input.chars().count()),
            case_json(input, vec![("config", J::s(config))]),
        );
    } else {
        viol(
            stats,
            format!("C01/panic/{}/{config}", panic_site(pmsg)),
            format!("panic via {config}: {pmsg}"),
            case_json(input, vec![("config", J::s(config))]),
        );
    }
}

pub fn check_c01(input: &str, stats: &mut Stats, rng: &mut Rng) {
    let n = input.chars().count();
    let bound = ops_bound(n);
    let cap = ev_bound(n);
    let mut first: Option<Parsed> = None;

    // (1) every back-end by plain iteration, under the work counter and the H2 progress monitor
    for b in ALL_BACKENDS {
        let h2: Rc<RefCell<H2State>> = Rc::new(RefCell::new(H2State::default()));
        let h2c = h2.clone();
        verif::set_sink(Box::new(move |ev| {
            if let VerifEvent::ScanFetch { index, tokens } = ev {
                let mut g = h2c.borrow_mut();
                if let Some((pi, pt)) = g.last {
                    if !(index > pi || tokens > pt) && g.err.is_none() {
                        g.err = Some(format!("fetch_next_token made no progress: index {pi}->{index}, tokens {pt}->{tokens}"));
                    }
                }
                g.last = Some((index, tokens));
                g.fetches += 1;
            }
        }));
        let r = catch(|| run_backend(input, b, bound, cap));
        verif::clear_sink();
        match r {
            Err(p) => {
                c01_panic(stats, input, b.name(), &p);
                if p.contains(WORK_BOUND_MSG) {
                    stats.eval(Some(input.as_bytes()));
                    return;
                }
            }
            Ok(run) => {
                stats.cnt("parses", 1);
                if n > 0 {
                    stats.max("max_ops_per_char_x100", run.ops * 100 / (n as u64 + 1));
                    stats.max("max_events_per_char_x100", (run.parsed.events.len() as u64) * 100 / (n as u64 + 1));
                }
                if run.parsed.capped {
                    viol(
                        stats,
                        format!("C01/work-bound/events/{}", b.name()),
                        format!("more than 8*(n+1) events without StreamEnd or error via {}", b.name()),
                        case_json(input, vec![("config", J::s(b.name()))]),
                    );
                    // the remaining configurations have no cap of their own: do not run them
                    verif::clear_sink();
                    stats.eval(Some(input.as_bytes()));
                    return;
                }
                for br in &run.breaches {
                    let kind = br.split(|c: char| c == '(' || c == ' ').next().unwrap_or("?").to_string();
                    viol(
                        stats,
                        format!("C01/contract/{kind}/{}", b.name()),
                        format!("input contract breach seen by {}: {br}", b.name()),
                        case_json(input, vec![("config", J::s(b.name()))]),
                    );
                }
                let g = h2.borrow();
                if let Some(m) = &g.err {
                    viol(
                        stats,
                        format!("C01/h2-no-progress/{}", b.name()),
                        m.clone(),
                        case_json(input, vec![("config", J::s(b.name()))]),
                    );
                }
                stats.cnt("h2_events", g.fetches);
                if let Some((_, toks)) = g.last {
                    // every fetch consumes >= 1 char or queues >= 1 token
                    if g.fetches > n as u64 + toks as u64 + 2 {
                        viol(
                            stats,
                            format!("C01/h2-fetch-count/{}", b.name()),
                            format!("{} fetches for {n} chars and {toks} tokens", g.fetches),
                            case_json(input, vec![("config", J::s(b.name()))]),
                        );
                    }
                }
                if let Some(e) = &run.parsed.error {
                    stats.set("error_messages", &e.info);
                }
                if first.is_none() {
                    first = Some(run.parsed);
                }
            }
        }
    }

    // (2) push interface, multi = true and repeated multi = false, both real back-ends
    for which in 0..2 {
        let name = if which == 0 { "load-multi/StrInput" } else { "load-multi/BufferedInput" };
        let r = catch(|| {
            if which == 0 {
                push_all_capped(&mut Parser::new(StrInput::new(input)), cap + 2)
            } else {
                push_all_capped(&mut Parser::new(BufferedInput::new(input.chars())), cap + 2)
            }
        });
        match r {
            Err(p) => c01_panic(stats, input, name, &p),
            Ok(p) => {
                stats.cnt("parses", 1);
                if p.events.len() > cap + 2 {
                    viol(stats, format!("C01/work-bound/events/{name}"), "push interface delivered more than 8*(n+1) events".into(), case_json(input, vec![("config", J::s(name))]));
                }
            }
        }
        let name = if which == 0 { "load-single/StrInput" } else { "load-single/BufferedInput" };
        let r = catch(|| {
            let mut calls = 0usize;
            let mut rec = Recorder { events: vec![], cap: cap + 8 };
            macro_rules! drive {
                ($p:expr) => {{
                    let mut p = $p;
                    loop {
                        calls += 1;
                        let before = rec.events.len();
                        let res = p.load(&mut rec, false);
                        if res.is_err() {
                            break;
                        }
                        if rec.events.last().map(|e| &e.0) == Some(&SEv::StreamEnd) {
                            break;
                        }
                        if rec.events.len() == before || calls > cap + 4 {
                            return Err(format!("load(multi=false) call {calls} delivered nothing and no StreamEnd"));
                        }
                    }
                    Ok(calls)
                }};
            }
            if which == 0 {
                drive!(Parser::new(StrInput::new(input)))
            } else {
                drive!(Parser::new(BufferedInput::new(input.chars())))
            }
        });
        match r {
            Err(p) => c01_panic(stats, input, name, &p),
            Ok(Err(m)) => viol(stats, format!("C01/no-progress/{name}"), m, case_json(input, vec![("config", J::s(name))])),
            Ok(Ok(_)) => stats.cnt("parses", 1),
        }
    }

    // (3) a random peek/next history
    {
        let hist_seed = rng.next();
        let r = catch(|| {
            let mut hr = Rng::new(hist_seed);
            let mut p = Parser::new_from_str(input);
            let mut got = 0usize;
            loop {
                for _ in 0..hr.below(3) {
                    match p.peek() {
                        Some(Err(_)) => return got,
                        _ => {}
                    }
                }
                match p.next_event() {
                    None => return got,
                    Some(Err(_)) => return got,
                    Some(Ok(_)) => got += 1,
                }
                if got > 8 * (input.len() + 1) + 2 {
                    panic!("{}", WORK_BOUND_MSG);
                }
            }
        });
        if let Err(p) = r {
            c01_panic(stats, input, "peek-next/StrInput", &p);
        } else {
            stats.cnt("parses", 1);
        }
    }

    // (4) the document loaders of every node type
    macro_rules! loader {
        ($name:literal, $e:expr) => {{
            let r = catch(|| $e.map(|d| d.len()).map_err(|e| e.info().to_string()));
            match r {
                Err(p) => c01_panic(stats, input, $name, &p),
                Ok(_) => stats.cnt("loads", 1),
            }
        }};
    }
    // the loader's work: the trees it returns hold a number of nodes bounded by a linear function of
    // the input length (an alias is replaced by a copy, so this is where aliasing shows)
    {
        let r = catch(|| {
            Yaml::load_from_str(input).ok().map(|docs| {
                // (node, parent index, is a mapping key)
                let mut order: Vec<(&Yaml, usize, bool)> = vec![];
                let mut stack: Vec<(&Yaml, usize, bool)> = docs.iter().map(|d| (d, usize::MAX, false)).collect();
                while let Some((y, parent, is_key)) = stack.pop() {
                    let me = order.len();
                    order.push((y, parent, is_key));
                    match y {
                        Yaml::Sequence(v) => stack.extend(v.iter().map(|c| (c, me, false))),
                        Yaml::Mapping(m) => {
                            for (k, v) in m {
                                stack.push((k, me, true));
                                stack.push((v, me, false));
                            }
                        }
                        _ => {}
                    }
                }
                // subtree sizes, children before parents (a child always comes later in `order`)
                let mut size = vec![1u64; order.len()];
                for i in (0..order.len()).rev() {
                    let p = order[i].1;
                    if p != usize::MAX {
                        size[p] += size[i];
                    }
                }
                // inserting an entry hashes its key, i.e. walks the whole key subtree: a lower bound
                // of the loader's hashing work that can be read off the result
                let key_work: u64 = (0..order.len()).filter(|i| order[*i].2).map(|i| size[i]).sum();
                (order.len() as u64, key_work)
            })
        });
        match r {
            Err(p) => c01_panic(stats, input, "Yaml::load_from_str", &p),
            Ok(None) => {}
            Ok(Some((nodes, key_work))) => {
                stats.max("max_loaded_nodes_per_char_x100", nodes * 100 / (n as u64 + 1));
                stats.max("max_key_hashing_work_per_char_x100", key_work * 100 / (n as u64 + 1));
                if key_work > 8 * (n as u64 + 1) + 16 && nodes <= 8 * (n as u64 + 1) + 16 {
                    viol(
                        stats,
                        "C01/work-bound/loader-key-hashing/nested-collection-keys".into(),
                        format!("Yaml::load_from_str hashed at least {key_work} nodes while inserting mapping keys (sum of the sizes of all key subtrees) for {n} characters of input (bound 8*(n+1)+16)"),
                        case_json(input, vec![("config", J::s("Yaml::load_from_str"))]),
                    );
                }
                if nodes > 8 * (n as u64 + 1) + 16 {
                    let aliases = first.as_ref().is_some_and(|p| p.events.iter().any(|e| matches!(e.0, SEv::Alias(_))));
                    viol(
                        stats,
                        format!("C01/work-bound/loader-nodes/{}", if aliases { "through-aliases" } else { "without-aliases" }),
                        format!("Yaml::load_from_str built {nodes} nodes from {n} characters (bound 8*(n+1)+16)"),
                        case_json(input, vec![("config", J::s("Yaml::load_from_str"))]),
                    );
                }
            }
        }
    }
    loader!("Yaml::load_from_str", Yaml::load_from_str(input));
    loader!("YamlOwned::load_from_str", YamlOwned::load_from_str(input));
    loader!("MarkedYaml::load_from_str", MarkedYaml::load_from_str(input));
    loader!("MarkedYamlOwned::load_from_str", MarkedYamlOwned::load_from_str(input));
    loader!("Yaml::load_from_iter", Yaml::load_from_iter(input.chars()));
    loader!("Yaml::load_from_parser", {
        let mut p = Parser::new_from_str(input);
        Yaml::load_from_parser(&mut p)
    });
    loader!("MarkedYaml::load_from_parser", {
        let mut p = Parser::new_from_str(input);
        MarkedYaml::load_from_parser(&mut p)
    });

    // the text carried by the events (scalar values, resolved tags) is part of the work: it is bounded
    // by a linear function of the input length as well
    if let Some(p) = &first {
        let mut payload = 0u64;
        let mut tag_part = 0u64;
        for (e, _) in &p.events {
            match e {
                SEv::Scalar { v, tag, .. } => {
                    payload += v.len() as u64;
                    if let Some((h, sfx)) = tag {
                        tag_part += (h.len() + sfx.len()) as u64;
                    }
                }
                SEv::SeqStart { tag: Some((h, sfx)), .. } | SEv::MapStart { tag: Some((h, sfx)), .. } => tag_part += (h.len() + sfx.len()) as u64,
                _ => {}
            }
        }
        payload += tag_part;
        stats.max("max_event_payload_bytes_per_input_byte_x100", payload * 100 / (input.len() as u64 + 1));
        if payload > 8 * (input.len() as u64 + 1) + 64 {
            let via_tags = tag_part * 2 > payload;
            viol(
                stats,
                format!("C01/work-bound/event-payload/{}", if via_tags { "tag-prefix-expansion" } else { "other" }),
                format!("the events of a {}-byte input carry {payload} bytes of text ({tag_part} of them in resolved tags); bound 8*(n+1)+64", input.len()),
                case_json(input, vec![]),
            );
        }
    }

    let nt = first.as_ref().is_some_and(nontrivial);
    stats.eval(if nt { Some(input.as_bytes()) } else { None });
    if nt && stats.want_sample() && input.len() > 3 {
        stats.sample(J::obj(vec![
            ("input", J::s(input)),
            ("outcome", first.as_ref().map_or(J::Null, |p| p.error.as_ref().map_or(J::s("complete stream"), |e| J::s(&e.display)))),
            ("events", J::Int(first.as_ref().map_or(0, |p| p.events.len() as i64))),
        ]));
    }
}

// ------------------------------------------------------------------------------------------------
// C02
// ------------------------------------------------------------------------------------------------

fn grammar_check(events: &[(SEv, SSpan)], had_error: bool, stats: &mut Stats) -> Result<(), (String, String)> {
    let mut g = Grammar::new();
    let mut prev: &'static str = "^";
    for (i, (e, _)) in events.iter().enumerate() {
        if let Err(m) = g.feed(e) {
            let class = m.split(|c: char| c.is_ascii_digit() || c == '(').next().unwrap_or("").trim().replace(' ', "-");
            return Err((class, format!("event #{i} {}: {m}", e.line())));
        }
        stats.set("event_bigrams", &format!("{prev}>{}", e.kind()));
        prev = e.kind();
    }
    stats.max("max_nesting_depth", g.max_depth as u64);
    stats.cnt("events_checked", events.len() as u64);
    if !had_error && !g.complete() {
        return Err(("incomplete-without-error".into(), "no error was reported but the event sentence is not complete".into()));
    }
    Ok(())
}

pub fn check_c02(input: &str, stats: &mut Stats) {
    let mut first = None;
    for (name, which) in [("pull/StrInput", 0), ("pull/BufferedInput", 1), ("push/StrInput", 2), ("push/BufferedInput", 3)] {
        let r = catch(|| match which {
            0 => parse_str(input),
            1 => parse_iter(input),
            2 => push_all(&mut Parser::new_from_str(input)),
            _ => push_all(&mut Parser::new_from_iter(input.chars())),
        });
        let p = match r {
            Ok(p) => p,
            Err(_) => continue, // panics are C01's business
        };
        if let Err((class, m)) = grammar_check(&p.events, p.error.is_some(), stats) {
            viol(stats, format!("C02/grammar/{class}/{name}"), format!("{name}: {m}"), case_json(input, vec![("config", J::s(name))]));
        }
        // after StreamEnd: nothing more (pull only)
        if which < 2 && p.error.is_none() {
            let extra = catch(|| {
                let mut it = Parser::new_from_str(input);
                let mut cnt = 0usize;
                let mut after = 0usize;
                let mut ended = false;
                while let Some(x) = it.next_event() {
                    if ended {
                        after += 1;
                    }
                    if matches!(x, Ok((saphyr_parser::Event::StreamEnd, _))) {
                        ended = true;
                    }
                    cnt += 1;
                    if x.is_err() || cnt > p.events.len() + 4 {
                        break;
                    }
                }
                // two more calls must return None
                let more = it.next_event().is_some() || it.next_event().is_some();
                (after, more)
            });
            if let Ok((after, more)) = extra {
                if which == 0 && (after > 0 || more) {
                    viol(stats, "C02/grammar/after-stream-end/pull".into(), "events were delivered after StreamEnd".into(), case_json(input, vec![]));
                }
            }
        }
        if first.is_none() {
            first = Some(p);
        }
    }
    // the same sentence must come out when the consumer peeks before every next, and nothing may
    // follow StreamEnd on that path either
    if let Some(plain) = &first {
        if !plain.capped {
            let r = catch(|| {
                let mut it = Parser::new_from_str(input);
                let mut evs: Vec<SEv> = vec![];
                let mut after_end = 0usize;
                let mut ended = false;
                let limit = plain.events.len() + 4;
                for _ in 0..limit {
                    let peeked = match it.peek() {
                        None => None,
                        Some(Ok((e, _))) => Some(Ok(sev(e))),
                        Some(Err(_)) => Some(Err(())),
                    };
                    if matches!(peeked, Some(Err(()))) {
                        break;
                    }
                    match it.next_event() {
                        None => {
                            if peeked.is_some() {
                                after_end += 1000; // peek promised an event that next did not deliver
                            }
                        }
                        Some(Err(_)) => break,
                        Some(Ok((e, _))) => {
                            if ended {
                                after_end += 1;
                            }
                            if matches!(e, saphyr_parser::Event::StreamEnd) {
                                ended = true;
                            }
                            evs.push(sev(&e));
                        }
                    }
                }
                (evs, after_end)
            });
            if let Ok((evs, after_end)) = r {
                stats.cnt("peeking_pulls", 1);
                if after_end > 0 {
                    viol(stats, "C02/grammar/after-stream-end/pull-with-peeks".into(), "events were delivered after StreamEnd when the consumer peeks before every next".into(), case_json(input, vec![("config", J::s("pull-with-peeks"))]));
                } else {
                    let mut g = Grammar::new();
                    for (i, e) in evs.iter().enumerate() {
                        if let Err(m) = g.feed(e) {
                            viol(stats, "C02/grammar/pull-with-peeks".into(), format!("pull with peeks: event #{i} {}: {m}", e.line()), case_json(input, vec![("config", J::s("pull-with-peeks"))]));
                            break;
                        }
                    }
                }
            }
        }
    }
    let nt = first.as_ref().is_some_and(nontrivial);
    stats.eval(if nt { Some(input.as_bytes()) } else { None });
    if nt && stats.want_sample() && input.len() > 3 {
        stats.sample(J::obj(vec![("input", J::s(input)), ("events", J::Arr(first.unwrap().lines().iter().map(|l| J::s(l)).collect()))]));
    }
}

// ------------------------------------------------------------------------------------------------
// C10
// ------------------------------------------------------------------------------------------------

pub fn describe_diff(a: &Parsed, b: &Parsed) -> String {
    let n = a.events.len().min(b.events.len());
    for i in 0..n {
        if a.events[i] != b.events[i] {
            return format!(
                "event #{i}: {} @{} vs {} @{}",
                a.events[i].0.line(),
                fmt_span(&a.events[i].1),
                b.events[i].0.line(),
                fmt_span(&b.events[i].1)
            );
        }
    }
    if a.events.len() != b.events.len() {
        return format!("event counts differ: {} vs {}", a.events.len(), b.events.len());
    }
    format!(
        "errors differ: {:?} vs {:?}",
        a.error.as_ref().map(|e| e.display.clone()),
        b.error.as_ref().map(|e| e.display.clone())
    )
}

fn diff_class(a: &Parsed, b: &Parsed) -> &'static str {
    let n = a.events.len().min(b.events.len());
    for i in 0..n {
        if a.events[i].0 != b.events[i].0 {
            return "event";
        }
        if a.events[i].1 != b.events[i].1 {
            return "span";
        }
    }
    if a.events.len() != b.events.len() {
        return "event-count";
    }
    match (&a.error, &b.error) {
        (Some(x), Some(y)) if x.info != y.info => "error-message",
        (Some(_), Some(_)) => "error-position",
        _ => "error-presence",
    }
}

pub fn check_c10(input: &str, stats: &mut Stats) {
    let huge = u64::MAX / 2;
    let mut reference: Option<Parsed> = None;
    for b in ALL_BACKENDS {
        let r = catch(|| run_backend(input, b, huge, safety_cap(input)));
        let run = match r {
            Ok(r) => r,
            Err(p) => {
                // a panic in one back-end only is a divergence too (the others did not panic)
                if reference.is_some() {
                    viol(
                        stats,
                        format!("C10/diverge/panic/{}", b.name()),
                        format!("{} panicked ({p}) where StrInput did not", b.name()),
                        case_json(input, vec![("backend", J::s(b.name()))]),
                    );
                }
                continue;
            }
        };
        for br in &run.breaches {
            let kind = br.split(|c: char| c == '(' || c == ' ').next().unwrap_or("?").to_string();
            viol(
                stats,
                format!("C10/contract/{kind}/{}", b.name()),
                format!("input contract breach seen by {}: {br}", b.name()),
                case_json(input, vec![("backend", J::s(b.name()))]),
            );
        }
        stats.cnt("backend_runs", 1);
        match &reference {
            None => reference = Some(run.parsed),
            Some(r0) => {
                if *r0 != run.parsed {
                    viol(
                        stats,
                        format!("C10/diverge/{}/{}", diff_class(r0, &run.parsed), b.name()),
                        format!("StrInput vs {}: {}", b.name(), describe_diff(r0, &run.parsed)),
                        case_json(input, vec![("backend", J::s(b.name()))]),
                    );
                } else {
                    stats.cnt("agreements", 1);
                }
            }
        }
    }
    // the public constructors as well
    if let (Ok(a), Ok(b)) = (catch(|| parse_str(input)), catch(|| parse_iter(input))) {
        if a != b {
            viol(
                stats,
                format!("C10/diverge/{}/new_from_iter", diff_class(&a, &b)),
                format!("new_from_str vs new_from_iter: {}", describe_diff(&a, &b)),
                case_json(input, vec![("backend", J::s("BufferedInput"))]),
            );
        }
        if let Some(e) = &a.error {
            stats.set("error_messages", &e.info);
        }
    }
    let nt = reference.as_ref().is_some_and(nontrivial);
    stats.eval(if nt { Some(input.as_bytes()) } else { None });
    if nt && stats.want_sample() && input.len() > 3 {
        stats.sample(J::obj(vec![("input", J::s(input)), ("backends_compared", J::Int(ALL_BACKENDS.len() as i64)), ("outcome", J::s(&visible(&reference.unwrap().error.map_or("complete stream".to_string(), |e| e.display))))]));
    }
}
