//! Monitors for C18 (byte input decoding), C16 (tag resolution through directives), C15 (document independence).

use crate::corpus;
use crate::events::*;
use crate::gen;
use crate::mon_c::{check_against_expected, c03_case, gen_stream};
use crate::nodes::*;
use crate::render::*;
use crate::util::{catch, emit_progress, Rng, Stats, Violation, J};
use saphyr::{LoadableYamlNode, YAMLDecodingTrap, Yaml, YamlDecoder};
use saphyr_parser::verif::{self, VerifEvent};
use std::borrow::Cow;
use std::cell::RefCell;
use std::ops::ControlFlow;
use std::rc::Rc;
use std::sync::atomic::{AtomicUsize, Ordering};

fn viol(stats: &mut Stats, sig: String, msg: String, case: J) {
    stats.violation(Violation { sig, msg, case });
}

// ------------------------------------------------------------------------------------------------
// C18
// ------------------------------------------------------------------------------------------------

pub const ENCODINGS: [&str; 6] = ["utf-8", "utf-8+bom", "utf-16le", "utf-16le+bom", "utf-16be", "utf-16be+bom"];
pub const TRAPS: [&str; 4] = ["strict", "ignore", "replace", "callback"];

pub fn encode(t: &str, enc: usize) -> Vec<u8> {
    let mut out = vec![];
    match enc {
        0 => out.extend_from_slice(t.as_bytes()),
        1 => {
            out.extend_from_slice(&[0xEF, 0xBB, 0xBF]);
            out.extend_from_slice(t.as_bytes());
        }
        2 | 3 => {
            if enc == 3 {
                out.extend_from_slice(&[0xFF, 0xFE]);
            }
            for u in t.encode_utf16() {
                out.extend_from_slice(&u.to_le_bytes());
            }
        }
        _ => {
            if enc == 5 {
                out.extend_from_slice(&[0xFE, 0xFF]);
            }
            for u in t.encode_utf16() {
                out.extend_from_slice(&u.to_be_bytes());
            }
        }
    }
    out
}

static CALLBACK_CALLS: AtomicUsize = AtomicUsize::new(0);
static CALLBACK_BREAK: AtomicUsize = AtomicUsize::new(0);

fn callback(_len: u8, _after: u8, _input: &[u8], output: &mut String) -> ControlFlow<Cow<'static, str>> {
    CALLBACK_CALLS.fetch_add(1, Ordering::SeqCst);
    match CALLBACK_BREAK.load(Ordering::SeqCst) {
        1 => ControlFlow::Break(Cow::Borrowed("vmon callback says stop")),
        2 => ControlFlow::Break(Cow::Borrowed("")),
        _ => {
            output.push('?');
            ControlFlow::Continue(())
        }
    }
}

fn trap_of(i: usize) -> YAMLDecodingTrap {
    match i {
        0 => YAMLDecodingTrap::Strict,
        1 => YAMLDecodingTrap::Ignore,
        2 => YAMLDecodingTrap::Replace,
        _ => YAMLDecodingTrap::Call(callback),
    }
}

#[derive(Debug, Clone, PartialEq)]
pub enum DecodeOutcome {
    Docs(Vec<CN>),
    Scan(String),
    Decode(String),
    Io,
}

const SPIN_MSG: &str = "VMON-DECODE-NO-PROGRESS";

#[derive(Default)]
struct H1 {
    last: Option<(usize, usize, usize)>,
    iters: u64,
    spin: Option<String>,
}

/// Run one decode under the H1 progress monitor.
pub fn monitored_decode(bytes: &[u8], trap: usize) -> (Result<DecodeOutcome, String>, u64, Option<String>) {
    let h1: Rc<RefCell<H1>> = Rc::new(RefCell::new(H1::default()));
    let hc = h1.clone();
    let n = bytes.len();
    verif::set_sink(Box::new(move |ev| {
        if let VerifEvent::DecodeIter { bytes_read, out_len, out_cap, .. } = ev {
            let mut g = hc.borrow_mut();
            g.iters += 1;
            let cur = (bytes_read, out_len, out_cap);
            let stuck = g.last.is_some_and(|(b, l, c)| bytes_read <= b && out_len <= l && out_cap <= c);
            if stuck || g.iters > 4 * n as u64 + 64 {
                let (b, l, c) = g.last.unwrap_or((0, 0, 0));
                g.spin = Some(format!("decode loop iteration {} made no progress: bytes read {b}->{bytes_read}, output length {l}->{out_len}, capacity {c}->{out_cap}", g.iters));
                drop(g);
                panic!("{}", SPIN_MSG);
            }
            g.last = Some(cur);
        }
    }));
    let r = catch(|| {
        let mut d = YamlDecoder::read(bytes);
        d.encoding_trap(trap_of(trap));
        let res = d.decode();
        let out = match res {
            Ok(docs) => DecodeOutcome::Docs(docs.iter().map(cn_yaml).collect()),
            // LoadError is not exported: tell its variants apart through std::error::Error::source
            Err(e) => {
                use std::error::Error;
                match e.source() {
                    Some(src) if src.downcast_ref::<saphyr::ScanError>().is_some() => DecodeOutcome::Scan(e.to_string()),
                    Some(_) => DecodeOutcome::Io,
                    None => DecodeOutcome::Decode(e.to_string()),
                }
            }
        };
        out
    });
    verif::clear_sink();
    let g = h1.borrow();
    (r, g.iters, g.spin.clone())
}

/// Which encoding the decoder is specified to pick, and whether the bytes are well-formed in it.
pub fn wellformed(b: &[u8]) -> bool {
    fn utf16_ok(units: &[u16]) -> bool {
        let mut i = 0;
        while i < units.len() {
            let u = units[i];
            if (0xD800..0xDC00).contains(&u) {
                if i + 1 < units.len() && (0xDC00..0xE000).contains(&units[i + 1]) {
                    i += 2;
                    continue;
                }
                return false;
            }
            if (0xDC00..0xE000).contains(&u) {
                return false;
            }
            i += 1;
        }
        true
    }
    let (kind, rest): (u8, &[u8]) = if b.starts_with(&[0xEF, 0xBB, 0xBF]) {
        (0, &b[3..])
    } else if b.starts_with(&[0xFF, 0xFE]) {
        (1, &b[2..])
    } else if b.starts_with(&[0xFE, 0xFF]) {
        (2, &b[2..])
    } else if b.len() > 1 && b[0] != b[1] && b[0] == 0 {
        (2, b)
    } else if b.len() > 1 && b[0] != b[1] && b[1] == 0 {
        (1, b)
    } else {
        (0, b)
    };
    match kind {
        0 => std::str::from_utf8(rest).is_ok(),
        1 => rest.len() % 2 == 0 && utf16_ok(&rest.chunks(2).map(|c| u16::from_le_bytes([c[0], c[1]])).collect::<Vec<_>>()),
        _ => rest.len() % 2 == 0 && utf16_ok(&rest.chunks(2).map(|c| u16::from_be_bytes([c[0], c[1]])).collect::<Vec<_>>()),
    }
}

fn hex(b: &[u8]) -> String {
    b.iter().map(|x| format!("{x:02x}")).collect::<Vec<_>>().join(" ")
}
fn unhex(s: &str) -> Vec<u8> {
    s.split_whitespace().filter_map(|x| u8::from_str_radix(x, 16).ok()).collect()
}

fn bytes_case(b: &[u8], trap: usize, text: Option<&str>) -> J {
    J::obj(vec![("bytes", J::s(&hex(b))), ("trap", J::s(TRAPS[trap])), ("text", text.map_or(J::Null, J::s))])
}

/// Checks that apply to any byte string: termination (H1), no panic, trap behaviour.
pub fn check_bytes(b: &[u8], trap: usize, stats: &mut Stats) -> Option<DecodeOutcome> {
    CALLBACK_CALLS.store(0, Ordering::SeqCst);
    CALLBACK_BREAK.store(0, Ordering::SeqCst);
    let (r, iters, spin) = monitored_decode(b, trap);
    stats.cnt("decodes", 1);
    stats.cnt("h1_events", iters);
    stats.max("max_decode_loop_iterations", iters);
    if let Some(m) = spin {
        viol(stats, format!("C18/h1-no-progress/{}", TRAPS[trap]), format!("{m} (input of {} bytes: {})", b.len(), hex(&b[..b.len().min(40)])), bytes_case(b, trap, None));
        return None;
    }
    let out = match r {
        Ok(o) => o,
        Err(p) => {
            viol(stats, format!("C18/panic/{}", crate::util::panic_site(&p)), format!("decode panicked: {p}"), bytes_case(b, trap, None));
            return None;
        }
    };
    let wf = wellformed(b);
    stats.cnt(if wf { "wellformed_inputs" } else { "malformed_inputs" }, 1);
    match trap {
        0 => {
            if !wf && !matches!(out, DecodeOutcome::Decode(_)) {
                viol(stats, "C18/strict/accepted-malformed".into(), format!("strict trap: malformed input was not a decode error but {out:?}"), bytes_case(b, trap, None));
            }
            if wf && matches!(out, DecodeOutcome::Decode(_)) {
                viol(stats, "C18/strict/rejected-wellformed".into(), format!("strict trap: well-formed input gave a decode error: {out:?}"), bytes_case(b, trap, None));
            }
        }
        1 | 2 => {
            if matches!(out, DecodeOutcome::Decode(_)) {
                viol(stats, format!("C18/{}-trap/decode-error", TRAPS[trap]), format!("{} trap returned a decode error: {out:?}", TRAPS[trap]), bytes_case(b, trap, None));
            }
        }
        _ => {
            let calls = CALLBACK_CALLS.load(Ordering::SeqCst);
            if !wf && calls == 0 {
                viol(stats, "C18/callback/not-invoked".into(), "callback trap: malformed input but the callback was never invoked".into(), bytes_case(b, trap, None));
            }
            if wf && calls > 0 {
                viol(stats, "C18/callback/invoked-on-wellformed".into(), "callback trap: invoked although the input is well-formed".into(), bytes_case(b, trap, None));
            }
            if matches!(out, DecodeOutcome::Decode(_)) {
                viol(stats, "C18/callback/decode-error-despite-continue".into(), format!("callback returned Continue but decode failed: {out:?}"), bytes_case(b, trap, None));
            }
            if !wf {
                // Break must turn into the corresponding error
                for (mode, want_msg) in [(1usize, Some("vmon callback says stop")), (2, None)] {
                    CALLBACK_BREAK.store(mode, Ordering::SeqCst);
                    let (r2, _, _) = monitored_decode(b, trap);
                    CALLBACK_BREAK.store(0, Ordering::SeqCst);
                    match r2 {
                        Ok(DecodeOutcome::Decode(m)) => {
                            if let Some(w) = want_msg {
                                if m != w {
                                    viol(stats, "C18/callback/break-message".into(), format!("callback Break({w:?}) surfaced as {m:?}"), bytes_case(b, trap, None));
                                }
                            }
                        }
                        Ok(o) => viol(stats, "C18/callback/break-ignored".into(), format!("callback returned Break but decode gave {o:?}"), bytes_case(b, trap, None)),
                        Err(_) => {}
                    }
                }
            }
        }
    }
    Some(out)
}

pub fn check_text(t: &str, stats: &mut Stats) {
    if !crate::events::terminates(t) {
        stats.cnt("skipped_parse_does_not_terminate", 1);
        return;
    }
    let direct = catch(|| match Yaml::load_from_str(t) {
        Ok(d) => DecodeOutcome::Docs(d.iter().map(cn_yaml).collect()),
        Err(e) => DecodeOutcome::Scan(e.to_string()),
    });
    let Ok(direct) = direct else { return };
    let bom_led = t.starts_with('\u{feff}');
    for enc in 0..ENCODINGS.len() {
        let b = encode(t, enc);
        for trap in 0..TRAPS.len() {
            let Some(out) = check_bytes(&b, trap, stats) else { continue };
            stats.cnt(&format!("encoding_{}", ENCODINGS[enc]), 1);
            // positions in scan errors are character positions of the decoded text: identical
            if out != direct {
                let sig = if bom_led {
                    "C18/differs-from-direct-load/text-starts-with-bom".to_string()
                } else if t.chars().take(2).any(|c| c == '\0') {
                    "C18/differs-from-direct-load/nul-among-the-first-two-characters".to_string()
                } else {
                    format!("C18/differs-from-direct-load/text/{}", ENCODINGS[enc])
                };
                viol(
                    stats,
                    sig,
                    format!("decoding the {} encoding gives {out:?}, loading the text directly gives {direct:?}", ENCODINGS[enc]),
                    bytes_case(&b, trap, Some(t)),
                );
            } else {
                stats.cnt("decodes_equal_to_direct_load", 1);
            }
        }
    }
    let nt = !t.is_ascii() || !t.is_empty();
    let mut key = t.as_bytes().to_vec();
    key.push(0xff);
    stats.eval(if nt && !t.is_ascii() { Some(&key) } else { None });
    if !t.is_ascii() && stats.want_sample() && t.len() > 8 {
        stats.sample(J::obj(vec![("text", J::s(t)), ("utf16le_bytes", J::s(&hex(&encode(t, 2)[..encode(t, 2).len().min(48)])))]));
    }
}

/// "Continues as configured": a UTF-8 text with single malformed sequences put between its parts.
/// Each bad chunk is one maximal invalid subsequence (a lone continuation byte, an impossible byte,
/// or a lead byte whose sequence is cut short by the ASCII character that follows), so it stands for
/// exactly one U+FFFD under `Replace`, nothing under `Ignore`, and one callback invocation.
pub fn check_damaged_utf8(parts: &[String], bad: &[Vec<u8>], stats: &mut Stats) {
    let mut bytes: Vec<u8> = vec![];
    for (i, p) in parts.iter().enumerate() {
        bytes.extend_from_slice(p.as_bytes());
        if let Some(b) = bad.get(i) {
            bytes.extend_from_slice(b);
        }
    }
    let n_bad = bad.len().min(parts.len());
    let joined = |sep: &str| -> String {
        let mut t = String::new();
        for (i, p) in parts.iter().enumerate() {
            t.push_str(p);
            if i < n_bad {
                t.push_str(sep);
            }
        }
        t
    };
    let dcase = |trap: usize| {
        J::obj(vec![
            ("bytes", J::s(&hex(&bytes))),
            ("trap", J::s(TRAPS[trap])),
            ("parts", J::Arr(parts.iter().map(|p| J::s(p)).collect())),
            ("bad", J::Arr(bad.iter().map(|b| J::s(&hex(b))).collect())),
        ])
    };
    for (trap, sep) in [(1usize, ""), (2, "\u{fffd}"), (3, "?")] {
        let want_text = joined(sep);
        if !crate::events::terminates(&want_text) {
            continue;
        }
        let Ok(want) = catch(|| match Yaml::load_from_str(&want_text) {
            Ok(d) => DecodeOutcome::Docs(d.iter().map(cn_yaml).collect()),
            Err(e) => DecodeOutcome::Scan(e.to_string()),
        }) else {
            continue;
        };
        CALLBACK_CALLS.store(0, Ordering::SeqCst);
        CALLBACK_BREAK.store(0, Ordering::SeqCst);
        let (r, _, spin) = monitored_decode(&bytes, trap);
        stats.cnt("damaged_utf8_decodes", 1);
        if spin.is_some() {
            continue; // reported by check_bytes on the same kind of input
        }
        let Ok(out) = r else { continue };
        if out != want {
            viol(
                stats,
                format!("C18/{}-trap/differs-from-configured-outcome", TRAPS[trap]),
                format!("{} trap: decoding gives {out:?}; the text with every malformed sequence {} loads as {want:?}", TRAPS[trap], match trap {
                    1 => "dropped",
                    2 => "replaced by U+FFFD",
                    _ => "replaced by the callback's output",
                }),
                dcase(trap),
            );
        }
        if trap == 3 && CALLBACK_CALLS.load(Ordering::SeqCst) != n_bad {
            viol(
                stats,
                "C18/callback/invocation-count".into(),
                format!("{n_bad} malformed sequences, callback invoked {} times", CALLBACK_CALLS.load(Ordering::SeqCst)),
                dcase(trap),
            );
        }
    }
    let mut key = bytes.clone();
    key.push(0xfd);
    stats.eval(Some(&key));
}

fn gen_damaged_utf8(r: &mut Rng) -> (Vec<String>, Vec<Vec<u8>>) {
    let n_parts = r.range(2, 6);
    let mut parts = vec![];
    for i in 0..n_parts {
        // every part starts with an ASCII character (the first one decides the encoding detection,
        // the others end a truncated sequence) and holds no U+FFFD or `?` of its own
        let mut t = String::new();
        t.push(r.pick(&['a', 'k', '-', 'x', '1', ' ']));
        if i == 0 {
            t = r.pick(&["a", "k", "- ", "x"]).to_string();
            t.push(r.pick(&['a', 'b', ' ']));
        }
        for _ in 0..r.below(8) {
            t.push(r.pick(&['a', 'b', ' ', ':', '-', '\n', 'é', '中', '😀', '"', '1', 'k']));
        }
        parts.push(t);
    }
    let mut bad = vec![];
    for _ in 0..n_parts - 1 {
        bad.push(match r.below(8) {
            0 => vec![0x80],
            1 => vec![0xBF],
            2 => vec![0xFF],
            3 => vec![0xFE],
            4 => vec![0xC3],
            5 => vec![0xE4, 0xB8],
            6 => vec![0xF0, 0x9F, 0x98],
            _ => vec![0xC0],
        });
    }
    (parts, bad)
}

const DOC_SNIPPETS: &[&str] = &["a: 1\n", "- é\n- 中\n", "k: \"😀\"\n", "[1, 2]\n", "--- x\n", "x: |\n  ü\n", "# c\nq: 'ß'\n", "? a\n: b\n", "-", "a", "'", "{a: [b, \"c\"]}", "\n", " "];
const CHARS: &[char] = &['a', 'b', ' ', ':', '-', '\n', 'é', 'ü', 'ß', '中', '文', '字', '😀', '\u{10ffff}', '"', '1', '\u{a0}', '\u{2028}', 'Z', 'k'];

pub fn run_c18(tier: &str, seed: u64, shard: u64, nshards: u64, scale: f64, stats: &mut Stats) {
    let thorough = tier == "thorough";
    let mut r = Rng::derive(seed, 0xC18, shard);
    // (1) texts of every length 0..=64 (several per length), starting with an ASCII character
    let miri = tier == "miri";
    let reps = if thorough { 40 } else if miri { 1 } else { 6 };
    let mut n = 0u64;
    for len in 0..=64usize {
        for rep in 0..reps {
            if (len as u64 * reps + rep) % nshards != shard {
                continue;
            }
            let mut t = String::new();
            if len > 0 {
                t.push(r.pick(&['a', '-', 'k', '[', '"', '#']));
            }
            let class = rep % 4;
            while t.chars().count() < len {
                let c = match class {
                    0 => r.pick(&['a', 'b', ' ', ':', '-', '\n', '1']),
                    1 => r.pick(&['a', 'é', 'ü', 'ß', ' ', '\n', ':']),
                    2 => r.pick(&['中', '文', '字', 'a', ' ', '\n']),
                    _ => r.pick(CHARS),
                };
                t.push(c);
            }
            check_text(&t, stats);
            n += 1;
        }
    }
    // (2) documents built from snippets, some long (up to ~4k), a few starting with a BOM
    let per = ((if thorough { 20_000.0 } else { 1_200.0 }) * scale) as u64 / nshards;
    for i in 0..per {
        if i % 200 == 0 {
            emit_progress(n + i);
        }
        let mut t = String::new();
        let parts = if r.chance(1, 12) { r.range(50, 400) } else { r.range(1, 8) };
        for _ in 0..parts {
            t.push_str(r.pick(DOC_SNIPPETS));
        }
        if r.chance(1, 25) {
            t.insert(0, '\u{feff}');
            stats.cnt("texts_starting_with_bom", 1);
        }
        check_text(&t, stats);
    }
    // (3) exhaustive byte strings
    let alpha: [u8; 10] = [0x00, 0x0A, 0x20, 0x2D, 0x41, 0x80, 0xC3, 0xE4, 0xFE, 0xFF];
    let l: u32 = if thorough { 7 } else if miri { 2 } else { 5 };
    let k = alpha.len() as u64;
    let total: u64 = (0..=l).map(|i| k.pow(i)).sum();
    let mut idx = shard;
    while idx < total {
        let mut x = idx;
        let mut len = 0u32;
        let mut p = 1u64;
        while x >= p {
            x -= p;
            p *= k;
            len += 1;
        }
        let mut b = vec![];
        for _ in 0..len {
            b.push(alpha[(x % k) as usize]);
            x /= k;
        }
        for trap in 0..TRAPS.len() {
            check_bytes(&b, trap, stats);
        }
        let nt = !b.is_ascii() || (b.len() > 1 && (b[0] == 0 || b[1] == 0));
        stats.eval(if nt { Some(&b) } else { None });
        idx += nshards;
        n += 1;
        if n % 5000 == 0 {
            emit_progress(n);
        }
    }
    if shard == 0 {
        stats.exhaustive_parts.insert(format!("all {total} byte strings of length <= {l} over {{00,0A,20,2D,41,80,C3,E4,FE,FF}} x 4 traps"));
    }
    // (4) random bytes and truncated / garbled encodings
    let per = ((if thorough { 400_000.0 } else { 20_000.0 }) * scale) as u64 / nshards;
    for _ in 0..per {
        if r.chance(1, 12) && !miri {
            // a long input with one malformed spot close to a multiple of 4096 bytes (block-wise
            // readers and error-context arithmetic)
            let mut t = String::from("k: ");
            let target = r.pick(&[4096usize, 8192, 4096 * 3]) + r.below(9) - 4;
            let enc = r.below(6);
            let unit = if enc >= 2 { 2 } else { 1 };
            while t.len() * unit < target + 64 {
                t.push(r.pick(&['a', 'b', 'c', ' ', 'x']));
            }
            t.push('\n');
            let mut b = encode(&t, enc);
            let at = target.min(b.len() - 1);
            match r.below(3) {
                0 => b[at] = r.pick(&[0xE4u8, 0xFF, 0x80, 0xD8, 0xDC]),
                1 => b.truncate(at),
                _ => b.insert(at, r.pick(&[0xC3u8, 0xD8, 0xF0])),
            }
            let trap = r.below(4);
            check_bytes(&b, trap, stats);
            stats.cnt("long_inputs_with_malformed_spot", 1);
            stats.eval(Some(&b));
            continue;
        }
        let mut b: Vec<u8> = if r.chance(1, 2) {
            let mut t = String::new();
            for _ in 0..r.range(1, 40) {
                t.push(r.pick(CHARS));
            }
            encode(&t, r.below(6))
        } else {
            (0..r.range(0, 48)).map(|_| r.pick(&[0u8, 0x0a, 0x20, 0x41, 0x61, 0x80, 0xbf, 0xc3, 0xe4, 0xf0, 0xfe, 0xff, 0xd8, 0xdc, 0x3a, 0x2d])).collect()
        };
        match r.below(4) {
            0 if !b.is_empty() => {
                let at = r.below(b.len());
                b.truncate(at);
            }
            1 if !b.is_empty() => {
                let at = r.below(b.len());
                b[at] = r.pick(&[0x80, 0xff, 0xfe, 0x00, 0xd8, 0xdc, 0xc0]);
            }
            2 if !b.is_empty() => {
                let at = r.below(b.len());
                b.insert(at, r.pick(&[0x80, 0xff, 0x00, 0xdf]));
            }
            _ => {}
        }
        let trap = r.below(4);
        check_bytes(&b, trap, stats);
        stats.eval(Some(&b));
    }
    // texts with U+0000 (an ASCII character) among the first two characters: encoding detection
    // looks at zero bytes there
    if shard == 0 {
        for t in ["a\0bc", "\0a", "k\0: v\n", "\0\u{1F600}"] {
            check_text(t, stats);
            stats.cnt("texts_with_nul_among_first_two_characters", 1);
        }
    }
    // (n) damaged UTF-8 under the continuing traps
    let per = ((if thorough { 400_000.0 } else { 20_000.0 }) * scale) as u64 / nshards;
    let mut rr = Rng::derive(seed, 0xC18D, shard);
    for i in 0..per {
        if i % 4000 == 0 {
            emit_progress(i);
        }
        let (parts, bad) = gen_damaged_utf8(&mut rr);
        check_damaged_utf8(&parts, &bad, stats);
    }
}

pub fn replay_c18(case: &J, stats: &mut Stats) {
    let b = unhex(&case.str_of("bytes"));
    let trap = TRAPS.iter().position(|t| *t == case.str_of("trap")).unwrap_or(0);
    stats.eval(Some(&b));
    if let Some(parts) = case.get("parts").and_then(J::as_arr) {
        let parts: Vec<String> = parts.iter().filter_map(|x| x.as_str().map(str::to_string)).collect();
        let bad: Vec<Vec<u8>> = case.get("bad").and_then(J::as_arr).map(|a| a.iter().filter_map(|x| x.as_str().map(unhex)).collect()).unwrap_or_default();
        check_damaged_utf8(&parts, &bad, stats);
    } else if let Some(t) = case.get("text").and_then(J::as_str) {
        check_text(t, stats);
    } else {
        check_bytes(&b, trap, stats);
    }
}

// ------------------------------------------------------------------------------------------------
// C16
// ------------------------------------------------------------------------------------------------

const HANDLES: &[&str] = &["!e!", "!a-b!", "!x1!", "!!", "!"];
const PREFIXES: &[&str] = &["tag:example.com,2000:", "!p-", "tag:x.y,2024:app/", "!", "tag:e%21x,1:", "!l%C3%A9-", "tag:yaml.org,2002:", "x:"];
const SUFFIXES: &[&str] = &["t", "foo", "a-b", "x.y", "a%20b", "caf%C3%A9", "%E4%B8%AD", "%F0%9F%98%80", "a%2Fb", "i/j", "q?r=s", "p#q", "u;v", "k:l", "m@n", "o&p=q+r$s", "_.~*'()", "int", "str", "%41"];

#[derive(Clone, Copy, PartialEq, Debug)]
enum Injected {
    None,
    UndeclaredHandle,
    DuplicateDirective,
    DeclaredInEarlierDocument,
}

struct TagStream {
    docs: Vec<ADoc>,
    injected: Injected,
    keep_tags: bool,
}

/// A suffix containing the percent-encoding of a random code point (1-4 byte UTF-8 sequences).
fn random_escaped_suffix(r: &mut Rng) -> String {
    let cp = match r.below(6) {
        0 => r.range(0x21, 0x7e) as u32,
        1 => r.range(0x80, 0x7ff) as u32,
        2 => r.range(0x800, 0xd7ff) as u32,
        3 => r.range(0xe000, 0xfffd) as u32,
        4 => r.range(0x10000, 0x10ffff) as u32,
        _ => r.pick(&[0x434u32, 0x5d0, 0x627, 0xac00, 0xffe5, 0x10ffff, 0x7ff, 0x800, 0xffff, 0x10000]),
    };
    let ch = char::from_u32(cp).unwrap_or('x');
    let mut buf = [0u8; 4];
    let mut s = String::from("e");
    for b in ch.encode_utf8(&mut buf).bytes() {
        s.push_str(&if r.chance(1, 2) { format!("%{b:02X}") } else { format!("%{b:02x}") });
    }
    s.push('z');
    s
}

fn pick_suffix(r: &mut Rng) -> String {
    if r.chance(1, 3) {
        random_escaped_suffix(r)
    } else {
        r.pick(SUFFIXES).to_string()
    }
}

fn gen_tag(r: &mut Rng, declared: &[(String, String)]) -> ATag {
    let named: Vec<&(String, String)> = declared.iter().filter(|(h, _)| h.len() > 2).collect();
    match r.below(8) {
        0 | 1 if !named.is_empty() => ATag::Named(named[r.below(named.len())].0.clone(), pick_suffix(r)),
        2 => ATag::Secondary(pick_suffix(r)),
        3 => ATag::Verbatim(r.pick(&["tag:example.com,2000:app/x", "!local", "tag:yaml.org,2002:str", "a%20b", "x:%C3%A9"]).to_string()),
        4 => ATag::NonSpecific,
        _ => ATag::Local(pick_suffix(r)),
    }
}

fn gen_tag_doc(r: &mut Rng, extra_handles: &[(String, String)]) -> ADoc {
    let mut d = ADoc::default();
    let nd = r.below(4);
    for _ in 0..nd {
        let h = r.pick(HANDLES).to_string();
        if d.tag_directives.iter().any(|(x, _)| *x == h) {
            continue;
        }
        let mut p = r.pick(PREFIXES).to_string();
        // a global prefix must not start with '!' only for the local form; both are legal
        if h == "!!" && r.chance(1, 2) {
            p = "tag:yaml.org,2002:".to_string();
        }
        d.tag_directives.push((h, p));
    }
    d.yaml_directive = r.chance(1, 3);
    d.reserved_directive = r.chance(1, 8);
    let mut in_force: Vec<(String, String)> = extra_handles.to_vec();
    in_force.extend(d.tag_directives.iter().cloned());
    let n = r.range(1, 5);
    let mut items = vec![];
    for _ in 0..n {
        let tag = if r.chance(4, 5) { Some(gen_tag(r, &in_force)) } else { None };
        let kind = match r.below(6) {
            0 => AKind::Seq(vec![ANode { kind: AKind::Scalar("x".into()), anchor: None, tag: Some(gen_tag(r, &in_force)) }]),
            1 => AKind::Map(vec![(ANode { kind: AKind::Scalar("k".into()), anchor: None, tag: if r.chance(1, 2) { Some(gen_tag(r, &in_force)) } else { None } }, ANode { kind: AKind::Scalar("v".into()), anchor: None, tag: None })]),
            2 => AKind::Null,
            3 => AKind::Seq(vec![]),
            _ => AKind::Scalar(r.pick(&["a", "1", "x y", "", "true"]).to_string()),
        };
        items.push(ANode { kind, anchor: if r.chance(1, 6) { Some("a".into()) } else { None }, tag });
    }
    let root_tag = if r.chance(1, 3) { Some(gen_tag(r, &in_force)) } else { None };
    d.root = Some(ANode { kind: AKind::Seq(items), anchor: None, tag: root_tag });
    d
}

fn gen_tag_stream(r: &mut Rng) -> TagStream {
    let keep_tags = r.chance(1, 3);
    let ndocs = r.range(1, 3);
    let mut docs = vec![];
    let mut carried: Vec<(String, String)> = vec![];
    for _ in 0..ndocs {
        let d = gen_tag_doc(r, if keep_tags { &carried } else { &[] });
        if keep_tags {
            for (h, p) in &d.tag_directives {
                carried.retain(|(x, _)| x != h);
                carried.push((h.clone(), p.clone()));
            }
        }
        docs.push(d);
    }
    let mut injected = Injected::None;
    match r.below(10) {
        0 => {
            // a named handle no directive in force declares
            let di = r.below(docs.len());
            let used: Vec<String> = docs.iter().take(if keep_tags { di + 1 } else { 0 }).chain(std::iter::once(&docs[di])).flat_map(|d| d.tag_directives.iter().map(|x| x.0.clone())).collect();
            if !used.iter().any(|h| h == "!zz!") {
                if let Some(ANode { kind: AKind::Seq(items), .. }) = &mut docs[di].root {
                    items.push(ANode { kind: AKind::Scalar("u".into()), anchor: None, tag: Some(ATag::Named("!zz!".into(), "t".into())) });
                    injected = Injected::UndeclaredHandle;
                }
            }
        }
        1 => {
            let di = r.below(docs.len());
            if let Some((h, _)) = docs[di].tag_directives.first().cloned() {
                docs[di].tag_directives.push((h, "tag:dup,1:".into()));
                injected = Injected::DuplicateDirective;
            }
        }
        2 if !keep_tags && docs.len() >= 2 => {
            // use in document 2 a named handle that only document 1 declares
            let decl: Vec<(String, String)> = docs[0].tag_directives.iter().filter(|(h, _)| h.len() > 2).cloned().collect();
            if let Some((h, _)) = decl.first() {
                if !docs[1].tag_directives.iter().any(|(x, _)| x == h) {
                    if let Some(ANode { kind: AKind::Seq(items), .. }) = &mut docs[1].root {
                        items.push(ANode { kind: AKind::Scalar("u".into()), anchor: None, tag: Some(ATag::Named(h.clone(), "t".into())) });
                        injected = Injected::DeclaredInEarlierDocument;
                    }
                }
            }
        }
        _ => {}
    }
    TagStream { docs, injected, keep_tags }
}

pub fn run_c16(tier: &str, seed: u64, shard: u64, nshards: u64, scale: f64, stats: &mut Stats) {
    let per = ((if tier == "thorough" { 2_500_000.0 } else { 100_000.0 }) * scale) as u64 / nshards;
    let mut r = Rng::derive(seed, 0xC16, shard);
    for i in 0..per {
        if i % 4000 == 0 {
            emit_progress(i);
        }
        let ts = gen_tag_stream(&mut r);
        let mut rend = Renderer::new(&mut r);
        rend.comments = false;
        rend.keep_tags = ts.keep_tags;
        let rd = rend.render_stream(&ts.docs, false);
        let expected = canon_lines(&rd.events);
        let case = J::obj(vec![
            ("input", J::s(&rd.text)),
            ("keep_tags", J::Bool(ts.keep_tags)),
            ("expect_error", J::Bool(ts.injected != Injected::None)),
            ("expected", J::Arr(expected.iter().map(|l| J::s(l)).collect())),
        ]);
        check_c16(&rd.text, ts.keep_tags, ts.injected != Injected::None, &format!("{:?}", ts.injected), &expected, stats, &case);
        stats.cnt(if ts.keep_tags { "keep_tags_on" } else { "keep_tags_off" }, 1);
        stats.cnt(&format!("injected_{:?}", ts.injected), 1);
        stats.cnt("tag_directives", ts.docs.iter().map(|d| d.tag_directives.len() as u64).sum());
        let nt = expected.iter().any(|l| l.contains(" <"));
        let mut key = rd.text.clone().into_bytes();
        key.push(u8::from(ts.keep_tags));
        stats.eval(if nt { Some(&key) } else { None });
        if nt && stats.want_sample() && ts.docs.iter().any(|d| d.tag_directives.len() >= 2) {
            stats.sample(case);
        }
    }
}

pub fn check_c16(text: &str, keep_tags: bool, expect_error: bool, what: &str, expected: &[String], stats: &mut Stats, case: &J) {
    for (cfg, it) in [("StrInput", false), ("BufferedInput", true)] {
        let p = catch(|| {
            if it {
                let mut p = saphyr_parser::Parser::new_from_iter(text.chars()).keep_tags(keep_tags);
                pull_all(&mut p, usize::MAX)
            } else {
                parse_str_keep(text, keep_tags)
            }
        });
        let Ok(p) = p else { continue };
        if expect_error {
            if p.error.is_none() {
                viol(stats, format!("C16/accepted/{what}/keep_tags={keep_tags}"), format!("{cfg}: stream with {what} was accepted"), case.clone());
                return;
            }
            stats.cnt("rejected_as_required", 1);
            continue;
        }
        if let Some(e) = &p.error {
            viol(stats, format!("C16/rejected/{}/keep_tags={keep_tags}", e.info.chars().take(40).collect::<String>()), format!("{cfg}: well-formed tagged stream rejected: {}", e.display), case.clone());
            return;
        }
        let got: Vec<SEv> = p.events.iter().map(|x| x.0.clone()).collect();
        let lines = canon_lines(&got);
        if let Some(i) = lines_first_diff(expected, &lines) {
            let e = expected.get(i).cloned().unwrap_or_default();
            let a = lines.get(i).cloned().unwrap_or_default();
            let class = if e.contains('<') || a.contains('<') { "tag" } else { "structure" };
            viol(stats, format!("C16/differs/{class}/keep_tags={keep_tags}"), format!("{cfg}: event #{i}: expected `{e}`, parser delivered `{a}`"), case.clone());
            return;
        }
        stats.cnt("tags_resolved_as_modelled", lines.iter().filter(|l| l.contains(" <")).count() as u64);
    }
}

pub fn replay_c16(case: &J, stats: &mut Stats) {
    let input = case.str_of("input");
    let keep = case.get("keep_tags").and_then(J::as_bool).unwrap_or(false);
    let ee = case.get("expect_error").and_then(J::as_bool).unwrap_or(false);
    let expected: Vec<String> = case.get("expected").and_then(J::as_arr).map(|a| a.iter().filter_map(|x| x.as_str().map(str::to_string)).collect()).unwrap_or_default();
    stats.eval(Some(input.as_bytes()));
    check_c16(&input, keep, ee, "replay", &expected, stats, case);
}

// ------------------------------------------------------------------------------------------------
// C15
// ------------------------------------------------------------------------------------------------

/// Split an event list into per-document canonical line lists.
fn per_doc(events: &[(SEv, SSpan)]) -> Vec<Vec<String>> {
    let mut docs = vec![];
    let mut cur: Vec<SEv> = vec![];
    for (e, _) in events {
        match e {
            SEv::StreamStart | SEv::StreamEnd => {}
            SEv::DocEnd => {
                cur.push(e.clone());
                docs.push(canon_lines(&cur));
                cur.clear();
            }
            e => cur.push(e.clone()),
        }
    }
    docs
}

#[derive(Default)]
struct H3 {
    bad: Option<String>,
    seen: u64,
}

fn parse_with_h3(text: &str) -> (Result<Parsed, String>, Option<String>, u64) {
    let h3: Rc<RefCell<H3>> = Rc::new(RefCell::new(H3::default()));
    let hc = h3.clone();
    verif::set_sink(Box::new(move |ev| {
        if let VerifEvent::DocIndicator { indent, indents, flow_level, possible_keys, simple_keys, implicit_mappings, flow_mapping_started } = ev {
            let mut g = hc.borrow_mut();
            g.seen += 1;
            if g.bad.is_none() && (indent != -1 || indents != 0 || flow_level != 0 || possible_keys != 0 || simple_keys != 1 || implicit_mappings != 0 || flow_mapping_started) {
                g.bad = Some(format!(
                    "scanner state at document marker #{}: indent {indent}, indent stack {indents}, flow level {flow_level}, possible simple keys {possible_keys}, simple key stack {simple_keys}, implicit mapping stack {implicit_mappings}, flow_mapping_started {flow_mapping_started}",
                    g.seen
                ));
            }
        }
    }));
    let r = catch(|| parse_str(text));
    verif::clear_sink();
    let g = h3.borrow();
    (r, g.bad.clone(), g.seen)
}

pub fn check_c15(parts: &[String], stats: &mut Stats) {
    // every part must be accepted alone and end with a line break
    let mut alone: Vec<Parsed> = vec![];
    for p in parts {
        let Ok(r) = catch(|| parse_str(p)) else { return };
        if r.error.is_some() || !(p.ends_with('\n') || p.is_empty()) || p.contains('\0') {
            stats.cnt("skipped_part_not_accepted_alone", 1);
            return;
        }
        alone.push(r);
    }
    let joined = parts.join("...\n");
    if !crate::events::terminates(&joined) {
        stats.cnt("skipped_parse_does_not_terminate", 1);
        return;
    }
    let case = || J::obj(vec![("parts", J::Arr(parts.iter().map(|p| J::s(p)).collect())), ("input", J::s(&joined))]);
    let (r, h3bad, h3seen) = parse_with_h3(&joined);
    stats.cnt("h3_events", h3seen);
    let Ok(whole) = r else { return };
    stats.cnt("concatenations", 1);
    if let Some(e) = &whole.error {
        viol(
            stats,
            format!("C15/concatenation-rejected/{}", e.info.chars().take(48).collect::<String>()),
            format!("streams that parse alone are rejected when joined by a document end marker: {}", e.display),
            case(),
        );
        return;
    }
    if let Some(m) = h3bad {
        viol(stats, "C15/h3-state-not-reset".into(), m, case());
    }
    let want: Vec<Vec<String>> = alone.iter().flat_map(|p| per_doc(&p.events)).collect();
    let got = per_doc(&whole.events);
    if want != got {
        let i = want.iter().zip(got.iter()).position(|(a, b)| a != b).unwrap_or(want.len().min(got.len()));
        let class = if want.len() != got.len() { "document-count" } else { "document-content" };
        viol(
            stats,
            format!("C15/documents-differ/{class}"),
            format!("document #{i} of the joined stream: {:?}; parsed alone: {:?} ({} vs {} documents)", got.get(i), want.get(i), got.len(), want.len()),
            case(),
        );
        return;
    }
    stats.cnt("documents_compared", got.len() as u64);
    // through the loading interface
    let la: Result<Vec<CN>, String> = catch(|| parts.iter().flat_map(|p| Yaml::load_from_str(p).unwrap_or_default()).map(|y| cn_yaml(&y)).collect());
    let lw = catch(|| Yaml::load_from_str(&joined).map(|d| d.iter().map(cn_yaml).collect::<Vec<_>>()));
    if let (Ok(la), Ok(lw)) = (la, lw) {
        match lw {
            Err(e) => viol(stats, "C15/load-rejected".into(), format!("load of the joined stream fails: {e}"), case()),
            Ok(lw) => {
                if lw != la {
                    viol(stats, "C15/loaded-documents-differ".into(), "documents loaded from the joined stream differ from those loaded separately".into(), case());
                } else {
                    stats.cnt("loads_compared", 1);
                }
            }
        }
    }
    let nt = got.iter().any(|d| d.iter().any(|l| l.starts_with("+SEQ") || l.starts_with("+MAP"))) && parts.len() >= 2;
    stats.eval(if nt { Some(joined.as_bytes()) } else { None });
    if nt && stats.want_sample() && joined.len() > 30 && joined.len() < 500 {
        stats.sample(case());
    }
}

/// Streams that leave as much state behind as possible / are sensitive to leftover state.
const STATEFUL: &[&str] = &[
    "a:\n  b:\n    c:\n      - d\n      - - e\n",
    "- - - a\n",
    "{a: [b, {c: d}]}\n",
    "[a: b, {c: d}, ? e : f]\n",
    "%TAG !e! tag:e,1:\n--- !e!t x\n",
    "%TAG !! tag:custom,1:\n--- !!t x\n",
    "%TAG ! !local-\n--- !t x\n",
    "%YAML 1.2\n--- a\n",
    "&a x\n",
    "- &a [x]\n- *a\n",
    "&b [*b]\n",
    "&a {k: *a}\n",
    "&a\n- &b [*a, *b]\n- *b\n",
    "&x leaked\n",
    "- &p 1\n- &q 2\n- &r 3\n",
    "k: |+\n  text\n\n\n",
    "k: >-\n  folded\n  text\n",
    "? a\n: b\n",
    "? - a\n  - b\n",
    "\"quoted\n  multi\"\n",
    "plain\n multi\n",
    "---\n",
    "--- |\ntext\n",
    "",
    "# only a comment\n",
    "!!str x\n",
    "!t x\n",
    "!e!t x\n",
    "*a\n",
    "[: a]\n",
    "[a: b]\n",
    "- [? x]\n",
    "- {x}\n",
    "\u{feff}k: v\n",
    "\u{feff}- x\n",
    "\u{feff}--- a\n",
    "\u{feff}# c\nq: r\n",
];

pub fn run_c15(tier: &str, seed: u64, shard: u64, nshards: u64, scale: f64, stats: &mut Stats) {
    let per = ((if tier == "thorough" { 2_000_000.0 } else { 80_000.0 }) * scale) as u64 / nshards;
    let mut r = Rng::derive(seed, 0xC15, shard);
    let corp: Vec<&String> = corpus::all().iter().filter(|c| !c.fail).map(|c| &c.yaml).collect();
    for i in 0..per {
        if i % 4000 == 0 {
            emit_progress(i);
        }
        let n = if r.chance(1, 5) { r.range(3, 4) } else { 2 };
        let mut parts = vec![];
        for _ in 0..n {
            let p = match r.below(10) {
                0..=3 => {
                    let rd = gen_stream(&mut r, true, true);
                    let mut t = rd.text;
                    if !t.ends_with('\n') && !t.is_empty() {
                        t.push('\n');
                    }
                    t
                }
                4 | 5 => r.pick(STATEFUL).to_string(),
                6 | 7 => corp[r.below(corp.len())].clone(),
                8 => {
                    let mut s = gen::line_soup(&mut r);
                    if !s.ends_with('\n') {
                        s.push('\n');
                    }
                    s
                }
                _ => {
                    let mut s = gen::soup(&mut r);
                    if !s.ends_with('\n') {
                        s.push('\n');
                    }
                    s
                }
            };
            parts.push(p);
        }
        check_c15(&parts, stats);
    }
    if shard == 0 {
        // all ordered pairs of the stateful list
        for a in STATEFUL {
            for b in STATEFUL {
                check_c15(&[(*a).to_string(), (*b).to_string()], stats);
            }
        }
        stats.exhaustive_parts.insert(format!("all {} ordered pairs of the {} hand-written state-heavy streams", STATEFUL.len() * STATEFUL.len(), STATEFUL.len()));
    }
}

pub fn replay_c15(case: &J, stats: &mut Stats) {
    let parts: Vec<String> = case.get("parts").and_then(J::as_arr).map(|a| a.iter().filter_map(|x| x.as_str().map(str::to_string)).collect()).unwrap_or_default();
    check_c15(&parts, stats);
}

#[allow(dead_code)]
fn unused(_: &dyn Fn(&str, &[String]) -> Result<(), (String, String)>) {
    let _ = check_against_expected;
    let _ = c03_case;
}
