#![allow(dead_code)]
//! vmon — runtime monitors for saphyr (see /verif/DESIGN.md).

mod corpus;
mod events;
mod family;
mod gen;
mod inputs;
mod mon_a;
mod mon_b;
mod mon_c;
mod mon_d;
mod mon_e;
mod mon_f;
mod mon_g;
mod mon_h;
mod mon_i;
mod mon_j;
mod nodes;
mod render;
mod scalars;
mod util;

use util::{JParser, Rng, Stats, J};

pub struct Args {
    pub prop: String,
    pub tier: String,
    pub seed: u64,
    pub shard: u64,
    pub nshards: u64,
    pub from: u64,
    pub to: u64,
    pub trace: bool,
    pub hashfile: Option<String>,
    pub scale: f64,
}

fn parse_args(a: &[String]) -> Args {
    let mut r = Args {
        prop: a[0].clone(),
        tier: "quick".into(),
        seed: 1,
        shard: 0,
        nshards: 1,
        from: 0,
        to: u64::MAX,
        trace: false,
        hashfile: None,
        scale: 1.0,
    };
    let mut i = 1;
    while i < a.len() {
        let v = || a.get(i + 1).cloned().unwrap_or_default();
        match a[i].as_str() {
            "--tier" => r.tier = v(),
            "--seed" => r.seed = v().parse().unwrap_or(1),
            "--shard" => r.shard = v().parse().unwrap_or(0),
            "--nshards" => r.nshards = v().parse().unwrap_or(1),
            "--from" => r.from = v().parse().unwrap_or(0),
            "--to" => r.to = v().parse().unwrap_or(u64::MAX),
            "--hashfile" => r.hashfile = Some(v()),
            "--scale" => r.scale = v().parse().unwrap_or(1.0),
            "--trace" => {
                r.trace = true;
                i += 1;
                continue;
            }
            x => {
                eprintln!("unknown argument {x}");
                std::process::exit(2);
            }
        }
        i += 2;
    }
    r
}

fn family_budget(prop: &str, tier: &str, scale: f64) -> family::Budget {
    let thorough = tier == "thorough";
    let sc = |x: u64| ((x as f64) * scale) as u64;
    let (q_rand, t_rand): (u64, u64) = match prop {
        "C01" => (160_000, 4_000_000),
        "C02" => (300_000, 8_000_000),
        "C10" => (200_000, 5_000_000),
        "C12" => (300_000, 8_000_000),
        "C14" => (300_000, 8_000_000),
        "C17" => (200_000, 5_000_000),
        _ => (100_000, 1_000_000),
    };
    if tier == "miri" {
        return family::Budget { g1_lens: [2, 0, 0], g1_sampled: 0, random: sc(q_rand), long: 0, long_size: 0 };
    }
    if thorough {
        family::Budget { g1_lens: [6, 5, 5], g1_sampled: sc(2_000_000), random: sc(t_rand), long: 42, long_size: 30_000 }
    } else {
        family::Budget { g1_lens: [4, 4, 0], g1_sampled: sc(40_000), random: sc(q_rand), long: 14, long_size: 4_000 }
    }
}

fn run(args: &Args) {
    let mut stats = Stats::new(&args.prop);
    let mut rng = Rng::derive(args.seed, 0x77, args.shard);
    match args.prop.as_str() {
        "C01" | "C02" | "C10" | "C12" | "C14" | "C17" => {
            let b = family_budget(&args.prop, &args.tier, args.scale);
            let prop = args.prop.clone();
            let mut c17_budget: u64 = if args.tier == "thorough" { 1500 } else { 40 };
            family::for_each_case(b, args.seed, args.shard, args.nshards, args.from, args.to, args.trace, &mut stats, &mut |s, origin, st| {
                st.cnt(&format!("origin_{origin}"), 1);
                match prop.as_str() {
                    "C01" => mon_a::check_c01(s, st, &mut rng),
                    "C02" => mon_a::check_c02(s, st),
                    "C10" => mon_a::check_c10(s, st),
                    "C12" => mon_b::check_c12(s, st),
                    "C14" => mon_b::check_c14(s, st),
                    "C17" => mon_b::check_c17(s, st, &mut rng, &mut c17_budget),
                    _ => unreachable!(),
                }
            });
        }
        "C03" => mon_c::run_c03(&args.tier, args.seed, args.shard, args.nshards, args.scale, &mut stats),
        "C06" => mon_c::run_c06(&args.tier, args.seed, args.shard, args.nshards, args.scale, &mut stats),
        "C07" => {
            mon_e::loader_inputs(&args.tier, args.seed, args.shard, args.nshards, args.scale, &mut stats, &mut |s, st| mon_e::check_c07(s, st));
            if args.shard == 0 {
                mon_e::check_corpus_json(&mut stats);
            }
        }
        "C19" => {
            let mut r2 = Rng::derive(args.seed, 0x19, args.shard);
            mon_e::loader_inputs(&args.tier, args.seed, args.shard, args.nshards, args.scale, &mut stats, &mut |s, st| mon_e::check_c19(s, st, &mut r2))
        }
        "C08" => mon_f::run_c08(&args.tier, args.seed, args.shard, args.nshards, args.scale, &mut stats),
        "C09" => mon_g::run_c09(&args.tier, args.seed, args.shard, args.nshards, args.scale, &mut stats),
        "C13" => mon_g::run_c13(&args.tier, args.seed, args.shard, args.nshards, args.scale, &mut stats),
        "C20" => mon_h::run_c20(&args.tier, args.seed, args.shard, args.nshards, args.scale, &mut stats),
        "C15" => mon_i::run_c15(&args.tier, args.seed, args.shard, args.nshards, args.scale, &mut stats),
        "C16" => mon_i::run_c16(&args.tier, args.seed, args.shard, args.nshards, args.scale, &mut stats),
        "C18" => mon_i::run_c18(&args.tier, args.seed, args.shard, args.nshards, args.scale, &mut stats),
        "C11" => mon_j::run_c11(&args.tier, args.seed, args.shard, args.nshards, &mut stats),
        "C04" => mon_d::run_c04(&args.tier, args.seed, args.shard, args.nshards, args.scale, &mut stats),
        "C05" => mon_d::run_c05(&args.tier, args.seed, args.shard, args.nshards, args.scale, &mut stats),
        p => {
            eprintln!("unknown property {p}");
            std::process::exit(2);
        }
    }
    stats.finish(args.hashfile.as_deref());
}

fn replay(path: &str) {
    let text = std::fs::read_to_string(path).expect("read replay file");
    let j = JParser::parse(&text).expect("replay json");
    let prop = j.str_of("prop");
    let case = j.get("case").cloned().unwrap_or(J::Null);
    let mut stats = Stats::new(&prop);
    let mut rng = Rng::new(1);
    let input = case.str_of("input");
    match prop.as_str() {
        "C01" => mon_a::check_c01(&input, &mut stats, &mut rng),
        "C02" => mon_a::check_c02(&input, &mut stats),
        "C10" => mon_a::check_c10(&input, &mut stats),
        "C12" => mon_b::check_c12(&input, &mut stats),
        "C14" => mon_b::check_c14(&input, &mut stats),
        "C17" => {
            let mut b = 1;
            mon_b::check_c17(&input, &mut stats, &mut rng, &mut b)
        }
        "C03" => mon_c::replay_c03(&case, &mut stats),
        "C06" => mon_c::replay_c06(&case, &mut stats),
        "C04" => mon_d::replay_c04(&case, &mut stats),
        "C11" => mon_j::replay_c11(&case, &mut stats),
        "C15" => mon_i::replay_c15(&case, &mut stats),
        "C16" => mon_i::replay_c16(&case, &mut stats),
        "C18" => mon_i::replay_c18(&case, &mut stats),
        "C20" => mon_h::replay_c20(&case, &mut stats),
        "C09" => mon_g::replay_c09(&case, &mut stats),
        "C13" => mon_g::replay_c13(&case, &mut stats),
        "C08" => mon_f::replay_c08(&case, &mut stats),
        "C07" => mon_e::check_c07(&input, &mut stats),
        "C19" => mon_e::check_c19(&input, &mut stats, &mut rng),
        "C05" => mon_d::replay_c05(&case, &mut stats),
        p => {
            eprintln!("replay: unknown property {p}");
            std::process::exit(2);
        }
    }
    stats.finish(None);
    let want = j.str_of("sig");
    let hit = stats.viol_sigs.contains_key(&want);
    eprintln!("replay: expected signature {want} {}", if hit { "REPRODUCED" } else { "not reproduced" });
    std::process::exit(if stats.viol_sigs.is_empty() { 0 } else { 1 });
}

fn distinct(files: &[String]) {
    let mut all: Vec<u64> = Vec::new();
    for f in files {
        if let Ok(b) = std::fs::read(f) {
            for c in b.chunks_exact(8) {
                all.push(u64::from_le_bytes(c.try_into().unwrap()));
            }
        }
    }
    all.sort_unstable();
    all.dedup();
    println!("{}", all.len());
}

fn main() {
    util::install_panic_hook();
    let a: Vec<String> = std::env::args().skip(1).collect();
    if a.is_empty() {
        eprintln!("usage: vmon run <PROP> [--tier T --seed S --shard I --nshards N] | replay <file> | distinct <files>");
        std::process::exit(2);
    }
    match a[0].as_str() {
        "run" => {
            let args = parse_args(&a[1..]);
            // C11 does its work in child processes (each with its own time limit): the in-worker
            // no-progress watchdog is only a last resort there
            util::start_watchdog(if args.prop == "C11" { 1800 } else { 60 });
            run(&args)
        }
        "replay" => replay(&a[1]),
        "distinct" => distinct(&a[1..]),
        // liveness self-test of the sanitizer build: a deliberate heap read one element past an
        // allocation. Under AddressSanitizer the process dies with a report; a plain build prints a line.
        "sanitizer-selftest" => {
            let v: Vec<u8> = std::hint::black_box(vec![1u8; 24]);
            let p = v.as_ptr();
            let x = unsafe { std::ptr::read_volatile(p.add(std::hint::black_box(24))) };
            println!("no sanitizer report (read {x})");
        }
        "c11child" => mon_j::child(&a[1], a[2].parse().unwrap_or(1), &a[3]),
        "events" => {
            use std::io::Read;
            let mut s = String::new();
            if a.len() > 1 { s = a[1].clone(); } else { std::io::stdin().read_to_string(&mut s).unwrap(); }
            let p = events::parse_str(&s);
            for (e, sp) in &p.events {
                println!("{}   @{}", e.line(), events::fmt_span(sp));
            }
            if let Some(e) = &p.error {
                println!("ERROR: {}", e.display);
            }
        }
        _ => {
            eprintln!("unknown command");
            std::process::exit(2);
        }
    }
}
