//! Shared utilities: PRNG, JSON value (writer + reader), worker output protocol, panic capture.

use std::cell::RefCell;
use std::collections::{BTreeMap, BTreeSet, HashSet};
use std::fmt::Write as _;
use std::io::Write as _;
use std::panic::{self, AssertUnwindSafe};

// ------------------------------------------------------------------------------------------------
// PRNG (splitmix64 seeding + xoshiro256**)
// ------------------------------------------------------------------------------------------------

#[derive(Clone)]
pub struct Rng {
    s: [u64; 4],
}

fn splitmix(x: &mut u64) -> u64 {
    *x = x.wrapping_add(0x9E37_79B9_7F4A_7C15);
    let mut z = *x;
    z = (z ^ (z >> 30)).wrapping_mul(0xBF58_476D_1CE4_E5B9);
    z = (z ^ (z >> 27)).wrapping_mul(0x94D0_49BB_1331_11EB);
    z ^ (z >> 31)
}

impl Rng {
    pub fn new(seed: u64) -> Self {
        let mut x = seed;
        Rng {
            s: [splitmix(&mut x), splitmix(&mut x), splitmix(&mut x), splitmix(&mut x)],
        }
    }
    /// Independent stream for (seed, a, b).
    pub fn derive(seed: u64, a: u64, b: u64) -> Self {
        let mut x = seed ^ a.wrapping_mul(0xA24B_AED4_963E_E407) ^ b.wrapping_mul(0x9FB2_1C65_1E98_DF25);
        let _ = splitmix(&mut x);
        Rng::new(x)
    }
    pub fn next(&mut self) -> u64 {
        let r = self.s[1].wrapping_mul(5).rotate_left(7).wrapping_mul(9);
        let t = self.s[1] << 17;
        self.s[2] ^= self.s[0];
        self.s[3] ^= self.s[1];
        self.s[1] ^= self.s[2];
        self.s[0] ^= self.s[3];
        self.s[2] ^= t;
        self.s[3] = self.s[3].rotate_left(45);
        r
    }
    /// Uniform in 0..n (n > 0).
    pub fn below(&mut self, n: usize) -> usize {
        (self.next() % (n as u64)) as usize
    }
    /// Uniform in lo..=hi.
    pub fn range(&mut self, lo: usize, hi: usize) -> usize {
        lo + self.below(hi - lo + 1)
    }
    pub fn chance(&mut self, num: usize, den: usize) -> bool {
        self.below(den) < num
    }
    pub fn pick<T: Copy>(&mut self, xs: &[T]) -> T {
        xs[self.below(xs.len())]
    }
    pub fn f64(&mut self) -> f64 {
        (self.next() >> 11) as f64 / (1u64 << 53) as f64
    }
}

pub fn fnv64(bytes: &[u8]) -> u64 {
    let mut h: u64 = 0xcbf2_9ce4_8422_2325;
    for b in bytes {
        h ^= u64::from(*b);
        h = h.wrapping_mul(0x0100_0000_01b3);
    }
    // final avalanche so that low bits are usable
    h ^= h >> 32;
    h = h.wrapping_mul(0x9E37_79B9_7F4A_7C15);
    h ^ (h >> 29)
}

// ------------------------------------------------------------------------------------------------
// JSON
// ------------------------------------------------------------------------------------------------

#[derive(Clone, Debug, PartialEq)]
pub enum J {
    Null,
    Bool(bool),
    Int(i64),
    Float(f64),
    Str(String),
    Arr(Vec<J>),
    Obj(Vec<(String, J)>),
}

impl J {
    pub fn s(x: &str) -> J {
        J::Str(x.to_string())
    }
    pub fn obj(kv: Vec<(&str, J)>) -> J {
        J::Obj(kv.into_iter().map(|(k, v)| (k.to_string(), v)).collect())
    }
    pub fn get(&self, k: &str) -> Option<&J> {
        match self {
            J::Obj(kv) => kv.iter().find(|(kk, _)| kk == k).map(|(_, v)| v),
            _ => None,
        }
    }
    pub fn as_str(&self) -> Option<&str> {
        match self {
            J::Str(s) => Some(s),
            _ => None,
        }
    }
    pub fn as_i64(&self) -> Option<i64> {
        match self {
            J::Int(i) => Some(*i),
            _ => None,
        }
    }
    pub fn as_bool(&self) -> Option<bool> {
        match self {
            J::Bool(b) => Some(*b),
            _ => None,
        }
    }
    pub fn as_arr(&self) -> Option<&[J]> {
        match self {
            J::Arr(a) => Some(a),
            _ => None,
        }
    }
    pub fn str_of(&self, k: &str) -> String {
        self.get(k).and_then(J::as_str).unwrap_or("").to_string()
    }
    pub fn int_of(&self, k: &str) -> i64 {
        self.get(k).and_then(J::as_i64).unwrap_or(0)
    }

    pub fn write(&self, out: &mut String) {
        match self {
            J::Null => out.push_str("null"),
            J::Bool(b) => out.push_str(if *b { "true" } else { "false" }),
            J::Int(i) => {
                let _ = write!(out, "{i}");
            }
            J::Float(f) => {
                if f.is_finite() {
                    let _ = write!(out, "{f:?}");
                } else {
                    // not representable in JSON: encode as string
                    let _ = write!(out, "\"{f}\"");
                }
            }
            J::Str(s) => write_json_str(s, out),
            J::Arr(a) => {
                out.push('[');
                for (i, x) in a.iter().enumerate() {
                    if i > 0 {
                        out.push(',');
                    }
                    x.write(out);
                }
                out.push(']');
            }
            J::Obj(kv) => {
                out.push('{');
                for (i, (k, v)) in kv.iter().enumerate() {
                    if i > 0 {
                        out.push(',');
                    }
                    write_json_str(k, out);
                    out.push(':');
                    v.write(out);
                }
                out.push('}');
            }
        }
    }
    pub fn to_string(&self) -> String {
        let mut s = String::new();
        self.write(&mut s);
        s
    }
}

pub fn write_json_str(s: &str, out: &mut String) {
    out.push('"');
    for c in s.chars() {
        match c {
            '"' => out.push_str("\\\""),
            '\\' => out.push_str("\\\\"),
            '\n' => out.push_str("\\n"),
            '\r' => out.push_str("\\r"),
            '\t' => out.push_str("\\t"),
            c if (c as u32) < 0x20 || c == '\u{7f}' || c == '\u{2028}' || c == '\u{2029}' => {
                let _ = write!(out, "\\u{:04x}", c as u32);
            }
            c if (c as u32) > 0xFFFF => {
                let v = c as u32 - 0x10000;
                let _ = write!(out, "\\u{:04x}\\u{:04x}", 0xD800 + (v >> 10), 0xDC00 + (v & 0x3FF));
            }
            c => out.push(c),
        }
    }
    out.push('"');
}

pub struct JParser<'a> {
    b: &'a [u8],
    i: usize,
}

impl<'a> JParser<'a> {
    pub fn parse(s: &'a str) -> Result<J, String> {
        let mut p = JParser { b: s.as_bytes(), i: 0 };
        p.ws();
        let v = p.value()?;
        p.ws();
        if p.i != p.b.len() {
            return Err(format!("trailing data at {}", p.i));
        }
        Ok(v)
    }
    /// Parse a concatenation of JSON values separated by whitespace.
    pub fn parse_stream(s: &'a str) -> Result<Vec<J>, String> {
        let mut p = JParser { b: s.as_bytes(), i: 0 };
        let mut out = vec![];
        loop {
            p.ws();
            if p.i >= p.b.len() {
                return Ok(out);
            }
            out.push(p.value()?);
        }
    }
    fn ws(&mut self) {
        while self.i < self.b.len() && matches!(self.b[self.i], b' ' | b'\n' | b'\r' | b'\t') {
            self.i += 1;
        }
    }
    fn value(&mut self) -> Result<J, String> {
        if self.i >= self.b.len() {
            return Err("eof".into());
        }
        match self.b[self.i] {
            b'n' => self.lit("null", J::Null),
            b't' => self.lit("true", J::Bool(true)),
            b'f' => self.lit("false", J::Bool(false)),
            b'"' => Ok(J::Str(self.string()?)),
            b'[' => {
                self.i += 1;
                let mut a = vec![];
                self.ws();
                if self.b.get(self.i) == Some(&b']') {
                    self.i += 1;
                    return Ok(J::Arr(a));
                }
                loop {
                    self.ws();
                    a.push(self.value()?);
                    self.ws();
                    match self.b.get(self.i) {
                        Some(b',') => self.i += 1,
                        Some(b']') => {
                            self.i += 1;
                            return Ok(J::Arr(a));
                        }
                        _ => return Err(format!("bad array at {}", self.i)),
                    }
                }
            }
            b'{' => {
                self.i += 1;
                let mut kv = vec![];
                self.ws();
                if self.b.get(self.i) == Some(&b'}') {
                    self.i += 1;
                    return Ok(J::Obj(kv));
                }
                loop {
                    self.ws();
                    let k = self.string()?;
                    self.ws();
                    if self.b.get(self.i) != Some(&b':') {
                        return Err(format!("expected : at {}", self.i));
                    }
                    self.i += 1;
                    self.ws();
                    let v = self.value()?;
                    kv.push((k, v));
                    self.ws();
                    match self.b.get(self.i) {
                        Some(b',') => self.i += 1,
                        Some(b'}') => {
                            self.i += 1;
                            return Ok(J::Obj(kv));
                        }
                        _ => return Err(format!("bad object at {}", self.i)),
                    }
                }
            }
            _ => self.number(),
        }
    }
    fn lit(&mut self, w: &str, v: J) -> Result<J, String> {
        if self.b[self.i..].starts_with(w.as_bytes()) {
            self.i += w.len();
            Ok(v)
        } else {
            Err(format!("bad literal at {}", self.i))
        }
    }
    fn number(&mut self) -> Result<J, String> {
        let st = self.i;
        while self.i < self.b.len() && matches!(self.b[self.i], b'0'..=b'9' | b'-' | b'+' | b'.' | b'e' | b'E') {
            self.i += 1;
        }
        let t = std::str::from_utf8(&self.b[st..self.i]).unwrap();
        if let Ok(i) = t.parse::<i64>() {
            Ok(J::Int(i))
        } else if let Ok(f) = t.parse::<f64>() {
            Ok(J::Float(f))
        } else {
            Err(format!("bad number {t:?} at {st}"))
        }
    }
    fn string(&mut self) -> Result<String, String> {
        if self.b.get(self.i) != Some(&b'"') {
            return Err(format!("expected string at {}", self.i));
        }
        self.i += 1;
        let mut out = String::new();
        loop {
            let Some(&c) = self.b.get(self.i) else { return Err("eof in string".into()) };
            match c {
                b'"' => {
                    self.i += 1;
                    return Ok(out);
                }
                b'\\' => {
                    self.i += 1;
                    let e = *self.b.get(self.i).ok_or("eof in escape")?;
                    self.i += 1;
                    match e {
                        b'n' => out.push('\n'),
                        b'r' => out.push('\r'),
                        b't' => out.push('\t'),
                        b'b' => out.push('\u{8}'),
                        b'f' => out.push('\u{c}'),
                        b'/' => out.push('/'),
                        b'\\' => out.push('\\'),
                        b'"' => out.push('"'),
                        b'u' => {
                            let h = self.hex4()?;
                            if (0xD800..0xDC00).contains(&h) {
                                if self.b.get(self.i) == Some(&b'\\') && self.b.get(self.i + 1) == Some(&b'u') {
                                    self.i += 2;
                                    let l = self.hex4()?;
                                    let cp = 0x10000 + ((h - 0xD800) << 10) + (l.wrapping_sub(0xDC00) & 0x3FF);
                                    out.push(char::from_u32(cp).ok_or("bad surrogate")?);
                                } else {
                                    return Err("lone surrogate".into());
                                }
                            } else {
                                out.push(char::from_u32(h).ok_or("bad \\u")?);
                            }
                        }
                        _ => return Err("bad escape".into()),
                    }
                }
                _ => {
                    // copy one UTF-8 char
                    let s = std::str::from_utf8(&self.b[self.i..]).map_err(|e| e.to_string())?;
                    let ch = s.chars().next().unwrap();
                    out.push(ch);
                    self.i += ch.len_utf8();
                }
            }
        }
    }
    fn hex4(&mut self) -> Result<u32, String> {
        if self.i + 4 > self.b.len() {
            return Err("eof in \\u".into());
        }
        let t = std::str::from_utf8(&self.b[self.i..self.i + 4]).map_err(|e| e.to_string())?;
        self.i += 4;
        u32::from_str_radix(t, 16).map_err(|e| e.to_string())
    }
}

// ------------------------------------------------------------------------------------------------
// Worker output protocol and statistics
// ------------------------------------------------------------------------------------------------

pub struct Violation {
    pub sig: String,
    pub msg: String,
    pub case: J,
}

/// Statistics accumulated by one worker and printed at the end as JSON lines on stdout.
#[derive(Default)]
pub struct Stats {
    pub prop: String,
    pub counters: BTreeMap<String, u64>,
    pub maxes: BTreeMap<String, u64>,
    pub sets: BTreeMap<String, BTreeSet<String>>,
    pub samples: Vec<J>,
    pub hashes: HashSet<u64>,
    pub viol_sigs: BTreeMap<String, u64>,
    pub evaluations: u64,
    pub set_cap: usize,
    pub exhaustive_parts: BTreeSet<String>,
}

impl Stats {
    pub fn new(prop: &str) -> Self {
        Stats { prop: prop.to_string(), set_cap: 4000, ..Default::default() }
    }
    pub fn cnt(&mut self, k: &str, n: u64) {
        *self.counters.entry(k.to_string()).or_insert(0) += n;
    }
    pub fn max(&mut self, k: &str, v: u64) {
        let e = self.maxes.entry(k.to_string()).or_insert(0);
        if v > *e {
            *e = v;
        }
    }
    pub fn set(&mut self, k: &str, v: &str) {
        let cap = self.set_cap;
        let e = self.sets.entry(k.to_string()).or_default();
        if e.len() < cap {
            e.insert(v.to_string());
        }
    }
    pub fn sample(&mut self, v: J) {
        if self.samples.len() < 6 {
            self.samples.push(v);
        }
    }
    pub fn want_sample(&self) -> bool {
        self.samples.len() < 6
    }
    /// Count one executed case; `nontrivial` carries the canonical encoding if the case is non-trivial.
    pub fn eval(&mut self, nontrivial: Option<&[u8]>) {
        self.evaluations += 1;
        CASE_SEQ.fetch_add(1, std::sync::atomic::Ordering::Relaxed);
        if let Some(b) = nontrivial {
            self.hashes.insert(fnv64(b));
        }
    }
    pub fn violation(&mut self, v: Violation) {
        let n = self.viol_sigs.entry(v.sig.clone()).or_insert(0);
        *n += 1;
        if *n <= 3 {
            let j = J::obj(vec![
                ("t", J::s("viol")),
                ("prop", J::s(&self.prop)),
                ("sig", J::s(&v.sig)),
                ("msg", J::s(&v.msg)),
                ("case", v.case),
            ]);
            emit_line(&j);
        }
    }
    pub fn finish(&self, hash_file: Option<&str>) {
        for (k, v) in &self.counters {
            emit_line(&J::obj(vec![("t", J::s("cnt")), ("k", J::s(k)), ("v", J::Int(*v as i64))]));
        }
        for (k, v) in &self.maxes {
            emit_line(&J::obj(vec![("t", J::s("max")), ("k", J::s(k)), ("v", J::Int(*v as i64))]));
        }
        for (k, v) in &self.sets {
            emit_line(&J::obj(vec![
                ("t", J::s("set")),
                ("k", J::s(k)),
                ("v", J::Arr(v.iter().map(|s| J::s(s)).collect())),
            ]));
        }
        for s in &self.samples {
            emit_line(&J::obj(vec![("t", J::s("sample")), ("v", s.clone())]));
        }
        for (k, v) in &self.viol_sigs {
            emit_line(&J::obj(vec![("t", J::s("violcount")), ("sig", J::s(k)), ("v", J::Int(*v as i64))]));
        }
        for p in &self.exhaustive_parts {
            emit_line(&J::obj(vec![("t", J::s("exhaustive")), ("k", J::s(p))]));
        }
        if let Some(f) = hash_file {
            let mut v: Vec<u64> = self.hashes.iter().copied().collect();
            v.sort_unstable();
            let mut bytes = Vec::with_capacity(v.len() * 8);
            for h in v {
                bytes.extend_from_slice(&h.to_le_bytes());
            }
            std::fs::write(f, bytes).expect("write hash file");
        }
        emit_line(&J::obj(vec![
            ("t", J::s("done")),
            ("evaluations", J::Int(self.evaluations as i64)),
            ("distinct_local", J::Int(self.hashes.len() as i64)),
        ]));
    }
}

pub fn emit_line(j: &J) {
    let mut s = j.to_string();
    s.push('\n');
    let out = std::io::stdout();
    let mut l = out.lock();
    let _ = l.write_all(s.as_bytes());
}

pub fn emit_progress(i: u64) {
    CASE_SEQ.fetch_add(1, std::sync::atomic::Ordering::Relaxed);
    emit_line(&J::obj(vec![("t", J::s("prog")), ("i", J::Int(i as i64))]));
    let _ = std::io::stdout().flush();
}

// ------------------------------------------------------------------------------------------------
// Panic capture
// ------------------------------------------------------------------------------------------------

thread_local! {
    static LAST_PANIC: RefCell<Option<String>> = const { RefCell::new(None) };
    static QUIET: RefCell<bool> = const { RefCell::new(false) };
}

pub fn install_panic_hook() {
    panic::set_hook(Box::new(|info| {
        let loc = info.location().map(|l| format!("{}:{}", l.file(), l.line())).unwrap_or_default();
        let msg = if let Some(s) = info.payload().downcast_ref::<&str>() {
            (*s).to_string()
        } else if let Some(s) = info.payload().downcast_ref::<String>() {
            s.clone()
        } else {
            "<non-string panic payload>".to_string()
        };
        let quiet = QUIET.with(|q| *q.borrow());
        if !quiet {
            eprintln!("panic (uncaught context) at {loc}: {msg}");
        }
        LAST_PANIC.with(|p| *p.borrow_mut() = Some(format!("{msg} @ {loc}")));
    }));
}

/// Run `f`, returning Err("message @ file:line") if it panicked.
pub fn catch<R>(f: impl FnOnce() -> R) -> Result<R, String> {
    QUIET.with(|q| *q.borrow_mut() = true);
    LAST_PANIC.with(|p| *p.borrow_mut() = None);
    let r = panic::catch_unwind(AssertUnwindSafe(f));
    QUIET.with(|q| *q.borrow_mut() = false);
    match r {
        Ok(v) => Ok(v),
        Err(_) => Err(LAST_PANIC.with(|p| p.borrow_mut().take()).unwrap_or_else(|| "<unknown panic>".to_string())),
    }
}

/// Strip the repo path prefix and line numbers from a panic location, giving a stable site id.
pub fn panic_site(msg: &str) -> String {
    // "message @ /repo/parser/src/scanner.rs:123" -> "parser/src/scanner.rs"
    match msg.rfind(" @ ") {
        Some(i) => {
            let loc = &msg[i + 3..];
            let loc = loc.rsplit_once(':').map_or(loc, |x| x.0);
            let loc = loc.strip_prefix("/repo/").unwrap_or(loc);
            // dependency sources: keep "<crate>-<version>/src/file.rs"
            if let Some(k) = loc.find("/registry/src/") {
                let rest = &loc[k + "/registry/src/".len()..];
                return rest.split_once('/').map_or(rest, |x| x.1).to_string();
            }
            loc.to_string()
        }
        None => "?".to_string(),
    }
}

pub fn visible(s: &str) -> String {
    let mut o = String::new();
    for c in s.chars().take(400) {
        match c {
            '\n' => o.push_str("\\n"),
            '\r' => o.push_str("\\r"),
            '\t' => o.push_str("\\t"),
            '\0' => o.push_str("\\0"),
            c if (c as u32) < 0x20 => {
                let _ = write!(o, "\\x{:02x}", c as u32);
            }
            c => o.push(c),
        }
    }
    o
}

// ------------------------------------------------------------------------------------------------
// Watchdog: the case being executed, and a thread that aborts the process when one case runs too long
// ------------------------------------------------------------------------------------------------

static CURRENT_CASE: std::sync::Mutex<(u64, String)> = std::sync::Mutex::new((0, String::new()));
static CASE_SEQ: std::sync::atomic::AtomicU64 = std::sync::atomic::AtomicU64::new(0);

/// Remember the input about to be handed to the library (for the watchdog's report).
pub fn set_current_case(s: &str) {
    let seq = CASE_SEQ.fetch_add(1, std::sync::atomic::Ordering::Relaxed) + 1;
    if let Ok(mut g) = CURRENT_CASE.lock() {
        g.0 = seq;
        g.1.clear();
        // keep at most 64 KiB of the input
        let cut = s.char_indices().nth(16384).map_or(s.len(), |x| x.0);
        g.1.push_str(&s[..cut]);
    }
}

/// Start the wall-clock watchdog: if the same case is still running after `secs` seconds, print
/// it on stderr (`WATCHDOG {json}`) and abort. Its firing is classified by the driver.
pub fn start_watchdog(secs: u64) {
    std::thread::spawn(move || {
        let mut last_seq = 0u64;
        let mut since = std::time::Instant::now();
        loop {
            std::thread::sleep(std::time::Duration::from_millis(500));
            let seq = CASE_SEQ.load(std::sync::atomic::Ordering::Relaxed);
            if seq != last_seq {
                last_seq = seq;
                since = std::time::Instant::now();
            } else if seq != 0 && since.elapsed().as_secs() >= secs {
                let case = CURRENT_CASE.lock().map(|g| g.1.clone()).unwrap_or_default();
                eprintln!("WATCHDOG {}", J::obj(vec![("input", J::s(&case)), ("seconds", J::Int(secs as i64))]).to_string());
                std::process::abort();
            }
        }
    });
}
