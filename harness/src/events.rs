//! Owned event representation, parse runners over all back-ends, and formatting helpers.

use crate::inputs::{BreachLog, ChunkInput, CountingInput};
use crate::util::J;
use saphyr_parser::{
    BufferedInput, Event, Input, Marker, Parser, ScalarStyle, ScanError, Span, SpannedEventReceiver, StrInput,
};
use std::cell::{Cell, RefCell};
use std::fmt::Write as _;
use std::rc::Rc;

#[derive(Clone, Debug, PartialEq, Eq, Hash)]
pub enum SEv {
    Nothing,
    StreamStart,
    StreamEnd,
    DocStart(bool),
    DocEnd,
    Alias(usize),
    Scalar { v: String, style: ScalarStyle, aid: usize, tag: Option<(String, String)> },
    SeqStart { aid: usize, tag: Option<(String, String)> },
    SeqEnd,
    MapStart { aid: usize, tag: Option<(String, String)> },
    MapEnd,
}

#[derive(Clone, Copy, Debug, PartialEq, Eq, Hash)]
pub struct Pos {
    pub index: usize,
    pub line: usize,
    pub col: usize,
}

#[derive(Clone, Copy, Debug, PartialEq, Eq, Hash)]
pub struct SSpan {
    pub start: Pos,
    pub end: Pos,
}

pub fn pos(m: &Marker) -> Pos {
    Pos { index: m.index(), line: m.line(), col: m.col() }
}
pub fn sspan(s: &Span) -> SSpan {
    SSpan { start: pos(&s.start), end: pos(&s.end) }
}

#[derive(Clone, Debug, PartialEq, Eq)]
pub struct SErr {
    pub info: String,
    pub at: Pos,
    pub display: String,
}

pub fn serr(e: &ScanError) -> SErr {
    SErr { info: e.info().to_string(), at: pos(e.marker()), display: e.to_string() }
}

pub fn sev(e: &Event<'_>) -> SEv {
    let t = |t: &Option<saphyr_parser::Tag>| t.as_ref().map(|t| (t.handle.clone(), t.suffix.clone()));
    match e {
        Event::Nothing => SEv::Nothing,
        Event::StreamStart => SEv::StreamStart,
        Event::StreamEnd => SEv::StreamEnd,
        Event::DocumentStart(b) => SEv::DocStart(*b),
        Event::DocumentEnd => SEv::DocEnd,
        Event::Alias(i) => SEv::Alias(*i),
        Event::Scalar(v, style, aid, tag) => SEv::Scalar { v: v.to_string(), style: *style, aid: *aid, tag: t(tag) },
        Event::SequenceStart(aid, tag) => SEv::SeqStart { aid: *aid, tag: t(tag) },
        Event::SequenceEnd => SEv::SeqEnd,
        Event::MappingStart(aid, tag) => SEv::MapStart { aid: *aid, tag: t(tag) },
        Event::MappingEnd => SEv::MapEnd,
    }
}

impl SEv {
    pub fn kind(&self) -> &'static str {
        match self {
            SEv::Nothing => "NOTHING",
            SEv::StreamStart => "+STR",
            SEv::StreamEnd => "-STR",
            SEv::DocStart(_) => "+DOC",
            SEv::DocEnd => "-DOC",
            SEv::Alias(_) => "=ALI",
            SEv::Scalar { .. } => "=VAL",
            SEv::SeqStart { .. } => "+SEQ",
            SEv::SeqEnd => "-SEQ",
            SEv::MapStart { .. } => "+MAP",
            SEv::MapEnd => "-MAP",
        }
    }
    /// yaml-test-suite style line (anchor ids as numbers).
    pub fn line(&self) -> String {
        fn props(aid: usize, tag: &Option<(String, String)>) -> String {
            let mut s = String::new();
            if aid > 0 {
                let _ = write!(s, " &{aid}");
            }
            if let Some((h, x)) = tag {
                let _ = write!(s, " <{h}{x}>");
            }
            s
        }
        match self {
            SEv::Scalar { v, style, aid, tag } => {
                let k = style_char(*style);
                format!("=VAL{} {k}{}", props(*aid, tag), escape_text(v))
            }
            SEv::SeqStart { aid, tag } => format!("+SEQ{}", props(*aid, tag)),
            SEv::MapStart { aid, tag } => format!("+MAP{}", props(*aid, tag)),
            SEv::Alias(i) => format!("=ALI *{i}"),
            SEv::DocStart(b) => format!("+DOC{}", if *b { " ---" } else { "" }),
            other => other.kind().to_string(),
        }
    }
    /// Line with the explicit-document flag dropped.
    pub fn line_nodoc(&self) -> String {
        match self {
            SEv::DocStart(_) => "+DOC".to_string(),
            o => o.line(),
        }
    }
}

pub fn style_char(s: ScalarStyle) -> char {
    match s {
        ScalarStyle::Plain => ':',
        ScalarStyle::SingleQuoted => '\'',
        ScalarStyle::DoubleQuoted => '"',
        ScalarStyle::Literal => '|',
        ScalarStyle::Folded => '>',
    }
}

pub fn escape_text(text: &str) -> String {
    let mut o = String::new();
    for c in text.chars() {
        match c {
            '\\' => o.push_str("\\\\"),
            '\n' => o.push_str("\\n"),
            '\r' => o.push_str("\\r"),
            '\u{8}' => o.push_str("\\b"),
            '\t' => o.push_str("\\t"),
            c => o.push(c),
        }
    }
    o
}

/// Outcome of one parse: events up to the first error (the consumer stops there).
#[derive(Clone, Debug, PartialEq, Eq)]
pub struct Parsed {
    pub events: Vec<(SEv, SSpan)>,
    pub error: Option<SErr>,
    /// true if the event cap was hit (neither error nor StreamEnd): a work-bound observation
    pub capped: bool,
}

impl Parsed {
    pub fn ok(&self) -> bool {
        self.error.is_none() && !self.capped
    }
    pub fn lines(&self) -> Vec<String> {
        self.events.iter().map(|e| e.0.line()).collect()
    }
    pub fn to_json(&self) -> J {
        J::obj(vec![
            ("events", J::Arr(self.events.iter().map(|(e, s)| J::s(&format!("{} @{}", e.line(), fmt_span(s)))).collect())),
            ("error", self.error.as_ref().map_or(J::Null, |e| J::s(&e.display))),
        ])
    }
}

pub fn fmt_span(s: &SSpan) -> String {
    format!("{}:{}:{}-{}:{}:{}", s.start.index, s.start.line, s.start.col, s.end.index, s.end.line, s.end.col)
}

/// Pull events from a parser until StreamEnd, first error, or `cap` events.
pub fn pull_all<'a, T: Input>(p: &mut Parser<'a, T>, cap: usize) -> Parsed {
    let mut events = Vec::new();
    loop {
        if events.len() >= cap {
            return Parsed { events, error: None, capped: true };
        }
        match p.next_event() {
            None => return Parsed { events, error: None, capped: false },
            Some(Ok((ev, span))) => {
                events.push((sev(&ev), sspan(&span)));
            }
            Some(Err(e)) => return Parsed { events, error: Some(serr(&e)), capped: false },
        }
    }
}

#[derive(Clone, Copy, Debug, PartialEq, Eq, Hash)]
pub enum Backend {
    Str,
    Buffered,
    Chunk8,
    Chunk9,
    Chunk16,
    Chunk17,
    Chunk64,
    Chunk128,
}

pub const ALL_BACKENDS: [Backend; 8] = [
    Backend::Str,
    Backend::Buffered,
    Backend::Chunk8,
    Backend::Chunk9,
    Backend::Chunk16,
    Backend::Chunk17,
    Backend::Chunk64,
    Backend::Chunk128,
];

impl Backend {
    pub fn name(self) -> &'static str {
        match self {
            Backend::Str => "StrInput",
            Backend::Buffered => "BufferedInput",
            Backend::Chunk8 => "ChunkInput<8>",
            Backend::Chunk9 => "ChunkInput<9>",
            Backend::Chunk16 => "ChunkInput<16>",
            Backend::Chunk17 => "ChunkInput<17>",
            Backend::Chunk64 => "ChunkInput<64>",
            Backend::Chunk128 => "ChunkInput<128>",
        }
    }
    pub fn from_name(n: &str) -> Option<Backend> {
        ALL_BACKENDS.iter().copied().find(|b| b.name() == n)
    }
}

/// Result of running one input through one back-end under the work counter.
pub struct Run {
    pub parsed: Parsed,
    pub ops: u64,
    pub breaches: Vec<String>,
}

/// Parse `s` with back-end `b` by plain iteration; `bound` is the input-operation bound (panics
/// with WORK_BOUND_MSG above it), `cap` the event cap.
pub fn run_backend(s: &str, b: Backend, bound: u64, cap: usize) -> Run {
    let ops = Rc::new(Cell::new(0u64));
    let breaches: BreachLog = Rc::new(RefCell::new(Vec::new()));
    macro_rules! chunk {
        ($n:literal) => {{
            let mut p = Parser::new(CountingInput::new(ChunkInput::<$n>::new(s, breaches.clone()), ops.clone(), bound));
            pull_all(&mut p, cap)
        }};
    }
    let parsed = match b {
        Backend::Str => {
            let mut p = Parser::new(CountingInput::new(StrInput::new(s), ops.clone(), bound));
            pull_all(&mut p, cap)
        }
        Backend::Buffered => {
            let mut p = Parser::new(CountingInput::new(BufferedInput::new(s.chars()), ops.clone(), bound));
            pull_all(&mut p, cap)
        }
        Backend::Chunk8 => chunk!(8),
        Backend::Chunk9 => chunk!(9),
        Backend::Chunk16 => chunk!(16),
        Backend::Chunk17 => chunk!(17),
        Backend::Chunk64 => chunk!(64),
        Backend::Chunk128 => chunk!(128),
    };
    let br = breaches.borrow().clone();
    Run { parsed, ops: ops.get(), breaches: br }
}

/// Generous event cap used by every monitor that is not itself about termination: a parse that
/// delivers more events than this is cut off (`capped`) so that a non-terminating parser cannot
/// take the worker down; reporting it is C01's business.
pub fn safety_cap(s: &str) -> usize {
    64 * (s.len() + 1) + 1024
}

/// Plain parse with the real StrInput, no instrumentation.
pub fn parse_str(s: &str) -> Parsed {
    crate::util::set_current_case(s);
    let mut p = Parser::new_from_str(s);
    pull_all(&mut p, safety_cap(s))
}

pub fn parse_iter(s: &str) -> Parsed {
    let mut p = Parser::new_from_iter(s.chars());
    pull_all(&mut p, safety_cap(s))
}

pub fn parse_str_keep(s: &str, keep_tags: bool) -> Parsed {
    let mut p = Parser::new_from_str(s).keep_tags(keep_tags);
    pull_all(&mut p, safety_cap(s))
}

/// Does pulling events from `s` end (StreamEnd or error) within the safety cap? Loader-level
/// monitors ask this before handing a text to an API that has no cap of its own.
pub fn terminates(s: &str) -> bool {
    crate::util::set_current_case(s);
    let r = crate::util::catch(|| {
        let mut p = Parser::new_from_str(s);
        !pull_all(&mut p, safety_cap(s)).capped
    });
    r.unwrap_or(false)
}

/// Receiver that records events (push interface).
#[derive(Default)]
pub struct Recorder {
    pub events: Vec<(SEv, SSpan)>,
    /// 0 = the default safety cap
    pub cap: usize,
}

impl<'i> SpannedEventReceiver<'i> for Recorder {
    fn on_event(&mut self, ev: Event<'i>, span: Span) {
        self.events.push((sev(&ev), sspan(&span)));
        let cap = if self.cap == 0 { 1 << 22 } else { self.cap };
        if self.events.len() > cap {
            panic!("{}", crate::inputs::WORK_BOUND_MSG);
        }
    }
}

/// Push-interface parse (`load(multi=true)`).
pub fn push_all<'a, T: Input>(p: &mut Parser<'a, T>) -> Parsed {
    push_all_capped(p, 0)
}

pub fn push_all_capped<'a, T: Input>(p: &mut Parser<'a, T>, cap: usize) -> Parsed {
    let mut r = Recorder { events: vec![], cap };
    let res = p.load(&mut r, true);
    Parsed { events: r.events, error: res.err().map(|e| serr(&e)), capped: false }
}

/// The C02 grammar automaton. Feed events one by one; returns Err(description) on the first
/// event the grammar does not allow.
pub struct Grammar {
    state: GState,
    stack: Vec<(bool, usize)>, // (is_mapping, child count)
    pub anchors_seen: std::collections::HashMap<usize, usize>, // id -> document index
    doc_index: usize,
    doc_anchor_ids: std::collections::HashSet<usize>,
    pub max_depth: usize,
}

#[derive(Clone, Copy, PartialEq, Eq, Debug)]
enum GState {
    Start,
    BetweenDocs,
    ExpectRoot,
    InNode,
    ExpectDocEnd,
    Done,
}

impl Grammar {
    pub fn new() -> Self {
        Grammar {
            state: GState::Start,
            stack: vec![],
            anchors_seen: Default::default(),
            doc_index: 0,
            doc_anchor_ids: Default::default(),
            max_depth: 0,
        }
    }
    pub fn complete(&self) -> bool {
        self.state == GState::Done
    }
    fn anchor(&mut self, aid: usize) -> Result<(), String> {
        if aid > 0 {
            if !self.doc_anchor_ids.insert(aid) {
                return Err(format!("anchor id {aid} used by two nodes of one document"));
            }
            self.anchors_seen.entry(aid).or_insert(self.doc_index);
        }
        Ok(())
    }
    fn node_done(&mut self) {
        if let Some(top) = self.stack.last_mut() {
            top.1 += 1;
            self.state = GState::InNode;
        } else {
            self.state = GState::ExpectDocEnd;
        }
    }
    pub fn feed(&mut self, e: &SEv) -> Result<(), String> {
        use GState::*;
        match (self.state, e) {
            (_, SEv::Nothing) => Err("Event::Nothing delivered".into()),
            (Done, e) => Err(format!("{} after StreamEnd", e.kind())),
            (Start, SEv::StreamStart) => {
                self.state = BetweenDocs;
                Ok(())
            }
            (Start, e) => Err(format!("{} before StreamStart", e.kind())),
            (BetweenDocs, SEv::StreamEnd) => {
                self.state = Done;
                Ok(())
            }
            (BetweenDocs, SEv::DocStart(_)) => {
                self.state = ExpectRoot;
                self.doc_anchor_ids.clear();
                Ok(())
            }
            (BetweenDocs, e) => Err(format!("{} where DocumentStart or StreamEnd was expected", e.kind())),
            (ExpectDocEnd, SEv::DocEnd) => {
                self.state = BetweenDocs;
                self.doc_index += 1;
                Ok(())
            }
            (ExpectDocEnd, e) => Err(format!("{} where DocumentEnd was expected (second root node?)", e.kind())),
            (ExpectRoot | InNode, e) => match e {
                SEv::Scalar { aid, .. } => {
                    self.anchor(*aid)?;
                    self.node_done();
                    Ok(())
                }
                SEv::Alias(id) => {
                    if *id == 0 {
                        return Err("Alias with id 0".into());
                    }
                    if !self.anchors_seen.contains_key(id) {
                        return Err(format!("Alias({id}) refers to an id never handed out earlier in the stream"));
                    }
                    self.node_done();
                    Ok(())
                }
                SEv::SeqStart { aid, .. } => {
                    self.anchor(*aid)?;
                    self.stack.push((false, 0));
                    self.max_depth = self.max_depth.max(self.stack.len());
                    self.state = InNode;
                    Ok(())
                }
                SEv::MapStart { aid, .. } => {
                    self.anchor(*aid)?;
                    self.stack.push((true, 0));
                    self.max_depth = self.max_depth.max(self.stack.len());
                    self.state = InNode;
                    Ok(())
                }
                SEv::SeqEnd => match self.stack.pop() {
                    Some((false, _)) => {
                        self.node_done();
                        Ok(())
                    }
                    Some((true, _)) => Err("SequenceEnd closes a mapping".into()),
                    None => Err("SequenceEnd with no open collection".into()),
                },
                SEv::MapEnd => match self.stack.pop() {
                    Some((true, n)) => {
                        if n % 2 != 0 {
                            return Err(format!("MappingEnd after an odd number ({n}) of child nodes"));
                        }
                        self.node_done();
                        Ok(())
                    }
                    Some((false, _)) => Err("MappingEnd closes a sequence".into()),
                    None => Err("MappingEnd with no open collection".into()),
                },
                e => Err(format!("{} inside a document where a node was expected", e.kind())),
            },
        }
    }
}

/// Canonical event lines for model comparison: anchor ids renumbered by first occurrence, the
/// explicit-document flag dropped, tags as prefix+suffix.
pub fn canon_lines(events: &[SEv]) -> Vec<String> {
    let mut map: std::collections::HashMap<usize, usize> = Default::default();
    let mut next = 1usize;
    let mut ren = |aid: usize, map: &mut std::collections::HashMap<usize, usize>| -> usize {
        if aid == 0 {
            return 0;
        }
        // a node event always introduces a fresh canonical id (ids may not repeat, but be robust)
        let id = next;
        next += 1;
        map.insert(aid, id);
        id
    };
    events
        .iter()
        .map(|e| match e {
            SEv::Scalar { v, style, aid, tag } => SEv::Scalar { v: v.clone(), style: *style, aid: ren(*aid, &mut map), tag: tag.clone() }.line(),
            SEv::SeqStart { aid, tag } => SEv::SeqStart { aid: ren(*aid, &mut map), tag: tag.clone() }.line(),
            SEv::MapStart { aid, tag } => SEv::MapStart { aid: ren(*aid, &mut map), tag: tag.clone() }.line(),
            SEv::Alias(id) => match map.get(id) {
                Some(c) => format!("=ALI *{c}"),
                None => format!("=ALI *?{id}"),
            },
            other => other.line_nodoc(),
        })
        .collect()
}

/// Compare expected (model) lines with actual lines. An expected empty plain scalar (`... :` with
/// nothing after the style mark) stands for an omitted node and matches `` or `~`.
pub fn lines_first_diff(expected: &[String], actual: &[String]) -> Option<usize> {
    let n = expected.len().max(actual.len());
    for i in 0..n {
        match (expected.get(i), actual.get(i)) {
            (Some(e), Some(a)) => {
                if e == a {
                    continue;
                }
                if e.starts_with("=VAL") && e.ends_with(" :") && *a == format!("{e}~") {
                    continue;
                }
                return Some(i);
            }
            _ => return Some(i),
        }
    }
    None
}
