//! Input generators G1 (small-scope exhaustive) and G2 (soups, line soups, corpus mutants, long inputs).

use crate::util::Rng;

pub const ALPHA_A: [&str; 18] =
    ["a", "-", ":", "?", "[", "]", "{", "}", ",", "#", "&", "*", "!", "|", "\"", "'", " ", "\n"];
pub const ALPHA_B: [&str; 18] =
    ["a", "-", ":", ">", "[", "%", "{", "\t", ",", "#", "\\", ".", "!", "|", "\"", "é", "\r", "\n"];
// third alphabet biased to structure with digits/indent
pub const ALPHA_C: [&str; 18] =
    ["a", "-", ":", "?", "[", "]", "1", "}", ",", "~", "&", "*", ".", ">", "+", "'", " ", "\n"];

/// Number of strings of length 0..=l over an alphabet of size k.
pub fn g1_count(k: usize, l: usize) -> u64 {
    let mut t = 0u64;
    let mut p = 1u64;
    for _ in 0..=l {
        t += p;
        p *= k as u64;
    }
    t
}

/// The `idx`-th string (length-lexicographic order) of length <= l over `alpha`.
pub fn g1_string(alpha: &[&str], l: usize, mut idx: u64) -> String {
    let k = alpha.len() as u64;
    let mut len = 0usize;
    let mut p = 1u64;
    loop {
        if idx < p {
            break;
        }
        idx -= p;
        p *= k;
        len += 1;
        assert!(len <= l);
    }
    let mut s = String::new();
    let mut digits = Vec::with_capacity(len);
    for _ in 0..len {
        digits.push((idx % k) as usize);
        idx /= k;
    }
    for d in digits.iter().rev() {
        s.push_str(alpha[*d]);
    }
    s
}

pub const TOKENS: &[&str] = &[
    "a", "b", "key", "value", "x y", "1", "-1", "0x1F", "1.5", "~", "null", "true", "é", "中", "😀", "\u{feff}",
    "\u{85}", "\u{2028}", "\u{a0}", "-", "- ", "-\n", "--", "---", "--- ", "---\n", "...", "...\n", "... ", ":", ": ", ":\n",
    "?", "? ", "?\n", ",", ", ", "[", "]", "{", "}", "[]", "{}", "[ ", " ]", "{ ", " }", "#", " #", " # c\n", "#c\n", "&",
    "&a", "&a ", "*a", "*a ", "*", "!", "! ", "!!", "!!str ", "!!int ", "!t ", "!e!t ", "!<t> ", "!<", "|", "|\n", "|-\n",
    "|+\n", "|2\n", "|1-\n", ">", ">\n", ">-\n", ">+\n", ">2\n", "|0\n", "|10\n", "\"", "\"a\"", "\"a b\"", "\"\\n\"",
    "\"\\x41\"", "\"\\u00e9\"", "\"\\U0001F600\"", "\"\\q\"", "\"\\x4\"", "\"\\\n\"", "\"\\", "'", "'a'", "''", "'a''b'",
    "'a\n b'", "\"a\n b\"", "\"a\n\n b\"", " ", "  ", "   ", "    ", "\t", " \t", "\t ", "\n", "\n\n", "\r\n", "\r", "\n ",
    "\n  ", "\n   ", "\n\t", "%", "%YAML 1.2\n", "%YAML 1.1\n", "%TAG ! tag:x,1:\n", "%TAG !e! tag:e,2:\n", "%FOO bar\n",
    "%YAML", "%TAG", "@", "`", "\\", "a: b", "a:b", "a : b", "- a\n", "a:\n", "? a\n: b\n", "k: [", "{a: ", "aaaaaaaaaaaaaaaaaaaa",
    "                  ", "- - - ", "aaaaaaaaaaaaaaa#b", "aaaaaaaaaaaaaaaa#b", "aaaaaaaaaaaaaaaaa#b", "aaaaaaaaaaaaaaa:b", "aaaaaaaaaaaaaaaa: b",
    "aaaaaaaaaaaaaa é#x", "a:\t_b", "a:\t-b", "k:\t1", "_", "_x", ":\t", "-\t", "?\t", "\t_", "\t-", "\t1", "x:\t\tA", "[a:\t_b]", "3.14159265358979323846264338327950288419716939937510582097494459230781640628", "000000000000000000000000000000000000000000000000000000000000000042", "10000000000000000000000000000000000000000000000000000000000000000000000", "-3.14159265358979323846264338327950288419716939937510582097494459230781640628e-10", "0x000000000000000000000000000000000000000000000000000000000000001F", "!a%C3%A9b ", "!%E4%B8%AD ", "!%F0%9F%98%80 ", "!%FF ", "!%C3%28 ", "!%ED%A0%80 ", "!<%C3%A9> ", "\"\\_\\L\\P\\N\"",
    "\"\\UFFFFFFFF\"", "\"\\uD800\"", "%YAML 1234567890.1\n", "%YAML 1.\n", "%YAML x\n", "|+0\n", ">-0\n", "|0+\n", "%TAG !e! tag:%C3%A9,1:\n", "%TAG !e!\n", "%TAG e tag:x\n", "http://aaaaaaaa.bb#cc", "aaaaaaaaaaaaaaaaaaaaaaaaaaaaaaa#b", "aaaaaaaaaaaaaaaaaaaaaaaaaaaaaaaa#b", "aaaaaaaaaaaaaaa,b", "aaaaaaaaaaaaaaaa]b", "a: &x\n", "<<: *a", "\0", "=", "a\\", "%41", "!a%20b ", "0o17", ".inf", "+", "-a", ":a", "?a",
];

pub const LINE_BODIES: &[&str] = &[
    "a", "a: b", "a:", "- a", "-", "- ", "- - a", "- a: b", "? a", ": b", "?", ":", "? - a", ": - b", "[a, b]", "[a,", "b]", "]",
    "{a: b}", "{a: b,", "c: d}", "}", "[", "{", "# c", "a # c", "a#c", "|", "|-", "|+", ">", ">2", "|1", "text", "more text",
    "\"q\"", "\"q", "q\"", "'s'", "'s", "s'", "&a a", "&a", "*a", "*a: b", "&a a: b", "!t a", "!!str", "!!map", "!!seq", "---",
    "--- a", "--- |", "--- >", "...", "... a", "%YAML 1.2", "%TAG ! tag:a,1:", "a: |", "a: >", "- |", "- >-", "a: [", "a: {",
    "a: &x", "a: *x", "a: !t", "a: !t b", "\ta", "a\t: b", "a:\tb", "-\ta", "a: b: c", "a: - b", "- a:", "[a: b]", "[a: b, c]",
    "[? a : b]", "[: b]", "{: b}", "{a}", "{a:}", "{? a}", "\"a\": b", "\"a\":b", "[\"a\":b]", "{\"a\":b}", "'a': b", "a: 'b", "c'",
    "a: \"b", "c\"", "é: 中", "😀", "k:   v", "k :v", "k : v", "", " ", "  ", "\t", "a,b", "a: b, c", "a]", "a}", "- [", "- ]",
    "- {", "- }", "?a", ":a", "-a", "a:b", "a:: b", "::", "- - -", "- ? : ", "? ? a", ": : b",
];

/// Random token soup.
pub fn soup(r: &mut Rng) -> String {
    let n = match r.below(10) {
        0 => r.range(0, 3),
        1..=6 => r.range(2, 12),
        _ => r.range(8, 40),
    };
    let mut s = String::new();
    for _ in 0..n {
        s.push_str(r.pick(TOKENS));
    }
    s
}

/// Line-structured soup: random indentation + random line body.
pub fn line_soup(r: &mut Rng) -> String {
    let n = r.range(1, 9);
    let mut s = String::new();
    let width = r.range(1, 4);
    let mut level: usize = 0;
    let brk = match r.below(12) {
        0 => "\r\n",
        1 => "\r",
        _ => "\n",
    };
    for i in 0..n {
        match r.below(6) {
            0 => level = level.saturating_sub(1),
            1 | 2 => level += 1,
            3 if r.chance(1, 3) => level = 0,
            _ => {}
        }
        if level > 8 {
            level = 8;
        }
        let mut indent = level * width;
        if r.chance(1, 12) {
            indent += 1;
        }
        if r.chance(1, 40) {
            indent = r.range(14, 20);
        }
        if r.chance(1, 60) {
            s.push('\t');
        }
        for _ in 0..indent {
            s.push(' ');
        }
        s.push_str(r.pick(LINE_BODIES));
        if r.chance(1, 10) {
            s.push_str(" # c");
        }
        if i + 1 < n || r.chance(3, 4) {
            s.push_str(brk);
        }
    }
    s
}

/// Mutation of a base document.
pub fn mutate(r: &mut Rng, base: &str) -> String {
    let mut chars: Vec<char> = base.chars().collect();
    let n_mut = r.range(1, 3);
    for _ in 0..n_mut {
        let len = chars.len();
        match r.below(9) {
            0 if len > 0 => {
                // delete a char range
                let a = r.below(len);
                let b = (a + r.range(1, 4)).min(len);
                chars.drain(a..b);
            }
            1 if len > 0 => {
                // duplicate a range
                let a = r.below(len);
                let b = (a + r.range(1, 6)).min(len);
                let seg: Vec<char> = chars[a..b].to_vec();
                let at = r.below(len + 1);
                for (k, c) in seg.into_iter().enumerate() {
                    chars.insert(at + k, c);
                }
            }
            2 => {
                // insert a token
                let at = r.below(len + 1);
                for (k, c) in r.pick(TOKENS).chars().enumerate() {
                    chars.insert(at + k, c);
                }
            }
            3 if len > 1 => {
                // swap two chars
                let a = r.below(len);
                let b = r.below(len);
                chars.swap(a, b);
            }
            4 if len > 0 => {
                // truncate
                let a = r.below(len);
                chars.truncate(a);
            }
            5 => {
                // re-indent a line
                let s: String = chars.iter().collect();
                let mut lines: Vec<String> = s.split('\n').map(str::to_string).collect();
                let li = r.below(lines.len());
                let t = lines[li].trim_start_matches(' ').to_string();
                let ind = r.below(7);
                lines[li] = format!("{}{}", " ".repeat(ind), t);
                chars = lines.join("\n").chars().collect();
            }
            6 if len > 0 => {
                // replace a char by an indicator
                let a = r.below(len);
                let ind = [':', '-', '?', '[', ']', '{', '}', ',', '#', '&', '*', '!', '|', '>', '\'', '"', '%', '\t', ' ', '\n'];
                chars[a] = r.pick(&ind);
            }
            7 => {
                // LF -> CRLF everywhere
                let s: String = chars.iter().collect();
                chars = s.replace('\n', "\r\n").chars().collect();
            }
            _ => {
                // splice with a line body
                let at = r.below(len + 1);
                let mut ins = String::from("\n");
                ins.push_str(r.pick(LINE_BODIES));
                ins.push('\n');
                for (k, c) in ins.chars().enumerate() {
                    chars.insert(at + k, c);
                }
            }
        }
    }
    chars.into_iter().collect()
}

/// A few long inputs for the linear-work monitor. `which` selects the shape, `n` the size.
pub fn long_input(which: usize, n: usize) -> String {
    match which % 14 {
        0 => "a".repeat(n),
        1 => "a ".repeat(n),
        2 => "- a\n".repeat(n),
        3 => "k: v\n".repeat(n),
        4 => format!("[{}]", "a, ".repeat(n)),
        5 => format!("{{{}}}", "a: b, ".repeat(n)),
        6 => {
            let mut s = String::new();
            for i in 0..n.min(3000) {
                s.push_str(&" ".repeat(i));
                s.push_str("- \n");
            }
            s
        }
        7 => format!("|\n{}", " line of text\n".repeat(n)),
        8 => format!(">\n{}", " folded text\n\n".repeat(n)),
        9 => format!("\"{}\"", "word \\n ".repeat(n)),
        10 => format!("'{}'", "it''s\n ".repeat(n)),
        11 => "# comment\n".repeat(n),
        12 => format!("a: {}\n", " ".repeat(n)),
        _ => format!("{}\n", "\n".repeat(n)),
    }
}

/// Base documents taken from the repository's own tests (small selection) used for mutation.
pub const BASE_DOCS: &[&str] = &[
    "a: b\nc:\n  d: e\nf:\n  - g\n  - h\n",
    "- [a, b]\n- {c: d}\n- \"e\\n\"\n- 'f'\n",
    "a0 bb: val\na1: &x\n    b1: 4\n    b2: d\na2: 4\na3: [1, 2, 3]\na4:\n    - [a1, a2]\n    - 2\na5: *x\n",
    "%YAML 1.2\n%TAG !t! tag:test,2024:\n--- !t!1 &1\nfoo: \"bar\"\n--- !t!2 &2\nbaz: \"qux\"\n",
    "---\n? a\n: b\n? - c\n  - d\n: - e\n...\n--- |\n literal\n  text\n\n--- >-\n folded\n text\n",
    "key: |\n  line1\n  line2\nother: >\n  f1\n  f2\n\n  f3\n- x\n",
    "- - a\n  - b\n- - c\n-\n  d: e\n  f: g\n",
    "{a: [b, c], d: {e: f}, g: \"h\", 'i': j, ? k : l, m}\n",
    "plain\n multi line\n  scalar\n",
    "a: \"quoted\n  folded\n\n  text\"\nb: 'single\n  quoted'\n",
    "# comment\na: b # trailing\n\n# another\nc: d\n",
    "[a: b, c, ? d : e, : f, g: ]\n",
    "- &a a\n- *a\n- &b [c]\n- *b\n- ! d\n- !!str e\n- !<tag:yaml.org,2002:int> 1\n",
    "a:\n- b\n- c\nd:\n  - e\n",
    "--- a\n--- b\n...\n--- c\n",
    "\"a\": 1\n\"b\":2\n",
    "{\"a\":1,\"b\":[true,null,1.5e3,\"x\"]}\n",
    "--- &a x\n--- *a\n",
    "&a [b]\n...\n*a\n",
    "%TAG !e! tag:e,1:\n--- !e!t x\n...\n!e!u y\n",
    "[ ? ]\n",
    "[a: {b: c, d: e}, ? : f, : g]\n",
    "- |1-\n  x\n- >+\n\n",
    "k: |\n",
];
