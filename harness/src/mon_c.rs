//! Monitors for C03 (model-rendered streams parse to the denoted tree) and C06 (damaged streams are rejected).

use crate::corpus;
use crate::events::*;
use crate::render::*;
use crate::util::{catch, emit_progress, Rng, Stats, Violation, J};

fn viol(stats: &mut Stats, sig: String, msg: String, case: J) {
    stats.violation(Violation { sig, msg, case });
}

pub fn gen_stream(r: &mut Rng, blocks: bool, tags: bool) -> Rendered {
    let docs = {
        let cfg = GenCfg { max_depth: 1 + r.below(5), max_nodes: 6 + r.below(34), anchors: r.chance(3, 4), tags, blocks };
        let mut g = TreeGen::new(r, cfg);
        g.stream()
    };
    let comments = r.chance(3, 4);
    let tabs = r.chance(1, 2);
    let mut rend = Renderer::new(r);
    rend.comments = comments;
    rend.trailing_tabs = tabs;
    rend.render_stream(&docs, true)
}

/// Parse `text` with both real back-ends and compare with the expected canonical lines.
/// Returns the class of the first disagreement.
pub fn check_against_expected(text: &str, expected: &[String]) -> Result<(), (String, String)> {
    for (cfg, it) in [("StrInput", false), ("BufferedInput", true)] {
        let p = catch(|| if it { parse_iter(text) } else { parse_str(text) }).map_err(|p| ("panic".to_string(), format!("{cfg}: panic {p}")))?;
        if let Some(e) = &p.error {
            let got: Vec<SEv> = p.events.iter().map(|x| x.0.clone()).collect();
            let lines = canon_lines(&got);
            return Err((
                format!("rejected/{}", e.info.chars().take(48).collect::<String>()),
                format!("{cfg}: well-formed stream rejected: {} (after {} events: {:?})", e.display, lines.len(), lines.iter().rev().take(3).collect::<Vec<_>>()),
            ));
        }
        let got: Vec<SEv> = p.events.iter().map(|x| x.0.clone()).collect();
        let lines = canon_lines(&got);
        if let Some(i) = lines_first_diff(expected, &lines) {
            let e = expected.get(i).cloned().unwrap_or_else(|| "<nothing>".into());
            let a = lines.get(i).cloned().unwrap_or_else(|| "<nothing>".into());
            let class = if e.split(' ').next() != a.split(' ').next() {
                "structure"
            } else if e.starts_with("=VAL") {
                "scalar"
            } else if e.starts_with("=ALI") {
                "alias"
            } else {
                "properties"
            };
            return Err((format!("differs/{class}"), format!("{cfg}: event #{i}: expected `{e}`, parser delivered `{a}`")));
        }
    }
    Ok(())
}

pub fn c03_case(text: &str, expected: &[String]) -> J {
    J::obj(vec![("input", J::s(text)), ("expected", J::Arr(expected.iter().map(|l| J::s(l)).collect()))])
}

pub fn run_c03(tier: &str, seed: u64, shard: u64, nshards: u64, scale: f64, stats: &mut Stats) {
    let total: u64 = ((if tier == "thorough" { 4_000_000.0 } else { 160_000.0 }) * scale) as u64;
    let per = total / nshards;
    let mut r = Rng::derive(seed, 0xC03, shard);
    for i in 0..per {
        if i % 2000 == 0 {
            emit_progress(i);
        }
        let rd = gen_stream(&mut r, true, true);
        let expected = canon_lines(&rd.events);
        for (k, v) in &rd.constructs {
            stats.cnt(&format!("construct_{k}"), u64::from(*v));
        }
        stats.cnt("documents", rd.n_docs as u64);
        match check_against_expected(&rd.text, &expected) {
            Ok(()) => stats.cnt("streams_matching_model", 1),
            Err((class, msg)) => viol(stats, format!("C03/model/{class}"), msg, c03_case(&rd.text, &expected)),
        }
        let nt = expected.iter().any(|l| l.starts_with("+SEQ") || l.starts_with("+MAP"));
        stats.eval(if nt { Some(rd.text.as_bytes()) } else { None });
        if nt && stats.want_sample() && rd.text.len() > 30 {
            stats.sample(c03_case(&rd.text, &expected));
        }
    }
    // corpus: the valid suite cases and their layout-preserving variants (whole corpus on every shard 0)
    if shard == 0 {
        run_c03_corpus(stats);
    }
}

fn corpus_variants(yaml: &str, tree: &str) -> Vec<(&'static str, String)> {
    let mut v = vec![("as-is", yaml.to_string())];
    let has_block_scalar = tree.contains("=VAL |") || tree.contains("=VAL >") || tree.contains(" |") && tree.contains("=VAL") && (tree.contains("> ") || tree.contains("| "));
    let has_block = has_block_scalar || yaml.contains('|') || yaml.contains('>');
    if !yaml.starts_with('\u{feff}') {
        v.push(("comment-prepended", format!("# c\n{yaml}")));
    }
    if !has_block {
        let sep = if yaml.ends_with('\n') || yaml.is_empty() { "" } else { "\n" };
        v.push(("comment-appended", format!("{yaml}{sep}# c\n")));
        if yaml.ends_with('\n') && !yaml.ends_with("\n\n") && yaml.len() > 1 {
            v.push(("final-newline-removed", yaml[..yaml.len() - 1].to_string()));
        } else if !yaml.ends_with('\n') && !yaml.is_empty() {
            v.push(("final-newline-added", format!("{yaml}\n")));
        }
    }
    if !yaml.contains('\r') {
        v.push(("crlf", yaml.replace('\n', "\r\n")));
    }
    v
}

fn run_c03_corpus(stats: &mut Stats) {
    for c in corpus::all() {
        if c.fail {
            continue;
        }
        let expected = corpus::expected_lines(&c.tree);
        for (vname, text) in corpus_variants(&c.yaml, &c.tree) {
            stats.cnt("corpus_variants_checked", 1);
            let mut bad: Option<String> = None;
            for it in [false, true] {
                let Ok(p) = catch(|| if it { parse_iter(&text) } else { parse_str(&text) }) else { continue };
                if let Some(e) = &p.error {
                    bad = Some(format!("rejected: {}", e.display));
                    break;
                }
                // anchor ids renumbered by first occurrence: the suite names anchors, it does not number them
                let lines: Vec<String> = crate::events::canon_lines(&p.events.iter().map(|x| x.0.clone()).collect::<Vec<_>>());
                if let Some(i) = lines_first_diff(&expected, &lines) {
                    bad = Some(format!(
                        "event #{i}: suite expects `{}`, parser delivered `{}`",
                        expected.get(i).cloned().unwrap_or_default(),
                        lines.get(i).cloned().unwrap_or_default()
                    ));
                    break;
                }
            }
            if let Some(m) = bad {
                viol(
                    stats,
                    format!("C03/corpus/{}/{vname}", c.id),
                    format!("yaml-test-suite case {} ({vname}): {m}", c.id),
                    c03_case(&text, &expected),
                );
            } else {
                stats.cnt("corpus_variants_matching", 1);
            }
            stats.eval(Some(text.as_bytes()));
        }
    }
}

pub fn replay_c03(case: &J, stats: &mut Stats) {
    let input = case.str_of("input");
    let expected: Vec<String> = case.get("expected").and_then(J::as_arr).map(|a| a.iter().filter_map(|x| x.as_str().map(str::to_string)).collect()).unwrap_or_default();
    // corpus expectations are in line_nodoc format without renumbering; model ones are canonical:
    // try canonical first, then raw
    let raw_ok = {
        let p = parse_str(&input);
        p.error.is_none() && lines_first_diff(&expected, &p.events.iter().map(|x| x.0.line_nodoc()).collect::<Vec<_>>()).is_none()
    };
    if raw_ok {
        stats.eval(Some(input.as_bytes()));
        return;
    }
    if let Err((class, msg)) = check_against_expected(&input, &expected) {
        viol(stats, format!("C03/model/{class}"), msg, c03_case(&input, &expected));
    }
    stats.eval(Some(input.as_bytes()));
}

// ------------------------------------------------------------------------------------------------
// C06: damage operators
// ------------------------------------------------------------------------------------------------

pub const OPERATORS: [&str; 14] = [
    "cut-inside-open-construct",
    "swap-closing-bracket",
    "tab-as-indentation",
    "dedent-between-levels",
    "flow-continued-too-shallow",
    "quoted-key-over-two-lines",
    "implicit-key-longer-than-1024",
    "second-root-node",
    "bad-escape",
    "alias-without-anchor",
    "undeclared-tag-handle",
    "repeated-yaml-directive",
    "directive-without-document",
    "content-after-document-end",
];

/// Apply operator `op` to a rendered stream. Returns the damaged text and a short placement note,
/// or None when the operator has no applicable placement in this stream.
pub fn damage(rd: &Rendered, op: usize, r: &mut Rng) -> Option<(String, String)> {
    let t = &rd.text;
    let pick = |r: &mut Rng, v: &Vec<&Mark>| -> Option<Mark> {
        if v.is_empty() {
            None
        } else {
            Some(v[r.below(v.len())].clone())
        }
    };
    match op {
        0 => {
            let c: Vec<&Mark> = rd.marks.iter().filter(|m| matches!(m.kind, MarkKind::Quoted { .. } | MarkKind::FlowColl { .. })).collect();
            let m = pick(r, &c)?;
            let (open, close, single) = match m.kind {
                MarkKind::Quoted { open, close, single, .. } => (open, close, single),
                MarkKind::FlowColl { open, close, .. } => (open, close, false),
                _ => unreachable!(),
            };
            // candidate cut points strictly inside (open, close], on char boundaries
            let mut cands: Vec<usize> = (open + 1..=close).filter(|i| t.is_char_boundary(*i)).collect();
            if single {
                // cutting right after a quote character could close the scalar ('' escapes)
                cands.retain(|i| !t[..*i].ends_with('\''));
            }
            if matches!(m.kind, MarkKind::FlowColl { .. }) {
                // never cut right after a closing bracket of the same depth; any cut before `close` keeps it open
                cands.retain(|i| *i <= close);
            }
            if cands.is_empty() {
                return None;
            }
            let cut = cands[r.below(cands.len())];
            Some((t[..cut].to_string(), format!("cut at byte {cut} inside construct opened at {open}")))
        }
        1 => {
            let c: Vec<&Mark> = rd.marks.iter().filter(|m| matches!(m.kind, MarkKind::FlowColl { .. })).collect();
            let m = pick(r, &c)?;
            let MarkKind::FlowColl { open, close, seq, .. } = m.kind else { unreachable!() };
            let mut s = t.clone();
            if r.chance(1, 4) {
                // an extra closer of the other kind right before the real one (`[a, b}]`); for a
                // sequence sometimes behind an entry with two ':' (`[a, : : x}]`), where a scanner
                // that opens an implicit mapping per ':' finds something for the stray '}' to close
                let inner = t[open + 1..close].trim_end();
                let sep = if inner.is_empty() || inner.ends_with(',') { "" } else { ", " };
                let extra = if seq {
                    match r.below(3) {
                        0 => format!("{sep}: : x}}"),
                        // crossed brackets: the `}` closes nothing that is open, the `{` is closed by `]`
                        1 => format!("{sep}a: b}}, {{c: d "),
                        _ => "}".to_string(),
                    }
                } else {
                    "]".to_string()
                };
                // (not inside a trailing comment of a multi-line collection)
                if !t[open + 1..close].rsplit('\n').next().unwrap_or("").contains('#') {
                    s.insert_str(close, &extra);
                    return Some((s, format!("`{extra}` inserted before the closing bracket at byte {close}: a closer that matches nothing")));
                }
            }
            s.replace_range(close..close + 1, if seq { "}" } else { "]" });
            Some((s, format!("closing bracket at byte {close} swapped")))
        }
        2 => {
            let c: Vec<&Mark> = rd.marks.iter().filter(|m| matches!(m.kind, MarkKind::EntryLine { .. })).collect();
            let m = pick(r, &c)?;
            let MarkKind::EntryLine { line_start, indent, parent_indent, first } = m.kind else { unreachable!() };
            let mut s = t.clone();
            if first && indent as isize >= parent_indent + 2 && r.chance(1, 3) {
                // the first entry of a nested collection: enough blanks to be nested, then a tab in
                // front of the entry (a block entry starts right after its indentation blanks)
                let lo = (parent_indent + 1) as usize;
                let keep = lo + r.below(indent - lo);
                s.replace_range(line_start..line_start + indent, &format!("{}\t", " ".repeat(keep)));
                return Some((s, format!("indentation of the first entry line at byte {line_start}: {keep} blanks kept, the rest replaced by a tab")));
            }
            s.replace_range(line_start..line_start + indent, "\t");
            Some((s, format!("indentation of the entry line at byte {line_start} replaced by a tab")))
        }
        3 => {
            let c: Vec<&Mark> = rd
                .marks
                .iter()
                .filter(|m| matches!(m.kind, MarkKind::EntryLine { indent, parent_indent, first, .. } if !first && (indent as isize) - parent_indent >= 2))
                .collect();
            let m = pick(r, &c)?;
            let MarkKind::EntryLine { line_start, indent, parent_indent, .. } = m.kind else { unreachable!() };
            let lo = (parent_indent + 1) as usize;
            let new = lo + r.below(indent - lo);
            let mut s = t.clone();
            s.replace_range(line_start..line_start + indent, &" ".repeat(new));
            Some((s, format!("entry line at byte {line_start} dedented from {indent} to {new} (parent at {parent_indent})")))
        }
        4 if r.chance(1, 3) => {
            // a scalar inside the flow collection continued on a line no deeper than the block
            let c: Vec<&Mark> = rd
                .marks
                .iter()
                .filter(|m| matches!(m.kind, MarkKind::FlowScalar { start, end, block_n } if block_n >= 0 && t[start..end].contains(' ')))
                .collect();
            let m = pick(r, &c)?;
            let MarkKind::FlowScalar { start, end, block_n } = m.kind else { unreachable!() };
            let body = &t[start..end];
            // a blank between two non-blank characters
            let good: Vec<usize> = body
                .match_indices(' ')
                .map(|x| x.0)
                .filter(|i| *i > 0 && *i + 1 < body.len() && !body[..*i].ends_with([' ', '\t']) && !body[*i + 1..].starts_with([' ', '\t']))
                .collect();
            if good.is_empty() {
                return None;
            }
            let at = start + good[r.below(good.len())];
            let new = r.below(block_n as usize + 1);
            let mut s = t.clone();
            s.replace_range(at..at + 1, &format!("\n{}", " ".repeat(new)));
            Some((s, format!("scalar inside a flow collection continued at column {new} from byte {at} (enclosing block at {block_n})")))
        }
        4 => {
            // only lines that carry content (a separator may have been followed by another break)
            let c: Vec<&Mark> = rd
                .marks
                .iter()
                .filter(|m| match m.kind {
                    MarkKind::FlowContLine { line_start, indent, block_n } if block_n >= 0 => {
                        let rest = &t[line_start + indent..];
                        let line = rest.split('\n').next().unwrap_or("");
                        let first = line.trim_start_matches(' ');
                        !first.is_empty() && !first.starts_with('#') && line.len() == first.len()
                    }
                    _ => false,
                })
                .collect();
            let m = pick(r, &c)?;
            let MarkKind::FlowContLine { line_start, indent, block_n } = m.kind else { unreachable!() };
            let new = r.below(block_n as usize + 1);
            let mut s = t.clone();
            s.replace_range(line_start..line_start + indent, &" ".repeat(new));
            Some((s, format!("flow continuation line at byte {line_start} moved to column {new} (enclosing block at {block_n})")))
        }
        5 => {
            let c: Vec<&Mark> = rd
                .marks
                .iter()
                .filter(|m| matches!(m.kind, MarkKind::Quoted { open, close, block_key: true, .. } if t[open..close].contains(' ')))
                .collect();
            let m = pick(r, &c)?;
            let MarkKind::Quoted { open, close, .. } = m.kind else { unreachable!() };
            let rel: Vec<usize> = t[open + 1..close].match_indices(' ').map(|x| x.0).collect();
            // only a blank between two non-blank characters (so that the fold keeps the scalar intact)
            let body = &t[open + 1..close];
            let good: Vec<usize> = rel
                .into_iter()
                .filter(|i| *i > 0 && *i + 1 < body.len() && !body[..*i].ends_with([' ', '\t', '\\']) && !body[*i + 1..].starts_with([' ', '\t']))
                .collect();
            if good.is_empty() {
                return None;
            }
            let at = open + 1 + good[r.below(good.len())];
            let mut s = t.clone();
            s.replace_range(at..at + 1, "\n          ");
            Some((s, format!("quoted implicit key folded at byte {at}")))
        }
        6 => {
            let c: Vec<&Mark> = rd.marks.iter().filter(|m| matches!(m.kind, MarkKind::PlainKey { flow_seq_pair, in_flow, .. } if flow_seq_pair || !in_flow)).collect();
            let m = pick(r, &c)?;
            let MarkKind::PlainKey { start, end, flow_seq_pair, .. } = m.kind else { unreachable!() };
            let mut s = t.clone();
            s.replace_range(start..end, &"k".repeat(1100));
            Some((s, format!("implicit key at byte {start} made 1100 characters long ({})", if flow_seq_pair { "flow-sequence single pair" } else { "block mapping" })))
        }
        7 => {
            if !rd.second_root_ok || !t.ends_with('\n') {
                return None;
            }
            let extra = r.pick(&["\"second root\"\n", "[second, root]\n", "'x'\n", "{second: root}\n"]);
            Some((format!("{t}{extra}"), "second root node appended at column 0".into()))
        }
        8 => {
            let c: Vec<&Mark> = rd.marks.iter().filter(|m| matches!(m.kind, MarkKind::Quoted { single: false, .. })).collect();
            let m = pick(r, &c)?;
            let MarkKind::Quoted { open, close, .. } = m.kind else { unreachable!() };
            let mut s = t.clone();
            match r.below(4) {
                0 => {
                    // unknown escape right after the opening quote
                    s.insert_str(open + 1, r.pick(&["\\q", "\\1", "\\c", "\\'", "\\X41"]));
                    Some((s, format!("unknown escape inserted at byte {}", open + 1)))
                }
                1 => {
                    s.insert_str(close, "\\x4");
                    Some((s, format!("truncated \\x escape before the closing quote at byte {close}")))
                }
                2 => {
                    s.insert_str(close, r.pick(&["\\u12", "\\U0001F60", "\\u", "\\x"]));
                    Some((s, format!("truncated unicode escape before the closing quote at byte {close}")))
                }
                _ => {
                    s.insert_str(open + 1, "\\uD800");
                    Some((s, "surrogate code point escape".into()))
                }
            }
        }
        9 => {
            let c: Vec<&Mark> = rd.marks.iter().filter(|m| matches!(m.kind, MarkKind::PlainValue { .. })).collect();
            let m = pick(r, &c)?;
            let MarkKind::PlainValue { start, end } = m.kind else { unreachable!() };
            let mut s = t.clone();
            if r.chance(1, 2) {
                // the anchor exists, but only in an earlier document of the stream
                s.replace_range(start..end, "*vmon-earlier");
                let s = format!("&vmon-earlier x\n...\n{s}");
                return Some((s, format!("plain scalar at byte {start} replaced by an alias whose anchor is defined in an earlier document only")));
            }
            s.replace_range(start..end, "*zzz-undefined");
            Some((s, format!("plain scalar at byte {start} replaced by an alias with no anchor")))
        }
        10 => {
            let c: Vec<&Mark> = rd.marks.iter().filter(|m| matches!(m.kind, MarkKind::PlainValue { .. })).collect();
            let m = pick(r, &c)?;
            let MarkKind::PlainValue { start, .. } = m.kind else { unreachable!() };
            let mut s = t.clone();
            s.insert_str(start, "!zz!t ");
            if r.chance(1, 2) {
                // the handle is declared, but only for an earlier document of the stream
                let s = format!("%TAG !zz! tag:zz,1:\n--- !zz!t x\n...\n{s}");
                return Some((s, format!("named tag handle inserted at byte {start}, declared for an earlier document only")));
            }
            Some((s, format!("undeclared named tag handle inserted at byte {start}")))
        }
        11 => {
            let c: Vec<&Mark> = rd.marks.iter().filter(|m| matches!(m.kind, MarkKind::DocStart { fresh: true, .. })).collect();
            let m = pick(r, &c)?;
            let MarkKind::DocStart { line_start, .. } = m.kind else { unreachable!() };
            let mut s = t.clone();
            // any directives already present stay; two %YAML lines are added in front of `---`
            if t[..line_start].lines().rev().take_while(|l| l.starts_with('%')).any(|l| l.starts_with("%YAML ")) {
                s.insert_str(line_start, "%YAML 1.2\n");
            } else {
                s.insert_str(line_start, "%YAML 1.2\n%YAML 1.2\n");
            }
            Some((s, format!("repeated %YAML directive before the document at byte {line_start}")))
        }
        12 => {
            // (a) directive before a bare document, (b) directive at the very end after `...`
            let c: Vec<&Mark> = rd.marks.iter().filter(|m| matches!(m.kind, MarkKind::BareDoc { .. })).collect();
            if let Some(m) = pick(r, &c) {
                let MarkKind::BareDoc { line_start } = m.kind else { unreachable!() };
                let mut s = t.clone();
                s.insert_str(line_start, r.pick(&["%YAML 1.2\n", "%TAG !e! tag:e,1:\n"]));
                return Some((s, format!("directive inserted before the bare document at byte {line_start}")));
            }
            // the text must end with a real document end marker line (not a scalar ending in "...")
            let ends_with_marker = rd.marks.iter().any(|m| matches!(m.kind, MarkKind::DocEnd { line_start } if t[line_start..].starts_with("...") && !t[line_start..].trim_end_matches('\n').contains('\n')));
            if ends_with_marker && t.ends_with('\n') {
                return Some((format!("{t}%YAML 1.2\n"), "directive at the end of the stream with no document after it".into()));
            }
            None
        }
        13 => {
            let c: Vec<&Mark> = rd.marks.iter().filter(|m| matches!(m.kind, MarkKind::DocEnd { .. })).collect();
            let m = pick(r, &c)?;
            let MarkKind::DocEnd { line_start } = m.kind else { unreachable!() };
            let mut s = t.clone();
            s.insert_str(line_start + 3, r.pick(&[" x", " - a", " \"q\"", " [a]", " k: v"]));
            Some((s, format!("content after the document end marker at byte {line_start}")))
        }
        _ => None,
    }
}

/// Context class of a tab-as-indentation placement: what the line before the damaged entry line is.
fn tab_context(base: &str, bad: &str) -> String {
    let a: Vec<&str> = base.split('\n').collect();
    let b: Vec<&str> = bad.split('\n').collect();
    let Some(i) = (0..a.len().min(b.len())).find(|i| a[*i] != b[*i]) else { return "/unknown".into() };
    let mut j = i;
    while j > 0 {
        j -= 1;
        let l = a[j].trim();
        if l.is_empty() || l.starts_with('#') {
            continue;
        }
        // strip a trailing comment
        let l = l.split(" #").next().unwrap_or(l).trim_end();
        let mut toks = l.split_whitespace().peekable();
        let mut dashes = 0;
        while matches!(toks.peek(), Some(&"-") | Some(&"?") | Some(&":")) {
            dashes += 1;
            toks.next();
        }
        let rest: Vec<&str> = toks.collect();
        if dashes > 0 && !rest.is_empty() && rest.len() <= 2 && rest.iter().all(|t| t.starts_with('&') || t.starts_with('!')) {
            return "/after-indicator-with-properties-only".into();
        }
        return "/other-context".into();
    }
    "/other-context".into()
}

pub fn c06_accepts(text: &str) -> Option<&'static str> {
    for (cfg, it) in [("StrInput", false), ("BufferedInput", true)] {
        if let Ok(p) = catch(|| if it { parse_iter(text) } else { parse_str(text) }) {
            if p.error.is_none() {
                return Some(cfg);
            }
        }
    }
    None
}

pub fn run_c06(tier: &str, seed: u64, shard: u64, nshards: u64, scale: f64, stats: &mut Stats) {
    let total: u64 = ((if tier == "thorough" { 2_800_000.0 } else { 120_000.0 }) * scale) as u64;
    let per = total / nshards;
    let mut r = Rng::derive(seed, 0xC06, shard);
    let mut i = 0u64;
    let mut attempts = 0u64;
    while i < per && attempts < per * 30 {
        attempts += 1;
        let op = (attempts % 14) as usize;
        let rd = gen_stream(&mut r, true, false);
        // the undamaged stream must be accepted, otherwise the case says nothing about the operator
        let Some((bad, note)) = damage(&rd, op, &mut r) else {
            stats.cnt(&format!("not_applicable_{}", OPERATORS[op]), 1);
            continue;
        };
        if c06_accepts(&rd.text).is_none() {
            stats.cnt("base_stream_rejected_skipped", 1);
            continue;
        }
        i += 1;
        if i % 2000 == 0 {
            emit_progress(i);
        }
        stats.cnt(&format!("applied_{}", OPERATORS[op]), 1);
        let mut key = Vec::from(bad.as_bytes());
        key.push(op as u8);
        stats.eval(Some(&key));
        if let Some(cfg) = c06_accepts(&bad) {
            let detail = if op == 2 { format!("{}{}", if note.contains("blanks kept") { "/tab-after-blanks" } else { "" }, tab_context(&rd.text, &bad)) } else { String::new() };
            viol(
                stats,
                format!("C06/accepted/{}{detail}", OPERATORS[op]),
                format!("ill-formed stream accepted via {cfg} (operator {}: {note})", OPERATORS[op]),
                J::obj(vec![("input", J::s(&bad)), ("operator", J::s(OPERATORS[op])), ("placement", J::s(&note)), ("well_formed_base", J::s(&rd.text))]),
            );
        } else {
            stats.cnt("rejected_as_required", 1);
            if stats.want_sample() && bad.len() > 20 {
                stats.sample(J::obj(vec![("operator", J::s(OPERATORS[op])), ("placement", J::s(&note)), ("damaged_input", J::s(&bad))]));
            }
        }
    }
    if shard == 0 {
        for c in corpus::all() {
            if !c.fail {
                continue;
            }
            stats.cnt("corpus_error_cases", 1);
            stats.eval(Some(c.yaml.as_bytes()));
            if let Some(cfg) = c06_accepts(&c.yaml) {
                viol(
                    stats,
                    format!("C06/accepted/corpus/{}", c.id),
                    format!("yaml-test-suite error case {} accepted via {cfg}", c.id),
                    J::obj(vec![("input", J::s(&c.yaml)), ("operator", J::s("corpus"))]),
                );
            } else {
                stats.cnt("rejected_as_required", 1);
            }
        }
    }
}

pub fn replay_c06(case: &J, stats: &mut Stats) {
    let input = case.str_of("input");
    let op = case.str_of("operator");
    stats.eval(Some(input.as_bytes()));
    if let Some(cfg) = c06_accepts(&input) {
        viol(stats, format!("C06/accepted/{op}"), format!("ill-formed stream accepted via {cfg}"), case.clone());
    }
}
