//! Monitor for C20: mapping lookups, equality and hashing are mutually consistent.

use crate::mon_g::{cn_json, cn_to_yaml, json_cn};
use crate::nodes::*;
use crate::util::{catch, emit_progress, Rng, Stats, Violation, J};
use saphyr::{LoadableYamlNode, Mapping, MarkedYaml, MarkedYamlOwned, Scalar, ScalarOwned, Yaml, YamlData, YamlDataOwned, YamlEmitter, YamlOwned};
use std::borrow::Cow;
use std::collections::hash_map::DefaultHasher;
use std::hash::{BuildHasher, Hash, Hasher};

fn viol(stats: &mut Stats, sig: String, msg: String, case: J) {
    stats.violation(Violation { sig, msg, case });
}

fn h<T: Hash>(t: &T) -> u64 {
    let mut s = DefaultHasher::new();
    t.hash(&mut s);
    s.finish()
}

const KEY_STRINGS: &[&str] = &["a", "b", "1", "0", "~", "null", "true", "false", "1.5", "1.0", "", " ", "x y", "é", "0x1", "k", "-1", ".inf", "NULL", "a\nb"];
const PROBES: &[&str] = &[
    "a", "b", "c", "1", "0", "2", "~", "null", "Null", "true", "false", "True", "1.5", "1.0", "1", "", " ", "x y", "é", "0x1", "k", "-1", ".inf", "absent",
    "NULL", "a\nb", "01", "+1", "1e0", "[a]", "{}", "A",
];

fn gen_key(r: &mut Rng) -> CN {
    match r.below(14) {
        0..=6 => CN::Str(r.pick(KEY_STRINGS).to_string()),
        7 => CN::Int(r.pick(&[0, 1, 2, -1, 15])),
        8 => CN::Float(r.pick(&[1.5, 1.0, 0.0, -0.0, f64::INFINITY, f64::NAN])),
        9 => CN::Null,
        10 => CN::Bool(r.chance(1, 2)),
        11 => CN::Seq(vec![CN::Str("a".into())]),
        12 => CN::Map(vec![]),
        // an unresolved node (as left by early_parse(false) or built by hand) next to resolved keys
        13 if r.chance(1, 2) => CN::Rep(
            r.pick(KEY_STRINGS).to_string(),
            saphyr_parser::ScalarStyle::Plain,
            if r.chance(1, 3) { Some(("tag:yaml.org,2002:".to_string(), "str".to_string())) } else { None },
        ),
        _ => CN::Str(format!("k{}", r.below(5))),
    }
}

fn gen_val(r: &mut Rng, d: usize) -> CN {
    match r.below(8) {
        0 if d < 2 => gen_map(r, d + 1),
        1 if d < 2 => CN::Seq((0..r.below(4)).map(|_| gen_val(r, d + 1)).collect()),
        2 => CN::Null,
        3 => CN::Int(r.below(100) as i64),
        4 => CN::Bool(true),
        _ => CN::Str(r.pick(KEY_STRINGS).to_string()),
    }
}

pub fn gen_map(r: &mut Rng, d: usize) -> CN {
    let n = r.range(0, 7);
    let mut pairs: Vec<(CN, CN)> = vec![];
    for _ in 0..n {
        let k = gen_key(r);
        if pairs.iter().any(|(pk, _)| *pk == k) {
            continue;
        }
        pairs.push((k, gen_val(r, d)));
    }
    CN::Map(pairs)
}

/// Borrowing construction (Cow::Borrowed strings).
pub fn cn_to_yaml_borrowed(c: &CN) -> Yaml<'_> {
    match c {
        CN::Str(s) => Yaml::Value(Scalar::String(Cow::Borrowed(s.as_str()))),
        CN::Seq(v) => Yaml::Sequence(v.iter().map(cn_to_yaml_borrowed).collect()),
        CN::Map(v) => {
            let mut m = Mapping::new();
            for (k, x) in v {
                m.insert(cn_to_yaml_borrowed(k), cn_to_yaml_borrowed(x));
            }
            Yaml::Mapping(m)
        }
        CN::Rep(v, st, t) => Yaml::Representation(Cow::Borrowed(v.as_str()), *st, t.as_ref().map(|(h, x)| saphyr_parser::Tag { handle: h.clone(), suffix: x.clone() })),
        other => cn_to_yaml(other),
    }
}

fn reference_lookup<'a>(m: &'a CN, k: &str) -> Option<&'a CN> {
    match m {
        CN::Map(pairs) => pairs.iter().find(|(key, _)| matches!(key, CN::Str(s) if s == k)).map(|(_, v)| v),
        _ => None,
    }
}

fn reference_int_lookup(m: &CN, i: usize) -> Option<&CN> {
    match m {
        CN::Seq(v) => v.get(i),
        CN::Map(pairs) => {
            let key = i64::try_from(i).ok()?;
            pairs.iter().find(|(k, _)| matches!(k, CN::Int(x) if *x == key)).map(|(_, v)| v)
        }
        _ => None,
    }
}

fn case(m: &CN, k: &str) -> J {
    J::obj(vec![("mapping", cn_json(m)), ("probe", J::s(k))])
}

macro_rules! check_type {
    ($name:literal, $node:expr, $tocn:expr, $strnode:expr, $intnode:expr, $model:expr, $k:expr, $stats:expr) => {{
        let model: &CN = $model;
        let k: &str = $k;
        let want = reference_lookup(model, k).cloned();
        let mut node = $node;
        // the accessors
        let got = catch(|| node.as_mapping_get(k).map($tocn));
        let contains = catch(|| node.contains_mapping_key(k));
        let explicit = catch(|| node.as_mapping().and_then(|mm| mm.get(&$strnode(k))).map($tocn));
        let indexed: Result<Result<CN, String>, String> = Ok(catch(|| $tocn(&node[k])));
        let got_mut = catch(|| node.as_mapping_get_mut(k).map(|x| $tocn(&*x)));
        let indexed_mut: Result<CN, String> = catch(|| $tocn(&*(&mut node[k])));
        $stats.cnt("lookups", 6);
        let mut report = |which: &str, found: Option<CN>| {
            if found != want {
                viol(
                    $stats,
                    format!("C20/lookup-disagrees/{}/{which}", $name),
                    format!("{}: {which}({k:?}) gives {:?}, a linear scan for a string key equal to the probe gives {:?} in {}", $name, found.map(|c| c.show()), want.as_ref().map(|c| c.show()), model.show()),
                    case(model, k),
                );
            }
        };
        if let Ok(g) = got {
            report("as_mapping_get", g);
        }
        if let Ok(g) = got_mut {
            report("as_mapping_get_mut", g);
        }
        if let Ok(g) = explicit {
            report("get(string node)", g);
        }
        if let Ok(c) = contains {
            if c != want.is_some() {
                viol($stats, format!("C20/lookup-disagrees/{}/contains_mapping_key", $name), format!("{}: contains_mapping_key({k:?}) = {c} but presence by linear scan = {} in {}", $name, want.is_some(), model.show()), case(model, k));
            }
        }
        if let Ok(ix) = indexed {
            match (ix, &want) {
                (Ok(v), Some(w)) if v == *w => {}
                (Err(_), None) => {}
                (Ok(v), w) => viol($stats, format!("C20/lookup-disagrees/{}/index", $name), format!("{}: [{k:?}] returned {} but the linear scan gives {:?} in {}", $name, v.show(), w.as_ref().map(|c| c.show()), model.show()), case(model, k)),
                (Err(_), Some(w)) => viol($stats, format!("C20/lookup-disagrees/{}/index", $name), format!("{}: [{k:?}] panicked although the key is present (value {}) in {}", $name, w.show(), model.show()), case(model, k)),
            }
        }
        match (indexed_mut, &want) {
            (Ok(v), Some(w)) if v == *w => {}
            (Err(_), None) => {}
            (Ok(v), w) => viol($stats, format!("C20/lookup-disagrees/{}/index_mut", $name), format!("{}: index_mut [{k:?}] returned {} but the linear scan gives {:?}", $name, v.show(), w.as_ref().map(|c| c.show())), case(model, k)),
            (Err(_), Some(_)) => viol($stats, format!("C20/lookup-disagrees/{}/index_mut", $name), format!("{}: index_mut [{k:?}] panicked although the key is present in {}", $name, model.show()), case(model, k)),
        }
        // integer indexing
        for i in [0usize, 1, 2, 15, 7] {
            let wanti = reference_int_lookup(model, i).cloned();
            let ix = catch(|| $tocn(&node[i]));
            let viaget = catch(|| node.as_mapping().and_then(|mm| mm.get(&$intnode(i as i64))).map($tocn));
            $stats.cnt("int_lookups", 2);
            match (ix, &wanti) {
                (Ok(v), Some(w)) if v == *w => {}
                (Err(_), None) => {}
                (a, w) => viol($stats, format!("C20/int-index-disagrees/{}", $name), format!("{}: [{i}] gives {:?}, expected {:?} in {}", $name, a.ok().map(|c| c.show()), w.as_ref().map(|c| c.show()), model.show()), case(model, &i.to_string())),
            }
            if let (Ok(g), true) = (viaget, matches!(model, CN::Map(_))) {
                if g != wanti {
                    viol($stats, format!("C20/int-index-disagrees/{}/get", $name), format!("{}: get(Integer({i})) gives {:?}, expected {:?}", $name, g.map(|c| c.show()), wanti.as_ref().map(|c| c.show())), case(model, &i.to_string()));
                }
            }
        }
    }};
}

fn dump(y: &Yaml) -> Option<String> {
    let mut out = String::new();
    YamlEmitter::new(&mut out).dump(y).ok()?;
    Some(out)
}

pub fn check_c20(model: &CN, probe: &str, stats: &mut Stats) {
    // (1) constructed, owned strings
    check_type!("Yaml(constructed,owned)", cn_to_yaml(model), cn_yaml, |k: &str| Yaml::Value(Scalar::String(k.to_string().into())), |i: i64| Yaml::Value(Scalar::Integer(i)), model, probe, stats);
    // (2) constructed, borrowed strings
    check_type!("Yaml(constructed,borrowed)", cn_to_yaml_borrowed(model), cn_yaml, |k: &str| Yaml::Value(Scalar::String(k.to_string().into())), |i: i64| Yaml::Value(Scalar::Integer(i)), model, probe, stats);
    // (3) loaded documents in the four node types (through the emitter; the emitted text must load back to the model, else skip)
    let Some(text) = dump(&cn_to_yaml(model)) else { return };
    if !crate::events::terminates(&text) {
        stats.cnt("skipped_parse_does_not_terminate", 1);
        return;
    }
    let loaded_ok = catch(|| Yaml::load_from_str(&text).ok().and_then(|d| d.first().map(cn_yaml))).ok().flatten();
    if loaded_ok.as_ref() == Some(model) {
        stats.cnt("loaded_mappings", 1);
        if let Ok(Ok(d)) = catch(|| Yaml::load_from_str(&text)) {
            if let Some(n) = d.into_iter().next() {
                check_type!("Yaml(loaded)", n, cn_yaml, |k: &str| Yaml::Value(Scalar::String(k.to_string().into())), |i: i64| Yaml::Value(Scalar::Integer(i)), model, probe, stats);
            }
        }
        if let Ok(Ok(d)) = catch(|| YamlOwned::load_from_str(&text)) {
            if let Some(n) = d.into_iter().next() {
                check_type!("YamlOwned", n, cn_owned, |k: &str| YamlOwned::Value(ScalarOwned::String(k.to_string())), |i: i64| YamlOwned::Value(ScalarOwned::Integer(i)), model, probe, stats);
            }
        }
        if let Ok(Ok(d)) = catch(|| MarkedYaml::load_from_str(&text)) {
            if let Some(n) = d.into_iter().next() {
                check_type!(
                    "MarkedYaml",
                    n.data,
                    cn_marked,
                    |k: &str| MarkedYaml::from(YamlData::Value(Scalar::String(k.to_string().into()))),
                    |i: i64| MarkedYaml::from(YamlData::Value(Scalar::Integer(i))),
                    model,
                    probe,
                    stats
                );
            }
        }
        if let Ok(Ok(d)) = catch(|| MarkedYamlOwned::load_from_str(&text)) {
            if let Some(n) = d.into_iter().next() {
                check_type!(
                    "MarkedYamlOwned",
                    n.data,
                    cn_marked_owned,
                    |k: &str| MarkedYamlOwned::from(YamlDataOwned::Value(ScalarOwned::String(k.to_string()))),
                    |i: i64| MarkedYamlOwned::from(YamlDataOwned::Value(ScalarOwned::Integer(i))),
                    model,
                    probe,
                    stats
                );
            }
        }
    }
    // (4) equal nodes hash equally: borrowed vs owned construction, loaded vs constructed, with the
    // std hasher and with a mapping's own hasher
    let a = cn_to_yaml(model);
    let b = cn_to_yaml_borrowed(model);
    stats.cnt("eq_hash_pairs", 1);
    if a != b {
        viol(stats, "C20/eq/borrowed-vs-owned".into(), format!("the same tree built with borrowed and with owned strings compares unequal: {}", model.show()), case(model, probe));
    } else {
        let probe_map: Mapping = Mapping::new();
        if h(&a) != h(&b) || probe_map.hasher().hash_one(&a) != probe_map.hasher().hash_one(&b) {
            viol(stats, "C20/hash/borrowed-vs-owned".into(), format!("equal trees (borrowed vs owned strings) hash differently: {}", model.show()), case(model, probe));
        }
    }
    // every key of the model: nodes that compare equal hash equally (pairwise over keys and their re-built copies)
    if let CN::Map(pairs) = model {
        let keys: Vec<Yaml> = pairs.iter().map(|(k, _)| cn_to_yaml(k)).collect();
        let keys_b: Vec<Yaml> = pairs.iter().map(|(k, _)| cn_to_yaml_borrowed(k)).collect();
        for x in keys.iter().chain(keys_b.iter()) {
            for y in keys.iter().chain(keys_b.iter()) {
                stats.cnt("eq_hash_pairs", 1);
                if x == y && h(x) != h(y) {
                    viol(stats, "C20/hash/equal-keys".into(), format!("keys {} and {} are equal but hash differently", cn_yaml(x).show(), cn_yaml(y).show()), case(model, probe));
                }
            }
        }
        let ko: Vec<YamlOwned> = pairs.iter().filter_map(|(k, _)| dump(&cn_to_yaml(&CN::Seq(vec![k.clone()]))).and_then(|t| YamlOwned::load_from_str(&t).ok()).and_then(|d| d.into_iter().next())).collect();
        for x in &ko {
            for y in &ko {
                if x == y && h(x) != h(y) {
                    viol(stats, "C20/hash/equal-keys-owned".into(), "equal YamlOwned nodes hash differently".into(), case(model, probe));
                }
            }
        }
    }
}

/// Eq => Hash for tags and for unresolved (Representation) nodes carrying them: the same resolved
/// tag can be split into (handle, suffix) in several ways; whatever equality says, hashing must agree.
pub fn check_tag_eq_hash(r: &mut Rng, stats: &mut Stats) {
    use saphyr_parser::{ScalarStyle, Tag};
    let full = r.pick(&["tag:yaml.org,2002:str", "tag:example.com,2000:app/x", "!local", "!", "tag:yaml.org,2002:int"]);
    let splits: Vec<(String, String)> = (0..=full.len()).filter(|i| full.is_char_boundary(*i)).map(|i| (full[..i].to_string(), full[i..].to_string())).collect();
    let a = splits[r.below(splits.len())].clone();
    let b = splits[r.below(splits.len())].clone();
    let ta = Tag { handle: a.0.clone(), suffix: a.1.clone() };
    let tb = Tag { handle: b.0.clone(), suffix: b.1.clone() };
    let text = r.pick(&["a", "1", "x y"]);
    stats.cnt("tag_eq_hash_pairs", 1);
    let case = J::obj(vec![("tag_a", J::s(&format!("{:?}", a))), ("tag_b", J::s(&format!("{:?}", b))), ("text", J::s(text))]);
    if ta == tb && h(&ta) != h(&tb) {
        viol(stats, "C20/hash/equal-tags".into(), format!("tags {a:?} and {b:?} compare equal but hash differently"), case.clone());
    }
    let ya = Yaml::Representation(text.into(), ScalarStyle::Plain, Some(ta.clone()));
    let yb = Yaml::Representation(text.into(), ScalarStyle::Plain, Some(tb.clone()));
    if ya == yb && h(&ya) != h(&yb) {
        viol(stats, "C20/hash/equal-representation-nodes".into(), format!("unresolved nodes tagged {a:?} and {b:?} compare equal but hash differently"), case.clone());
    }
    // ... and a mapping keyed by one must find the other exactly when they are equal
    let mut m = Mapping::new();
    m.insert(ya.clone(), Yaml::Value(Scalar::Integer(1)));
    let found = m.get(&yb).is_some();
    if found != (ya == yb) {
        viol(stats, "C20/lookup-disagrees/representation-key".into(), format!("a mapping keyed by a node tagged {a:?} {} a node tagged {b:?} although == says {}", if found { "finds" } else { "does not find" }, ya == yb), case.clone());
    }
    let oa = YamlOwned::Representation(text.into(), ScalarStyle::Plain, Some(ta));
    let ob = YamlOwned::Representation(text.into(), ScalarStyle::Plain, Some(tb));
    if oa == ob && h(&oa) != h(&ob) {
        viol(stats, "C20/hash/equal-representation-nodes-owned".into(), format!("unresolved owned nodes tagged {a:?} and {b:?} compare equal but hash differently"), case);
    }
}

pub fn run_c20(tier: &str, seed: u64, shard: u64, nshards: u64, scale: f64, stats: &mut Stats) {
    let thorough = tier == "thorough";
    let per = ((if thorough { 1_200_000.0 } else { 40_000.0 }) * scale) as u64 / nshards;
    let mut r = Rng::derive(seed, 0xC20, shard);
    for i in 0..per {
        if i % 2000 == 0 {
            emit_progress(i);
        }
        let m = match r.below(10) {
            0 => CN::Seq((0..r.below(4)).map(|_| gen_val(&mut r, 1)).collect()),
            1 => gen_val(&mut r, 2),
            _ => gen_map(&mut r, 0),
        };
        check_tag_eq_hash(&mut r, stats);
        let n_probes = 3;
        for _ in 0..n_probes {
            let probe = if r.chance(2, 3) {
                // a probe derived from a key
                match &m {
                    CN::Map(p) if !p.is_empty() => match &p[r.below(p.len())].0 {
                        CN::Str(s) => s.clone(),
                        CN::Int(i) => i.to_string(),
                        CN::Float(f) => format!("{f}"),
                        CN::Null => r.pick(&["~", "null"]).to_string(),
                        CN::Bool(b) => b.to_string(),
                        _ => "[a]".to_string(),
                    },
                    _ => r.pick(PROBES).to_string(),
                }
            } else {
                r.pick(PROBES).to_string()
            };
            check_c20(&m, &probe, stats);
            let nt = matches!(&m, CN::Map(p) if p.len() >= 2);
            let mut key = m.show().into_bytes();
            key.extend_from_slice(probe.as_bytes());
            stats.eval(if nt { Some(&key) } else { None });
            if nt && stats.want_sample() {
                stats.sample(J::obj(vec![("mapping", J::s(&m.show())), ("probe", J::s(&probe)), ("linear_scan_result", J::s(&format!("{:?}", reference_lookup(&m, &probe).map(CN::show))))]));
            }
        }
    }
}

pub fn replay_c20(case: &J, stats: &mut Stats) {
    let m = case.get("mapping").map(json_cn).unwrap_or(CN::Bad);
    let probe = case.str_of("probe");
    stats.eval(Some(m.show().as_bytes()));
    check_c20(&m, &probe, stats);
}
