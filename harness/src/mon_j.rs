//! Monitor for C11: nesting depth cannot crash the process. One child process per scenario (the only
//! way to observe a stack overflow), plus a stack-depth probe inside the library's callbacks.

use crate::util::{emit_progress, Stats, Violation, J};
use saphyr::{LoadableYamlNode, MarkedYaml, Yaml, YamlEmitter, YamlLoader, YamlOwned};
use saphyr_parser::{Event, Parser, Span, SpannedEventReceiver};
use std::hash::{Hash, Hasher};
use std::io::Write as _;
use std::process::{Command, Stdio};

pub const SHAPES: [&str; 12] = ["seq-inline", "seq-lines", "map-lines", "explicit-key", "flow-seq", "flow-map", "flow-map-json", "alternating", "block-then-flow", "anchored-seq-inline", "anchored-alias-chain", "keyed-deep-duplicate-key"];
/// `*-1MiB`: the same scenario on a thread with a 1 MiB stack (the budget of the stack probes): the
/// pull and push interfaces keep their continuation on the heap, so their stack use must not depend
/// on the depth at all, and a per-level frame anywhere in scanner or parser shows up ten times earlier.
pub const APIS: [&str; 13] = ["iterate", "push", "load", "load-owned", "load-marked", "load+clone", "load+eq", "load+hash", "load+emit", "load-thread", "iterate-1MiB", "push-1MiB", "load-deferred+resolve"];

pub fn make_input(shape: &str, depth: usize) -> String {
    make_input_leaf(shape, depth, None)
}

/// Innermost nodes used by the low-depth sweep: the shapes above with something other than a
/// one-letter scalar at the bottom.
pub const LEAVES: [&str; 6] = ["a", "\"ab\\ncd\"", "\"x: y\\n- z\\n\"", "[]", "{}", "'it''s'"];

/// `leaf`: None = the shape's own innermost node.
pub fn make_input_leaf(shape: &str, depth: usize, leaf: Option<&str>) -> String {
    let mut s = make_input_default(shape, depth);
    if let Some(l) = leaf {
        // every shape has exactly one innermost scalar, written last before the closers
        let (pat, with): (&str, String) = match shape {
            "seq-inline" | "explicit-key" | "anchored-seq-inline" => ("a\n", format!("{l}\n")),
            "keyed-deep-duplicate-key" => ("a\n: w", format!("{l}\n: w")),
            "seq-lines" | "alternating" => ("a\n", format!("{l}\n")),
            "map-lines" => ("v\n", format!("{l}\n")),
            "flow-seq" => ("[]", format!("[{l}]")),
            "anchored-alias-chain" => ("[a]", format!("[{l}]")),
            "flow-map" => ("b}", format!("{l}}}")),
            "flow-map-json" => ("1}", format!("{l}}}")),
            _ => ("[a]", format!("[{l}]")),
        };
        if let Some(i) = s.rfind(pat) {
            s.replace_range(i..i + pat.len(), &with);
        }
    }
    s
}

fn make_input_default(shape: &str, depth: usize) -> String {
    let mut s = String::new();
    match shape {
        "seq-inline" => {
            for _ in 0..depth {
                s.push_str("- ");
            }
            s.push_str("a\n");
        }
        "keyed-deep-duplicate-key" => {
            // the same deep sequence twice as a mapping key: the second insertion hashes, compares and
            // drops a deep key inside the loader
            let k = "- ".repeat(depth);
            s.push_str(&format!("? {k}a\n: v\n? {k}a\n: w\n"));
        }
        "anchored-alias-chain" => {
            // flat text, deep tree: every line wraps an alias to the previous line's node
            s.push_str("- &a0 [a]\n");
            for i in 1..depth {
                s.push_str(&format!("- &a{i} [*a{}]\n", i - 1));
            }
        }
        "anchored-seq-inline" => {
            // the whole nest carries an anchor (the loader keeps a copy of every anchored node)
            s.push_str("&a\n");
            for _ in 0..depth {
                s.push_str("- ");
            }
            s.push_str("a\n");
        }
        "seq-lines" => {
            // cap the indentation growth: nested sequences on their own lines, one more space each
            for i in 0..depth {
                for _ in 0..i {
                    s.push(' ');
                }
                s.push_str("-\n");
            }
            for _ in 0..depth {
                s.push(' ');
            }
            s.push_str("a\n");
        }
        "map-lines" => {
            for i in 0..depth {
                for _ in 0..i {
                    s.push(' ');
                }
                s.push_str("k:\n");
            }
            for _ in 0..depth {
                s.push(' ');
            }
            s.push_str("v\n");
        }
        "explicit-key" => {
            for _ in 0..depth {
                s.push_str("? ");
            }
            s.push_str("a\n");
        }
        "flow-seq" => {
            for _ in 0..depth {
                s.push('[');
            }
            for _ in 0..depth {
                s.push(']');
            }
            s.push('\n');
        }
        "flow-map" => {
            for _ in 0..depth {
                s.push_str("{a: ");
            }
            s.push('b');
            for _ in 0..depth {
                s.push('}');
            }
            s.push('\n');
        }
        "flow-map-json" => {
            for _ in 0..depth {
                s.push_str("{\"a\":");
            }
            s.push('1');
            for _ in 0..depth {
                s.push('}');
            }
            s.push('\n');
        }
        "alternating" => {
            // "-" and "k:" on alternating lines, one more space of indentation per level
            for i in 0..depth {
                for _ in 0..i {
                    s.push(' ');
                }
                s.push_str(if i % 2 == 0 { "-\n" } else { "k:\n" });
            }
            for _ in 0..depth {
                s.push(' ');
            }
            s.push_str("a\n");
        }
        _ => {
            // block nesting ending in (bounded) flow nesting
            for _ in 0..depth {
                s.push_str("- ");
            }
            s.push_str("[[[[a]]]]\n");
        }
    }
    s
}

/// Shapes whose text size is quadratic in the depth are limited to a smaller depth.
pub fn max_depth_for(shape: &str) -> usize {
    match shape {
        "seq-lines" | "map-lines" | "alternating" => 3000,
        "anchored-alias-chain" => 10_000,
        _ => usize::MAX,
    }
}

fn crumb(s: &str) {
    let mut o = std::io::stdout().lock();
    let _ = writeln!(o, "CRUMB {s}");
    let _ = o.flush();
}

#[inline(never)]
fn stack_pos() -> usize {
    let x = 0u8;
    std::hint::black_box(&x) as *const u8 as usize
}

/// Receiver that measures how deep the library's own frames are when it is called back.
struct Probe {
    base: usize,
    max_stack: usize,
    depth: usize,
    max_depth: usize,
    events: usize,
}
impl<'i> SpannedEventReceiver<'i> for Probe {
    fn on_event(&mut self, ev: Event<'i>, _span: Span) {
        self.events += 1;
        let here = stack_pos();
        let used = self.base.saturating_sub(here);
        if used > self.max_stack {
            self.max_stack = used;
        }
        match ev {
            Event::SequenceStart(..) | Event::MappingStart(..) => {
                self.depth += 1;
                self.max_depth = self.max_depth.max(self.depth);
            }
            Event::SequenceEnd | Event::MappingEnd => self.depth = self.depth.saturating_sub(1),
            _ => {}
        }
    }
}

struct ProbeWriter {
    base: usize,
    max_stack: usize,
    bytes: usize,
}
impl std::fmt::Write for ProbeWriter {
    fn write_str(&mut self, s: &str) -> std::fmt::Result {
        self.bytes += s.len();
        let used = self.base.saturating_sub(stack_pos());
        if used > self.max_stack {
            self.max_stack = used;
        }
        Ok(())
    }
}

/// Body of a child process: run one scenario and print breadcrumbs / measurements.
/// Low-depth sweep (one child process per shape): every depth 1..=max, every leaf, every operation,
/// each under catch_unwind. A panic is neither success nor an error value.
fn sweep(shape: &str, max: usize) {
    use crate::util::catch;
    let mut cases = 0u64;
    let mut panics = 0u64;
    let mut errors = 0u64;
    let mut report = |depth: usize, leaf: usize, op: &str, msg: &str, panics: &mut u64| {
        *panics += 1;
        if *panics <= 40 {
            crumb(&format!("sweep-panic {depth} {leaf} {op} {}", msg.replace('\n', " ")));
        }
    };
    for depth in 1..=max {
        for (li, leaf) in LEAVES.iter().enumerate() {
            let input = make_input_leaf(shape, depth, Some(leaf));
            cases += 1;
            if let Err(m) = catch(|| Parser::new_from_str(&input).take_while(|e| e.is_ok()).count()) {
                report(depth, li, "iterate", &m, &mut panics);
            }
            let mut p = Probe { base: stack_pos(), max_stack: 0, depth: 0, max_depth: 0, events: 0 };
            if let Err(m) = catch(|| Parser::new_from_str(&input).load(&mut p, true).is_ok()) {
                report(depth, li, "push", &m, &mut panics);
            }
            if let Err(m) = catch(|| YamlOwned::load_from_str(&input).map(|d| d.len()).unwrap_or(0)) {
                report(depth, li, "load-owned", &m, &mut panics);
            }
            if let Err(m) = catch(|| MarkedYaml::load_from_str(&input).map(|d| d.len()).unwrap_or(0)) {
                report(depth, li, "load-marked", &m, &mut panics);
            }
            let docs = match catch(|| Yaml::load_from_str(&input)) {
                Err(m) => {
                    report(depth, li, "load", &m, &mut panics);
                    continue;
                }
                Ok(Err(_)) => {
                    errors += 1;
                    continue;
                }
                Ok(Ok(d)) => d,
            };
            if let Err(m) = catch(|| docs.clone() == docs) {
                report(depth, li, "clone-eq", &m, &mut panics);
            }
            if let Err(m) = catch(|| {
                let mut loader: YamlLoader<Yaml> = YamlLoader::default();
                loader.early_parse(false);
                let ok = Parser::new_from_str(&input).load(&mut loader, true).is_ok();
                let mut d = loader.into_documents();
                ok && d.iter_mut().all(|x| x.parse_representation_recursive())
            }) {
                report(depth, li, "deferred-resolve", &m, &mut panics);
            }
            if let Err(m) = catch(|| {
                let mut h = std::collections::hash_map::DefaultHasher::new();
                docs.hash(&mut h);
                h.finish()
            }) {
                report(depth, li, "hash", &m, &mut panics);
            }
            for (compact, multi) in [(true, false), (false, false), (true, true), (false, true)] {
                let r = catch(|| {
                    let mut out = String::new();
                    for d in &docs {
                        let mut e = YamlEmitter::new(&mut out);
                        e.compact(compact);
                        e.multiline_strings(multi);
                        let _ = e.dump(d);
                        out.push('\n');
                    }
                    out.len()
                });
                if let Err(m) = r {
                    report(depth, li, &format!("emit(compact={compact},multiline_strings={multi})"), &m, &mut panics);
                }
            }
        }
    }
    crumb(&format!("sweep-done cases {cases} panics {panics} errors {errors}"));
    crumb("result ok");
}

pub fn child(shape: &str, depth: usize, api: &str) {
    if api == "sweep" {
        sweep(shape, depth);
        crumb("done");
        return;
    }
    let input = make_input(shape, depth);
    crumb(&format!("input-bytes {}", input.len()));
    let small_stack = api.ends_with("-1MiB");
    let api_owned = api.trim_end_matches("-1MiB").to_string();
    let is_thread = api == "load-thread" || small_stack;
    let run = move || {
        let api: &str = &api_owned;
        match api {
            "iterate" => {
                crumb("phase parse");
                let mut n = 0usize;
                let mut err = false;
                for e in Parser::new_from_str(&input) {
                    match e {
                        Ok(_) => n += 1,
                        Err(_) => {
                            err = true;
                            break;
                        }
                    }
                }
                crumb(&format!("result {} events {n}", if err { "error" } else { "ok" }));
            }
            "push" => {
                crumb("phase parse");
                let mut p = Probe { base: stack_pos(), max_stack: 0, depth: 0, max_depth: 0, events: 0 };
                let r = Parser::new_from_str(&input).load(&mut p, true);
                crumb(&format!("probe push max-stack-bytes {} max-depth {} events {}", p.max_stack, p.max_depth, p.events));
                crumb(&format!("result {}", if r.is_err() { "error" } else { "ok" }));
            }
            "load" | "load+clone" | "load+eq" | "load+hash" | "load+emit" | "load-thread" => {
                crumb("phase load");
                let r = Yaml::load_from_str(&input);
                match r {
                    Err(_) => crumb("result error"),
                    Ok(docs) => {
                        crumb("phase loaded");
                        match api {
                            "load+clone" => {
                                crumb("phase clone");
                                let c = docs.clone();
                                crumb("phase drop-clone");
                                drop(c);
                            }
                            "load+eq" => {
                                crumb("phase load-second");
                                let d2 = Yaml::load_from_str(&input).unwrap_or_default();
                                crumb("phase eq");
                                let e = docs == d2;
                                crumb(&format!("eq {e}"));
                                crumb("phase drop-second");
                                drop(d2);
                            }
                            "load+hash" => {
                                crumb("phase hash");
                                let mut h = std::collections::hash_map::DefaultHasher::new();
                                docs.hash(&mut h);
                                crumb(&format!("hash {}", h.finish()));
                            }
                            "load+emit" => {
                                crumb("phase emit");
                                let mut w = ProbeWriter { base: stack_pos(), max_stack: 0, bytes: 0 };
                                let mut ok = true;
                                for d in &docs {
                                    ok &= YamlEmitter::new(&mut w).dump(d).is_ok();
                                }
                                crumb(&format!("probe emit max-stack-bytes {} bytes {} ok {ok}", w.max_stack, w.bytes));
                            }
                            _ => {}
                        }
                        crumb("phase drop");
                        drop(docs);
                        crumb("result ok");
                    }
                }
            }
            "load-owned" => {
                crumb("phase load");
                match YamlOwned::load_from_str(&input) {
                    Err(_) => crumb("result error"),
                    Ok(d) => {
                        crumb("phase drop");
                        drop(d);
                        crumb("result ok");
                    }
                }
            }
            "load-deferred+resolve" => {
                // loading with scalar resolution deferred, then resolving the whole tree (the other
                // loading mode of C19): part of "loading" for a caller who uses that mode
                crumb("phase load");
                let mut loader: YamlLoader<Yaml> = YamlLoader::default();
                loader.early_parse(false);
                let r = Parser::new_from_str(&input).load(&mut loader, true);
                match r {
                    Err(_) => crumb("result error"),
                    Ok(()) => {
                        let mut docs = loader.into_documents();
                        crumb("phase resolve");
                        let mut all = true;
                        for d in docs.iter_mut() {
                            all &= d.parse_representation_recursive();
                        }
                        crumb(&format!("resolved {all}"));
                        crumb("phase drop");
                        drop(docs);
                        crumb("result ok");
                    }
                }
            }
            "load-marked" => {
                crumb("phase load");
                match MarkedYaml::load_from_str(&input) {
                    Err(_) => crumb("result error"),
                    Ok(d) => {
                        crumb("phase drop");
                        drop(d);
                        crumb("result ok");
                    }
                }
            }
            _ => crumb("unknown api"),
        }
    };
    if is_thread {
        // a thread with an explicit 8 MiB stack (the default of a spawned std thread is 2 MiB)
        let size = if small_stack { 1024 * 1024 } else { 8 * 1024 * 1024 };
        let h = std::thread::Builder::new().stack_size(size).spawn(run).expect("spawn");
        let _ = h.join();
    } else {
        run();
    }
    crumb("done");
}

pub struct Outcome {
    pub status: String,
    pub died: bool,
    pub last_phase: String,
    pub result: String,
    pub probes: Vec<(String, u64)>,
    pub max_depth: u64,
    pub sweep_panics: Vec<String>,
    pub sweep_cases: u64,
}

pub fn run_scenario(shape: &str, depth: usize, api: &str) -> Outcome {
    let exe = std::env::current_exe().expect("current exe");
    // run the child with a generous wall-clock limit (a scenario normally takes well under a second)
    let out = (|| -> std::io::Result<std::process::Output> {
        let mut child = Command::new(exe)
            .args(["c11child", shape, &depth.to_string(), api])
            .stdin(Stdio::null())
            .stdout(Stdio::piped())
            .stderr(Stdio::piped())
            .spawn()?;
        // drain the pipes on threads so that a chatty child cannot block on a full pipe
        let mut so = child.stdout.take().unwrap();
        let mut se = child.stderr.take().unwrap();
        let t1 = std::thread::spawn(move || {
            let mut v = vec![];
            let _ = std::io::Read::read_to_end(&mut so, &mut v);
            v
        });
        let t2 = std::thread::spawn(move || {
            let mut v = vec![];
            let _ = std::io::Read::read_to_end(&mut se, &mut v);
            v
        });
        let start = std::time::Instant::now();
        let status = loop {
            if let Some(st) = child.try_wait()? {
                break st;
            }
            if start.elapsed().as_secs() > 600 {
                let _ = child.kill();
                let st = child.wait()?;
                let _ = t1.join();
                let _ = t2.join();
                return Ok(std::process::Output { status: st, stdout: b"CRUMB timeout\n".to_vec(), stderr: vec![] });
            }
            std::thread::sleep(std::time::Duration::from_millis(5));
        };
        Ok(std::process::Output { status, stdout: t1.join().unwrap_or_default(), stderr: t2.join().unwrap_or_default() })
    })();
    let mut o = Outcome { status: String::new(), died: false, last_phase: "start".into(), result: String::new(), probes: vec![], max_depth: 0, sweep_panics: vec![], sweep_cases: 0 };
    match out {
        Err(e) => {
            o.status = format!("spawn failed: {e}");
        }
        Ok(out) => {
            let text = String::from_utf8_lossy(&out.stdout);
            let mut done = false;
            for l in text.lines() {
                if let Some(r) = l.strip_prefix("CRUMB ") {
                    if let Some(p) = r.strip_prefix("phase ") {
                        o.last_phase = p.to_string();
                    } else if let Some(p) = r.strip_prefix("result ") {
                        o.result = p.to_string();
                    } else if let Some(p) = r.strip_prefix("probe ") {
                        let toks: Vec<&str> = p.split_whitespace().collect();
                        if toks.len() >= 3 {
                            o.probes.push((toks[0].to_string(), toks[2].parse().unwrap_or(0)));
                        }
                        if let Some(i) = toks.iter().position(|t| *t == "max-depth") {
                            o.max_depth = toks.get(i + 1).and_then(|x| x.parse().ok()).unwrap_or(0);
                        }
                    } else if let Some(p) = r.strip_prefix("sweep-panic ") {
                        o.sweep_panics.push(p.to_string());
                    } else if let Some(p) = r.strip_prefix("sweep-done cases ") {
                        o.sweep_cases = p.split_whitespace().next().and_then(|x| x.parse().ok()).unwrap_or(0);
                    } else if r == "done" {
                        done = true;
                    } else if r == "timeout" {
                        o.status = "no result within 600 s (inconclusive)".into();
                        o.result = "timeout".into();
                        return o;
                    }
                }
            }
            #[cfg(unix)]
            {
                use std::os::unix::process::ExitStatusExt;
                if let Some(sig) = out.status.signal() {
                    o.died = true;
                    let err = String::from_utf8_lossy(&out.stderr);
                    let so = if err.contains("stack overflow") { " (stack overflow)" } else { "" };
                    o.status = format!("killed by signal {sig}{so}");
                }
            }
            if !o.died {
                if out.status.success() && done {
                    o.status = "exit 0".into();
                } else {
                    o.died = true;
                    o.status = format!("exit status {:?} without completing", out.status.code());
                }
            }
        }
    }
    o
}

/// Block shapes can nest without limit; flow shapes are cut off by the scanner's flow-depth limit
/// (an error value beyond 255 levels), so a deep tree can only come from block nesting.
fn shape_class(shape: &str) -> &'static str {
    if shape.starts_with("anchored-") {
        "anchored-block-nesting"
    } else if shape.starts_with("flow-") {
        "flow-nesting"
    } else {
        "block-nesting"
    }
}

/// Depth class used in violation signatures. Frame sizes differ between builds and compilers, so
/// the exact depth at which a recursive routine exhausts an 8 MiB stack is not stable; what is
/// stable is whether it happens at a few thousand levels (a few kB of input) or only far beyond.
fn bucket(depth: usize) -> &'static str {
    if depth < 3000 {
        "<3000"
    } else {
        ">=3000"
    }
}

pub fn run_c11(tier: &str, _seed: u64, shard: u64, nshards: u64, stats: &mut Stats) {
    let depths: &[usize] = if tier == "thorough" { &[10, 100, 1000, 3000, 10_000, 30_000, 100_000] } else { &[10, 100, 1000, 3000, 10_000] };
    let budget: u64 = 1024 * 1024; // stack bytes the library may use inside callbacks
    let mut n = 0u64;
    // per (shape, api): find the smallest depth that kills the process
    for (si, shape) in SHAPES.iter().enumerate() {
        for (ai, api) in APIS.iter().enumerate() {
            if ((si * APIS.len() + ai) as u64) % nshards != shard {
                continue;
            }
            // the alias chain costs quadratic loader work (a known finding of C01): three APIs suffice
            if *shape == "anchored-alias-chain" && !matches!(*api, "iterate" | "load" | "load-marked") {
                continue;
            }
            let mut first_death: Option<(usize, Outcome)> = None;
            let deep_ok = matches!(*api, "iterate" | "push" | "iterate-1MiB" | "push-1MiB");
            let ladder: Vec<usize> = if deep_ok && tier != "thorough" { depths.iter().copied().chain([30_000, 100_000]).collect() } else { depths.to_vec() };
            for &d in &ladder {
                if d > max_depth_for(shape) {
                    continue;
                }
                emit_progress(n);
                n += 1;
                let o = run_scenario(shape, d, api);
                stats.cnt("scenarios", 1);
                stats.cnt(&format!("api_{api}"), 1);
                stats.cnt(&format!("shape_{shape}"), 1);
                stats.max("max_depth_run", d as u64);
                stats.max("max_event_nesting_observed", o.max_depth);
                if o.result == "timeout" {
                    stats.cnt("scenario_timeouts_inconclusive", 1);
                } else if o.result == "error" {
                    stats.cnt("scenarios_ending_in_error_value", 1);
                } else if o.result == "ok" {
                    stats.cnt("scenarios_succeeding", 1);
                }
                for (name, bytes) in &o.probes {
                    stats.cnt("stack_probes", 1);
                    stats.max(&format!("max_stack_bytes_in_{name}_callbacks"), *bytes);
                    if *bytes > budget {
                        stats.violation(Violation {
                            sig: format!("C11/stack-growth/{name}/{}/depth{}", shape_class(shape), bucket(d)),
                            msg: format!("{name}: the library used {bytes} bytes of stack inside its callbacks at nesting depth {d} (shape {shape}); budget {budget}"),
                            case: J::obj(vec![("shape", J::s(shape)), ("depth", J::Int(d as i64)), ("api", J::s(api))]),
                        });
                    }
                }
                let key = format!("{shape}/{d}/{api}");
                stats.eval(if d >= 100 { Some(key.as_bytes()) } else { None });
                if stats.want_sample() && d >= 1000 {
                    stats.sample(J::obj(vec![
                        ("shape", J::s(shape)),
                        ("depth", J::Int(d as i64)),
                        ("api", J::s(api)),
                        ("child_status", J::s(&o.status)),
                        ("last_phase", J::s(&o.last_phase)),
                        ("result", J::s(&o.result)),
                    ]));
                }
                if o.died {
                    first_death = Some((d, o));
                    break;
                }
            }
            if let Some((d, o)) = first_death {
                stats.violation(Violation {
                    // (a deep collection used as a key twice: dying inside the load is its own class;
                    // clone / eq / hash / drop / emit of that tree are the block-nesting findings)
                    sig: format!("C11/abort/phase={}/{}/depth{}", o.last_phase, if shape.starts_with("keyed-") && o.last_phase == "load" { "deep-collection-key" } else { shape_class(shape) }, bucket(d)),
                    msg: format!("child process running {api} on shape {shape} at nesting depth {d} ({} bytes of input): {} during phase '{}'", make_input(shape, d).len(), o.status, o.last_phase),
                    case: J::obj(vec![("shape", J::s(shape)), ("depth", J::Int(d as i64)), ("api", J::s(api))]),
                });
            }
        }
    }
    // every depth up to a few hundred levels, with other innermost nodes and emitter settings
    let max = if tier == "thorough" { 700 } else { 280 };
    for (si, shape) in SHAPES.iter().enumerate() {
        if ((SHAPES.len() * APIS.len() + si) as u64) % nshards != shard {
            continue;
        }
        // (the alias chain makes the loaders do quadratic work: a short sweep is enough there)
        let max = if *shape == "anchored-alias-chain" { 60 } else { max.min(max_depth_for(shape)) };
        let o = run_scenario(shape, max, "sweep");
        stats.eval(Some(format!("{shape}/{max}/sweep").as_bytes()));
        stats.cnt("scenarios", 1);
        sweep_violations(shape, max, &o, stats);
    }
}

fn sweep_violations(shape: &str, max: usize, o: &Outcome, stats: &mut Stats) {
    stats.cnt("sweep_cases", o.sweep_cases);
    stats.cnt("sweeps", 1);
    let mut seen = std::collections::BTreeSet::new();
    for p in &o.sweep_panics {
        // "<depth> <leaf> <op> <message>"
        let mut it = p.splitn(4, ' ');
        let depth: usize = it.next().and_then(|x| x.parse().ok()).unwrap_or(0);
        let leaf: usize = it.next().and_then(|x| x.parse().ok()).unwrap_or(0);
        let op = it.next().unwrap_or("?").to_string();
        let msg = it.next().unwrap_or("");
        let opclass = op.split('(').next().unwrap_or("?").to_string();
        let sig = format!("C11/panic/{opclass}/{}/{}", shape_class(shape), crate::util::panic_site(msg));
        if !seen.insert(sig.clone()) {
            continue;
        }
        stats.violation(Violation {
            sig,
            msg: format!("{op} panicked on shape {shape} nested {depth} levels around {}: {msg}", LEAVES.get(leaf).unwrap_or(&"?")),
            case: J::obj(vec![("shape", J::s(shape)), ("depth", J::Int(max as i64)), ("api", J::s("sweep"))]),
        });
    }
    if o.died {
        stats.violation(Violation {
            sig: format!("C11/abort/sweep/{}/depth<3000", shape_class(shape)),
            msg: format!("child process sweeping shape {shape} over depths 1..={max}: {}", o.status),
            case: J::obj(vec![("shape", J::s(shape)), ("depth", J::Int(max as i64)), ("api", J::s("sweep"))]),
        });
    }
}

pub fn replay_c11(case: &J, stats: &mut Stats) {
    let shape = case.str_of("shape");
    let depth = case.int_of("depth") as usize;
    let api = case.str_of("api");
    let o = run_scenario(&shape, depth, &api);
    stats.eval(Some(format!("{shape}/{depth}/{api}").as_bytes()));
    if api == "sweep" {
        sweep_violations(&shape, depth, &o, stats);
        return;
    }
    eprintln!("replay C11: {shape} depth {depth} api {api}: {} (last phase {}, result {})", o.status, o.last_phase, o.result);
    if o.died {
        stats.violation(Violation {
            sig: format!("C11/abort/phase={}/{}/depth{}", o.last_phase, if shape.starts_with("keyed-") && o.last_phase == "load" { "deep-collection-key" } else { shape_class(&shape) }, bucket(depth)),
            msg: format!("{}", o.status),
            case: case.clone(),
        });
    }
}
