//! Input wrappers: `CountingInput` (work counter around a real back-end) and `ChunkInput<N>`
//! (contract-checking input with capacity N that relies on the trait's default method bodies).

use saphyr_parser::input::SkipTabs;
use saphyr_parser::Input;
use std::cell::{Cell, RefCell};
use std::collections::VecDeque;
use std::rc::Rc;

pub const WORK_BOUND_MSG: &str = "VMON-WORK-BOUND-EXCEEDED";

/// Forwarding wrapper that counts every trait call (bulk calls add the number of chars reported).
pub struct CountingInput<I: Input> {
    inner: I,
    ops: Rc<Cell<u64>>,
    bound: u64,
}

impl<I: Input> CountingInput<I> {
    pub fn new(inner: I, ops: Rc<Cell<u64>>, bound: u64) -> Self {
        CountingInput { inner, ops, bound }
    }
    #[inline]
    fn tick(&self, n: u64) {
        let v = self.ops.get() + n;
        self.ops.set(v);
        if v > self.bound {
            panic!("{}", WORK_BOUND_MSG);
        }
    }
}

impl<I: Input> Input for CountingInput<I> {
    fn lookahead(&mut self, count: usize) {
        self.tick(1);
        self.inner.lookahead(count);
    }
    fn buflen(&self) -> usize {
        self.inner.buflen()
    }
    fn bufmaxlen(&self) -> usize {
        self.inner.bufmaxlen()
    }
    fn buf_is_empty(&self) -> bool {
        self.inner.buf_is_empty()
    }
    fn raw_read_ch(&mut self) -> char {
        self.tick(1);
        self.inner.raw_read_ch()
    }
    fn raw_read_non_breakz_ch(&mut self) -> Option<char> {
        self.tick(1);
        self.inner.raw_read_non_breakz_ch()
    }
    fn skip(&mut self) {
        self.tick(1);
        self.inner.skip();
    }
    fn skip_n(&mut self, count: usize) {
        self.tick(1 + count as u64);
        self.inner.skip_n(count);
    }
    fn peek(&self) -> char {
        self.tick(1);
        self.inner.peek()
    }
    fn peek_nth(&self, n: usize) -> char {
        self.tick(1);
        self.inner.peek_nth(n)
    }
    fn look_ch(&mut self) -> char {
        self.tick(1);
        self.inner.look_ch()
    }
    fn next_char_is(&self, c: char) -> bool {
        self.tick(1);
        self.inner.next_char_is(c)
    }
    fn nth_char_is(&self, n: usize, c: char) -> bool {
        self.tick(1);
        self.inner.nth_char_is(n, c)
    }
    fn next_2_are(&self, c1: char, c2: char) -> bool {
        self.tick(1);
        self.inner.next_2_are(c1, c2)
    }
    fn next_3_are(&self, c1: char, c2: char, c3: char) -> bool {
        self.tick(1);
        self.inner.next_3_are(c1, c2, c3)
    }
    fn next_is_document_indicator(&self) -> bool {
        self.tick(1);
        self.inner.next_is_document_indicator()
    }
    fn next_is_document_start(&self) -> bool {
        self.tick(1);
        self.inner.next_is_document_start()
    }
    fn next_is_document_end(&self) -> bool {
        self.tick(1);
        self.inner.next_is_document_end()
    }
    fn skip_ws_to_eol(&mut self, skip_tabs: SkipTabs) -> (usize, Result<SkipTabs, &'static str>) {
        let r = self.inner.skip_ws_to_eol(skip_tabs);
        self.tick(1 + r.0 as u64);
        r
    }
    fn next_can_be_plain_scalar(&self, in_flow: bool) -> bool {
        self.tick(1);
        self.inner.next_can_be_plain_scalar(in_flow)
    }
    fn next_is_blank_or_break(&self) -> bool {
        self.tick(1);
        self.inner.next_is_blank_or_break()
    }
    fn next_is_blank_or_breakz(&self) -> bool {
        self.tick(1);
        self.inner.next_is_blank_or_breakz()
    }
    fn next_is_blank(&self) -> bool {
        self.tick(1);
        self.inner.next_is_blank()
    }
    fn next_is_break(&self) -> bool {
        self.tick(1);
        self.inner.next_is_break()
    }
    fn next_is_breakz(&self) -> bool {
        self.tick(1);
        self.inner.next_is_breakz()
    }
    fn next_is_z(&self) -> bool {
        self.tick(1);
        self.inner.next_is_z()
    }
    fn next_is_flow(&self) -> bool {
        self.tick(1);
        self.inner.next_is_flow()
    }
    fn next_is_digit(&self) -> bool {
        self.tick(1);
        self.inner.next_is_digit()
    }
    fn next_is_alpha(&self) -> bool {
        self.tick(1);
        self.inner.next_is_alpha()
    }
    fn skip_while_non_breakz(&mut self) -> usize {
        let r = self.inner.skip_while_non_breakz();
        self.tick(1 + r as u64);
        r
    }
    fn skip_while_blank(&mut self) -> usize {
        let r = self.inner.skip_while_blank();
        self.tick(1 + r as u64);
        r
    }
    fn fetch_while_is_alpha(&mut self, out: &mut String) -> usize {
        let r = self.inner.fetch_while_is_alpha(out);
        self.tick(1 + r as u64);
        r
    }
}

/// Shared log of contract breaches observed from the input's side.
pub type BreachLog = Rc<RefCell<Vec<String>>>;

/// A contract-checking input with buffer capacity `N`. It behaves like `BufferedInput` (NUL
/// padding at end of input, a break read past the end of a line is pushed into the buffer) but at
/// another capacity, implements only the required trait methods (so the scanner runs against the
/// trait's *default* bodies), and records every breach of the documented input contract.
pub struct ChunkInput<const N: usize> {
    chars: Vec<char>,
    pos: usize,
    buf: VecDeque<char>,
    breaches: BreachLog,
}

impl<const N: usize> ChunkInput<N> {
    pub fn new(s: &str, breaches: BreachLog) -> Self {
        ChunkInput { chars: s.chars().collect(), pos: 0, buf: VecDeque::with_capacity(N), breaches }
    }
    fn next_src(&mut self) -> Option<char> {
        let c = self.chars.get(self.pos).copied();
        if c.is_some() {
            self.pos += 1;
        }
        c
    }
    fn breach(&self, what: String) {
        let mut b = self.breaches.borrow_mut();
        if b.len() < 8 {
            b.push(what);
        }
    }
}

fn is_breakz(c: char) -> bool {
    c == '\n' || c == '\r' || c == '\0'
}

impl<const N: usize> Input for ChunkInput<N> {
    fn lookahead(&mut self, count: usize) {
        if count > N {
            self.breach(format!("lookahead({count}) exceeds advertised capacity {N}"));
        }
        while self.buf.len() < count {
            let c = self.next_src().unwrap_or('\0');
            self.buf.push_back(c);
        }
    }
    fn buflen(&self) -> usize {
        self.buf.len()
    }
    fn bufmaxlen(&self) -> usize {
        N
    }
    fn raw_read_ch(&mut self) -> char {
        if !self.buf.is_empty() {
            self.breach(format!("raw_read_ch with {} buffered chars", self.buf.len()));
        }
        self.next_src().unwrap_or('\0')
    }
    fn raw_read_non_breakz_ch(&mut self) -> Option<char> {
        if !self.buf.is_empty() {
            self.breach(format!("raw_read_non_breakz_ch with {} buffered chars", self.buf.len()));
        }
        match self.next_src() {
            Some(c) if is_breakz(c) => {
                self.buf.push_back(c);
                None
            }
            Some(c) => Some(c),
            None => None,
        }
    }
    fn skip(&mut self) {
        if self.buf.pop_front().is_none() {
            self.breach("skip() with an empty buffer".to_string());
        }
    }
    fn skip_n(&mut self, count: usize) {
        if count > self.buf.len() {
            self.breach(format!("skip_n({count}) with only {} buffered chars", self.buf.len()));
        }
        for _ in 0..count {
            self.buf.pop_front();
        }
    }
    fn peek(&self) -> char {
        match self.buf.front() {
            Some(c) => *c,
            None => {
                self.breach("peek() with an empty buffer".to_string());
                '\0'
            }
        }
    }
    fn peek_nth(&self, n: usize) -> char {
        match self.buf.get(n) {
            Some(c) => *c,
            None => {
                self.breach(format!("peek_nth({n}) with only {} buffered chars", self.buf.len()));
                '\0'
            }
        }
    }
}
