//! Monitors for C07 (loaded documents mirror the event stream) and C19 (node types / loading modes agree).

use crate::corpus;
use crate::events::*;
use crate::family;
use crate::gen;
use crate::mon_a::case_json;
use crate::mon_c::gen_stream;
use crate::nodes::*;
use crate::util::{catch, emit_progress, Rng, Stats, Violation, J};
use saphyr::{LoadableYamlNode, MarkedYaml, MarkedYamlOwned, Scalar, ScalarOwned, Yaml, YamlLoader, YamlOwned};
use saphyr_parser::verif::{self, VerifEvent};
use saphyr_parser::{Event, Parser, Span, SpannedEventReceiver};
use std::cell::RefCell;
use std::collections::hash_map::DefaultHasher;
use std::hash::{Hash, Hasher};
use std::rc::Rc;

fn viol(stats: &mut Stats, sig: String, msg: String, case: J) {
    stats.violation(Violation { sig, msg, case });
}

pub const TEMPLATES: &[&str] = &[
    "&a [*a]\n",
    "&a {k: *a}\n",
    "&a\n- b\n- *a\n",
    "- &a [x, *a]\n- *a\n",
    "&a {*a : v}\n",
    "{!!int x: 1, a: b}\n",
    "{!!int x: 1, !!bool y: 2, c: d}\n",
    "? !!null notnull\n: v\nk2: v2\n",
    "- &a a\n- {*a : 1, *a : 2}\n",
    "a: 1\na: 2\nb: 3\na: 4\n",
    "{1: a, 0x1: b, 0o1: c, +1: d}\n",
    "? [a, b]\n: 1\n? [a, b]\n: 2\n? {x: y}\n: 3\n",
    "&x k: &y v\n*x : *y\n",
    "--- &a\n- &b {c: &d e}\n- *b\n- *d\n--- \n- *a\n",
    "---\n---\n--- a\n...\n---\n...\n",
    "- !!str\n- !!null\n- !!int\n- !!float .5\n- !!bool true\n- !!int 0x10\n",
    "? !!float bad\n: 1\n? !!float worse\n: 2\nk: v\n",
    "- !!float inf\n- !!float nan\n- !!float -Infinity\n- !!float +NaN\n- !!float .inf\n- !!float 1e3\n- !!float 12\n",
    "a: !!int 0x1F\nb: !!int 12\nc: !!int 1_0\nd: !!bool yes\ne: !!bool true\nf: !!null nil\ng: !!null ~\nh: !!str 12\n",
    "[!!int \"5\", !!float 'inf', !!bool \"true\", !!null '']\n",
    "[&a x, {*a : [*a, &a y]}, *a]\n",
    "&a : &b\n*a : *b\n",
    "{a: b, ? c, d: }\n",
    "- &a\n  - &b\n    - &c [*a, *b]\n- *c\n",
    "--- &x foo\n...\n--- &y [ *y, bar ]\n",
    "&a [ 1, 2 ]\n...\n&m\nself: *m\nother: 3\n",
    "- &a 1\n- &b 2\n...\n- &c 3\n- &d [*c, *d]\n--- &e {k: *e}\n",
];

/// Problems of the library's resolution of one scalar event (text, style, resolved tag) against the
/// core-schema reference functions of the C08 monitor; tags outside the core schema are not judged.
fn scalar_value_problems(v: &str, style: saphyr_parser::ScalarStyle, tag: Option<&(String, String)>) -> Vec<(String, String)> {
    use saphyr_parser::{ScalarStyle, Tag};
    let t = tag.map(|(h, s)| Tag { handle: h.clone(), suffix: s.clone() });
    let Ok(got) = crate::util::catch(|| crate::nodes::cn_yaml(&Yaml::value_from_cow_and_metadata(v.to_string().into(), style, t.as_ref()))) else {
        return vec![("panic".into(), format!("value_from_cow_and_metadata({v:?}, {style:?}, {tag:?}) panicked"))];
    };
    let full = tag.map(|(h, s)| format!("{h}{s}"));
    let core = full.as_deref().and_then(|f| f.strip_prefix("tag:yaml.org,2002:")).filter(|s| matches!(*s, "int" | "float" | "bool" | "null" | "str"));
    if tag.is_some() && core.is_none() {
        return vec![];
    }
    let must_be_string = style != ScalarStyle::Plain || core == Some("str");
    if must_be_string {
        return if got == CN::Str(v.to_string()) { vec![] } else { vec![("not-the-same-string".into(), format!("{v:?} in style {style:?} with tag {full:?} loads as {} instead of the same string", got.show()))] };
    }
    match core {
        None => crate::mon_f::untagged_problems(v, &got),
        Some(sfx) => {
            let Ok(untagged) = crate::util::catch(|| crate::nodes::cn_scalar(&saphyr::Scalar::parse_from_cow(v.into()))) else { return vec![] };
            let g = if got == CN::Bad { None } else { Some(got) };
            crate::mon_f::tagged_problems(v, sfx, &untagged, &g).into_iter().map(|(c, m)| (format!("tag-{sfx}/{c}"), m)).collect()
        }
    }
}

struct Tee<'i, N: LoadableYamlNode<'i>> {
    loader: YamlLoader<'i, N>,
    log: Vec<(SEv, SSpan)>,
}
impl<'i, N: LoadableYamlNode<'i>> SpannedEventReceiver<'i> for Tee<'i, N> {
    fn on_event(&mut self, ev: Event<'i>, span: Span) {
        self.log.push((sev(&ev), sspan(&span)));
        self.loader.on_event(ev, span);
    }
}

#[derive(Default)]
struct H4 {
    /// (doc_stack, key_stack, document_end) after each loader event
    seen: Vec<(usize, usize, bool)>,
}

pub fn check_c07(input: &str, stats: &mut Stats) {
    if !crate::events::terminates(input) {
        stats.cnt("skipped_parse_does_not_terminate", 1);
        stats.eval(None);
        return;
    }
    let h4: Rc<RefCell<H4>> = Rc::new(RefCell::new(H4::default()));
    let h4c = h4.clone();
    verif::set_sink(Box::new(move |ev| {
        if let VerifEvent::LoaderEvent { doc_stack, key_stack, document_end, .. } = ev {
            h4c.borrow_mut().seen.push((doc_stack, key_stack, document_end));
        }
    }));
    let r = catch(|| {
        let mut tee: Tee<Yaml> = Tee { loader: YamlLoader::default(), log: vec![] };
        let mut p = Parser::new_from_str(input);
        let res = p.load(&mut tee, true);
        let docs: Vec<CN> = tee.loader.into_documents().iter().map(cn_yaml).collect();
        (res.err().map(|e| serr(&e)), tee.log, docs)
    });
    verif::clear_sink();
    let Ok((err, log, docs)) = r else {
        stats.eval(None);
        return;
    };
    {
        // H4: after the i-th event the loader's key stack is as deep as the number of mappings that
        // are open in the event log, its node stack holds the open collections (plus the completed
        // root until DocumentEnd), and both are empty after DocumentEnd.
        let g = h4.borrow();
        stats.cnt("h4_events", g.seen.len() as u64);
        let (mut open_maps, mut open_colls, mut root_done) = (0usize, 0usize, false);
        for (i, (e, _)) in log.iter().enumerate() {
            match e {
                SEv::MapStart { .. } => {
                    open_maps += 1;
                    open_colls += 1;
                }
                SEv::SeqStart { .. } => open_colls += 1,
                SEv::MapEnd => {
                    open_maps = open_maps.saturating_sub(1);
                    open_colls = open_colls.saturating_sub(1);
                    root_done = open_colls == 0;
                }
                SEv::SeqEnd => {
                    open_colls = open_colls.saturating_sub(1);
                    root_done = open_colls == 0;
                }
                SEv::Scalar { .. } | SEv::Alias(_) => {
                    if open_colls == 0 {
                        root_done = true;
                    }
                }
                SEv::DocEnd => root_done = false,
                _ => {}
            }
            let Some(&(ds, ks, doc_end)) = g.seen.get(i) else { break };
            // (the exact depth of the node stack between events is an implementation choice; what
            // must hold is one pending-key slot per open mapping and empty stacks after DocumentEnd)
            let _ = root_done;
            if ks != open_maps || (doc_end && (ds != 0 || ks != 0)) {
                viol(
                    stats,
                    "C07/h4-stack-invariant".into(),
                    format!("after event #{i} {}: loader stacks (nodes {ds}, keys {ks}) but the events have {open_colls} open collections ({open_maps} mappings), root completed: {root_done}", e.line()),
                    case_json(input, vec![]),
                );
                break;
            }
        }
    }
    // load fails exactly when the parser reports an error
    let direct = catch(|| Yaml::load_from_str(input).map(|d| d.iter().map(cn_yaml).collect::<Vec<_>>()).map_err(|e| serr(&e)));
    let Ok(direct) = direct else {
        stats.eval(None);
        return;
    };
    match (&err, &direct) {
        (Some(_), Ok(_)) => viol(stats, "C07/load-ok-although-parser-error".into(), "load_from_str succeeded although the parser reports an error".into(), case_json(input, vec![])),
        (None, Err(e)) => viol(stats, "C07/load-error-although-parser-ok".into(), format!("load_from_str failed ({}) although the parser reports no error", e.display), case_json(input, vec![])),
        _ => {}
    }
    stats.cnt(if err.is_some() { "rejected_inputs" } else { "accepted_inputs" }, 1);
    let mut nontrivial = false;
    if err.is_none() {
        match reference_fold(&log, true) {
            Err(m) => {
                // the event stream itself is malformed: C02's subject
                stats.cnt("reference_fold_impossible", 1);
                let _ = m;
            }
            Ok(refdocs) => {
                // "each scalar becomes the value chosen by its text, style and tag": the fold resolves
                // scalars with the library's own function, so that function's answer for every scalar
                // event of the log is held against the core-schema reference of C08 here
                for (e, _) in &log {
                    if let SEv::Scalar { v, style, tag, .. } = e {
                        for (class, msg) in scalar_value_problems(v, *style, tag.as_ref()) {
                            viol(stats, format!("C07/scalar-value/{class}"), msg, case_json(input, vec![]));
                        }
                        stats.cnt("scalar_values_checked", 1);
                    }
                }
                nontrivial = refdocs.iter().any(|d| !matches!(d, RN::Leaf(_)));
                let n_docs_events = log.iter().filter(|e| matches!(e.0, SEv::DocStart(_))).count();
                if docs.len() != n_docs_events || refdocs.len() != docs.len() {
                    viol(
                        stats,
                        "C07/document-count".into(),
                        format!("{} documents loaded for {} DocumentStart events", docs.len(), n_docs_events),
                        case_json(input, vec![]),
                    );
                } else {
                    for (i, (r, l)) in refdocs.iter().zip(docs.iter()).enumerate() {
                        stats.cnt("documents_compared", 1);
                        if let Err(m) = same_as_reference(r, l, &format!("doc{i}")) {
                            let class = if m.contains("order") {
                                "order"
                            } else if m.contains("entries") || m.contains("items") {
                                "size"
                            } else if m.contains("BADVALUE") {
                                "badvalue"
                            } else {
                                "content"
                            };
                            viol(stats, format!("C07/tree-differs/{class}"), m, case_json(input, vec![]));
                            break;
                        }
                    }
                    if log.iter().any(|e| matches!(e.0, SEv::Alias(_))) {
                        stats.cnt("documents_with_aliases", 1);
                    }
                    if refdocs.iter().any(has_dup) {
                        stats.cnt("documents_with_duplicate_keys", 1);
                    }
                }
                // the three entry points agree
                if let Ok(d) = &direct {
                    if *d != docs {
                        viol(stats, "C07/entry-points/load_from_str".into(), "load_from_str differs from load_from_parser over the same text".into(), case_json(input, vec![]));
                    }
                }
                if let Ok(Ok(d)) = catch(|| Yaml::load_from_iter(input.chars()).map(|d| d.iter().map(cn_yaml).collect::<Vec<_>>())) {
                    if d != docs {
                        viol(stats, "C07/entry-points/load_from_iter".into(), "load_from_iter differs from load_from_parser over the same text".into(), case_json(input, vec![]));
                    }
                }
            }
        }
    }
    stats.eval(if nontrivial { Some(input.as_bytes()) } else { None });
    if nontrivial && stats.want_sample() && input.len() > 12 {
        stats.sample(J::obj(vec![("input", J::s(input)), ("loaded", J::Arr(docs.iter().map(|d| J::s(&d.show())).collect()))]));
    }
}

fn has_dup(r: &RN) -> bool {
    match r {
        RN::Leaf(_) => false,
        RN::Seq(v) => v.iter().any(has_dup),
        RN::Map(p) => {
            let keys: Vec<CN> = p.iter().map(|(k, _)| k.to_cn()).collect();
            for i in 0..keys.len() {
                for j in 0..i {
                    if keys[i] == keys[j] {
                        return true;
                    }
                }
            }
            p.iter().any(|(k, v)| has_dup(k) || has_dup(v))
        }
    }
}

/// Stream of inputs for the loader-level properties: family cases, model-rendered streams,
/// templates, corpus.
pub fn loader_inputs(tier: &str, seed: u64, shard: u64, nshards: u64, scale: f64, stats: &mut Stats, f: &mut dyn FnMut(&str, &mut Stats)) {
    let thorough = tier == "thorough";
    let b = family::Budget {
        g1_lens: if thorough { [5, 5, 0] } else if tier == "miri" { [1, 0, 0] } else { [4, 0, 0] },
        g1_sampled: 0,
        random: ((if thorough { 2_000_000.0 } else { 90_000.0 }) * scale) as u64,
        long: 0,
        long_size: 0,
    };
    family::for_each_case(b, seed, shard, nshards, 0, u64::MAX, false, stats, &mut |s, _o, st| f(s, st));
    let per = ((if thorough { 2_000_000.0 } else { 90_000.0 }) * scale) as u64 / nshards;
    let mut r = Rng::derive(seed, 0xE07, shard);
    for i in 0..per {
        if i % 4000 == 0 {
            emit_progress(i);
        }
        let rd = gen_stream(&mut r, true, true);
        f(&rd.text, stats);
        if r.chance(1, 6) {
            let t = r.pick(TEMPLATES);
            let m = if r.chance(1, 2) { t.to_string() } else { gen::mutate(&mut r, t) };
            f(&m, stats);
        }
        if r.chance(1, 12) {
            // several templates as the documents of one stream, closed by `...` or not
            let mut s = String::new();
            for _ in 0..r.range(2, 5) {
                let t = r.pick(TEMPLATES);
                if !t.starts_with("---") {
                    s.push_str(if r.chance(1, 2) { "---\n" } else { "--- " });
                    if s.ends_with("--- ") && (t.contains(": ") || t.starts_with("- ") || t.starts_with('?')) && !t.starts_with('{') && !t.starts_with('[') {
                        s.pop();
                        s.push('\n');
                    }
                }
                s.push_str(t);
                if r.chance(1, 2) {
                    s.push_str("...\n");
                }
            }
            f(&s, stats);
        }
    }
    if shard == 0 {
        for t in TEMPLATES {
            f(t, stats);
        }
        for c in corpus::all() {
            f(&c.yaml, stats);
        }
    }
}

// ------------------------------------------------------------------------------------------------
// C19
// ------------------------------------------------------------------------------------------------

fn hash_of<T: Hash>(t: &T) -> u64 {
    let mut h = DefaultHasher::new();
    t.hash(&mut h);
    h.finish()
}

pub fn check_c19(input: &str, stats: &mut Stats, rng: &mut Rng) {
    if !crate::events::terminates(input) {
        stats.cnt("skipped_parse_does_not_terminate", 1);
        stats.eval(None);
        return;
    }
    type R = Result<Vec<CN>, SErr>;
    let a: Result<R, String> = catch(|| Yaml::load_from_str(input).map(|d| d.iter().map(cn_yaml).collect()).map_err(|e| serr(&e)));
    let b: Result<R, String> = catch(|| YamlOwned::load_from_str(input).map(|d| d.iter().map(cn_owned).collect()).map_err(|e| serr(&e)));
    let c: Result<R, String> = catch(|| MarkedYaml::load_from_str(input).map(|d| d.iter().map(cn_marked).collect()).map_err(|e| serr(&e)));
    let d: Result<R, String> = catch(|| MarkedYamlOwned::load_from_str(input).map(|d| d.iter().map(cn_marked_owned).collect()).map_err(|e| serr(&e)));
    let (Ok(a), Ok(b), Ok(c), Ok(d)) = (a, b, c, d) else {
        stats.eval(None);
        return;
    };
    for (name, other) in [("YamlOwned", &b), ("MarkedYaml", &c), ("MarkedYamlOwned", &d)] {
        stats.cnt("node_type_comparisons", 1);
        if *other != a {
            let what = match (&a, other) {
                (Ok(x), Ok(y)) => {
                    let i = x.iter().zip(y.iter()).position(|(p, q)| p != q);
                    match i {
                        Some(i) => format!("document {i}: Yaml {} vs {name} {}", x[i].show(), y[i].show()),
                        None => format!("{} vs {} documents", x.len(), y.len()),
                    }
                }
                (x, y) => format!("Yaml {:?} vs {name} {:?}", x.as_ref().err().map(|e| e.display.clone()), y.as_ref().err().map(|e| e.display.clone())),
            };
            viol(stats, format!("C19/node-types-differ/{name}"), what, case_json(input, vec![]));
        }
    }
    let Ok(eager) = a else {
        stats.cnt("rejected_inputs", 1);
        stats.eval(None);
        return;
    };
    stats.cnt("accepted_inputs", 1);

    // marked nodes: equality and hashing ignore spans — load the same data shifted by a comment
    // line and extra indentation-free prefix
    let shifted = format!("# shift\n\n{input}");
    if !input.starts_with('\u{feff}') {
        let r = catch(|| {
            let x = MarkedYaml::load_from_str(input).ok()?;
            let y = MarkedYaml::load_from_str(&shifted).ok()?;
            let same_data = x.iter().map(cn_marked).collect::<Vec<_>>() == y.iter().map(cn_marked).collect::<Vec<_>>();
            let spans_differ = x.iter().zip(y.iter()).any(|(p, q)| p.span != q.span);
            let eq = x == y;
            let h = x.iter().map(hash_of).collect::<Vec<_>>() == y.iter().map(hash_of).collect::<Vec<_>>();
            let xo = MarkedYamlOwned::load_from_str(input).ok()?;
            let yo = MarkedYamlOwned::load_from_str(&shifted).ok()?;
            let eqo = xo == yo;
            let ho = xo.iter().map(hash_of).collect::<Vec<_>>() == yo.iter().map(hash_of).collect::<Vec<_>>();
            Some((same_data, spans_differ, eq, h, eqo, ho))
        });
        if let Ok(Some((same_data, spans_differ, eq, h, eqo, ho))) = r {
            if same_data && spans_differ {
                stats.cnt("marked_pairs_with_different_spans", 1);
                if !eq || !eqo {
                    viol(stats, "C19/marked-eq-depends-on-span".into(), "two marked trees with the same data but different spans compare unequal".into(), case_json(input, vec![]));
                }
                if !h || !ho {
                    viol(stats, "C19/marked-hash-depends-on-span".into(), "two marked trees with the same data but different spans hash differently".into(), case_json(input, vec![]));
                }
            }
        }
    }

    // marked nodes with the *same* spans but different data must not compare equal: change one
    // letter of the input (same layout, same spans) and compare the two loads
    if let Some(pos) = input.char_indices().find(|(_, c)| c.is_ascii_lowercase()).map(|x| x.0) {
        let mut other = input.to_string();
        let old = other.as_bytes()[pos];
        let new = if old == b'q' { "w" } else { "q" };
        other.replace_range(pos..pos + 1, new);
        let r = catch(|| {
            let x = MarkedYaml::load_from_str(input).ok()?;
            let y = MarkedYaml::load_from_str(&other).ok()?;
            let xo = MarkedYamlOwned::load_from_str(input).ok()?;
            let yo = MarkedYamlOwned::load_from_str(&other).ok()?;
            let data_differs = x.iter().map(cn_marked).collect::<Vec<_>>() != y.iter().map(cn_marked).collect::<Vec<_>>();
            let same_root_spans = x.len() == y.len() && x.iter().zip(y.iter()).all(|(p, q)| p.span == q.span);
            Some((data_differs, same_root_spans, x == y, xo == yo))
        });
        if let Ok(Some((data_differs, same_root_spans, eq, eqo))) = r {
            if data_differs && same_root_spans {
                stats.cnt("marked_pairs_same_span_different_data", 1);
                if eq || eqo {
                    viol(
                        stats,
                        "C19/marked-eq-ignores-data".into(),
                        "two marked trees with different data (and identical spans) compare equal".into(),
                        J::obj(vec![("input", J::s(input)), ("other", J::s(&other))]),
                    );
                }
            }
        }
    }

    // deferred resolution + parse_representation_recursive == eager load
    macro_rules! deferred {
        ($ty:ty, $cn:expr, $name:literal) => {{
            let r = catch(|| {
                let mut loader: YamlLoader<$ty> = YamlLoader::default();
                loader.early_parse(false);
                let mut p = Parser::new_from_str(input);
                p.load(&mut loader, true).ok()?;
                let mut docs = loader.into_documents();
                let before: Vec<CN> = docs.iter().map($cn).collect();
                let rets: Vec<bool> = docs.iter_mut().map(|d| d.parse_representation_recursive()).collect();
                let after: Vec<CN> = docs.iter().map($cn).collect();
                // resolving again leaves resolved nodes untouched and returns true unless BadValue... (returns true: nothing left to parse)
                let rets2: Vec<bool> = docs.iter_mut().map(|d| d.parse_representation_recursive()).collect();
                let again: Vec<CN> = docs.iter().map($cn).collect();
                Some((before, rets, after, rets2, again))
            });
            if let Ok(Some((before, rets, after, rets2, again))) = r {
                stats.cnt("deferred_loads", 1);
                if before.iter().any(|d| has_rep(d)) {
                    stats.cnt("deferred_docs_with_representations", 1);
                }
                if after != eager {
                    let i = after.iter().zip(eager.iter()).position(|(p, q)| p != q).unwrap_or(0);
                    viol(
                        stats,
                        format!("C19/deferred-differs/{}", $name),
                        format!(
                            "{}: deferred load + parse_representation_recursive gives {}, eager load gives {}",
                            $name,
                            after.get(i).map_or("<missing>".to_string(), CN::show),
                            eager.get(i).map_or("<missing>".to_string(), CN::show)
                        ),
                        case_json(input, vec![]),
                    );
                } else {
                    for (i, ret) in rets.iter().enumerate() {
                        // return value: true iff resolution produced no BadValue that was not already there
                        let produced_bad = count_bad(&after[i]) > count_bad(&before[i]);
                        // if resolution merged keys (node count changed) a failed node may have been
                        // dropped: then only "true although a BadValue appeared" is conclusive
                        let merged = count_nodes(&after[i]) != count_nodes(&before[i]);
                        if (*ret && produced_bad) || (!*ret && !produced_bad && !merged) {
                            viol(
                                stats,
                                format!("C19/deferred-return-value/{}", $name),
                                format!("{}: parse_representation_recursive returned {ret} although it {} a BadValue", $name, if produced_bad { "produced" } else { "did not produce" }),
                                case_json(input, vec![]),
                            );
                        }
                    }
                }
                if again != after {
                    viol(
                        stats,
                        format!("C19/resolve-twice-changes/{}", $name),
                        format!("{}: resolving an already resolved tree changed it", $name),
                        case_json(input, vec![]),
                    );
                }
                if rets2.iter().any(|r| !*r) {
                    viol(
                        stats,
                        format!("C19/resolve-twice-returns-false/{}", $name),
                        format!("{}: resolving an already resolved tree returned false", $name),
                        case_json(input, vec![]),
                    );
                }
            }
        }};
    }
    deferred!(Yaml, cn_yaml, "Yaml");
    deferred!(YamlOwned, cn_owned, "YamlOwned");
    // the marked types expose parse_representation_recursive through their data
    {
        let r = catch(|| {
            let mut loader: YamlLoader<MarkedYaml> = YamlLoader::default();
            loader.early_parse(false);
            let mut p = Parser::new_from_str(input);
            p.load(&mut loader, true).ok()?;
            let mut docs = loader.into_documents();
            for d in &mut docs {
                d.data.parse_representation_recursive();
            }
            Some(docs.iter().map(cn_marked).collect::<Vec<_>>())
        });
        if let Ok(Some(after)) = r {
            stats.cnt("deferred_loads", 1);
            if after != eager {
                viol(stats, "C19/deferred-differs/MarkedYaml".into(), "MarkedYaml: deferred load + resolution differs from the eager load".into(), case_json(input, vec![]));
            }
        }
    }

    // parse_representation on single already-resolved nodes (non-recursive variant)
    {
        let r = catch(|| {
            let mut docs = Yaml::load_from_str(input).ok()?;
            let before: Vec<CN> = docs.iter().map(cn_yaml).collect();
            let rets: Vec<bool> = docs.iter_mut().map(|d| d.parse_representation()).collect();
            let after: Vec<CN> = docs.iter().map(cn_yaml).collect();
            Some((before, rets, after))
        });
        if let Ok(Some((before, rets, after))) = r {
            if before != after {
                viol(stats, "C19/parse_representation-changes-resolved-node".into(), "parse_representation on an already resolved node changed it".into(), case_json(input, vec![]));
            }
            if rets.iter().any(|x| !*x) {
                viol(stats, "C19/parse_representation-returns-false".into(), "parse_representation on an already resolved node returned false".into(), case_json(input, vec![]));
            }
        }
    }

    // Scalar -> into_owned -> as_scalar is the identity
    let mut scalars: Vec<CN> = vec![];
    collect_scalars(&eager, &mut scalars);
    if !scalars.is_empty() {
        let k = rng.below(scalars.len());
        for s in scalars.iter().skip(k).take(4) {
            let sc: Option<Scalar> = match s {
                CN::Null => Some(Scalar::Null),
                CN::Bool(b) => Some(Scalar::Boolean(*b)),
                CN::Int(i) => Some(Scalar::Integer(*i)),
                CN::Float(f) => Some(Scalar::FloatingPoint((*f).into())),
                CN::Str(t) => Some(Scalar::String(t.as_str().into())),
                _ => None,
            };
            if let Some(sc) = sc {
                let owned: ScalarOwned = sc.clone().into_owned();
                let back = owned.as_scalar();
                stats.cnt("scalar_round_trips", 1);
                if back != sc || cn_scalar(&back) != *s || hash_of(&back) != hash_of(&sc) {
                    viol(stats, "C19/scalar-owned-round-trip".into(), format!("Scalar {sc:?} -> into_owned -> as_scalar gives {back:?}"), case_json(input, vec![]));
                }
            }
        }
    }

    let nt = eager.iter().any(CN::has_collection);
    stats.eval(if nt { Some(input.as_bytes()) } else { None });
    if nt && stats.want_sample() && input.len() > 12 {
        stats.sample(J::obj(vec![("input", J::s(input)), ("data", J::Arr(eager.iter().map(|d| J::s(&d.show())).collect()))]));
    }
}

fn has_rep(c: &CN) -> bool {
    match c {
        CN::Rep(..) => true,
        CN::Seq(v) => v.iter().any(has_rep),
        CN::Map(v) => v.iter().any(|(k, x)| has_rep(k) || has_rep(x)),
        _ => false,
    }
}

fn count_bad(c: &CN) -> usize {
    match c {
        CN::Bad => 1,
        CN::Seq(v) => v.iter().map(count_bad).sum(),
        CN::Map(v) => v.iter().map(|(k, x)| count_bad(k) + count_bad(x)).sum(),
        _ => 0,
    }
}

fn count_nodes(c: &CN) -> usize {
    match c {
        CN::Seq(v) => 1 + v.iter().map(count_nodes).sum::<usize>(),
        CN::Map(v) => 1 + v.iter().map(|(k, x)| count_nodes(k) + count_nodes(x)).sum::<usize>(),
        _ => 1,
    }
}

fn collect_scalars(docs: &[CN], out: &mut Vec<CN>) {
    for d in docs {
        match d {
            CN::Seq(v) => collect_scalars(v, out),
            CN::Map(v) => {
                for (k, x) in v {
                    collect_scalars(std::slice::from_ref(k), out);
                    collect_scalars(std::slice::from_ref(x), out);
                }
            }
            CN::Null | CN::Bool(_) | CN::Int(_) | CN::Float(_) | CN::Str(_) => out.push(d.clone()),
            _ => {}
        }
    }
}

// ------------------------------------------------------------------------------------------------
// C07 against an external oracle: the JSON renderings that ship with the yaml-test-suite
// ------------------------------------------------------------------------------------------------

/// Structural comparison of a loaded document with the suite's JSON rendering: container kinds,
/// sizes, order, string keys and string contents must agree. Differences that are only about scalar
/// *typing* (C08's subject, e.g. `True`) are counted and ignored.
fn json_shape_diff(j: &J, c: &CN, path: &str, ignored: &mut u64) -> Option<String> {
    match (j, c) {
        (J::Arr(a), CN::Seq(b)) => {
            if a.len() != b.len() {
                return Some(format!("{path}: sequence of {} items, the suite's JSON has {}", b.len(), a.len()));
            }
            for (i, (x, y)) in a.iter().zip(b).enumerate() {
                if let Some(d) = json_shape_diff(x, y, &format!("{path}[{i}]"), ignored) {
                    return Some(d);
                }
            }
            None
        }
        (J::Obj(a), CN::Map(b)) => {
            if a.len() != b.len() {
                return Some(format!("{path}: mapping of {} entries, the suite's JSON has {}", b.len(), a.len()));
            }
            // (the member order of the suite's JSON objects is not significant: match by key)
            for (ck, cv) in b {
                match ck {
                    CN::Str(s) => {
                        let Some((jk, jv)) = a.iter().find(|(jk, _)| jk == s) else {
                            return Some(format!("{path}: key {s:?} which the suite's JSON does not have"));
                        };
                        if let Some(d) = json_shape_diff(jv, cv, &format!("{path}.{jk}"), ignored) {
                            return Some(d);
                        }
                    }
                    _ => *ignored += 1,
                }
            }
            None
        }
        (J::Str(a), CN::Str(b)) => {
            if a != b {
                Some(format!("{path}: string {b:?}, the suite's JSON has {a:?}"))
            } else {
                None
            }
        }
        (J::Arr(_) | J::Obj(_), other) | (_, other @ (CN::Seq(_) | CN::Map(_))) => Some(format!("{path}: loaded {} where the suite's JSON has a different kind of node", other.show())),
        _ => {
            *ignored += 1;
            None
        }
    }
}

pub fn check_corpus_json(stats: &mut Stats) {
    for c in corpus::all() {
        let Some(js) = &c.json else { continue };
        if c.fail {
            continue;
        }
        let Ok(jdocs) = crate::util::JParser::parse_stream(js) else {
            stats.cnt("corpus_json_unparsable", 1);
            continue;
        };
        if !crate::events::terminates(&c.yaml) {
            continue;
        }
        let Ok(Ok(docs)) = catch(|| Yaml::load_from_str(&c.yaml).map(|d| d.iter().map(cn_yaml).collect::<Vec<_>>())) else { continue };
        stats.cnt("corpus_json_cases", 1);
        let mut ignored = 0u64;
        let diff = if docs.len() != jdocs.len() {
            // an empty stream has no JSON; a document that is only null may be rendered as nothing
            if jdocs.is_empty() || docs.is_empty() {
                None
            } else {
                Some(format!("{} documents loaded, the suite's JSON has {}", docs.len(), jdocs.len()))
            }
        } else {
            jdocs.iter().zip(docs.iter()).enumerate().find_map(|(i, (j, d))| json_shape_diff(j, d, &format!("doc{i}"), &mut ignored))
        };
        stats.cnt("corpus_json_scalar_typing_differences_ignored", ignored);
        if let Some(d) = diff {
            viol(stats, format!("C07/corpus-json/{}", c.id), format!("yaml-test-suite case {}: {d}", c.id), case_json(&c.yaml, vec![("suite_json", J::s(js))]));
        } else {
            stats.cnt("corpus_json_matching", 1);
        }
    }
}
