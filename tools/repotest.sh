#!/bin/bash
# run the repository's test suite (baseline command) and summarize
cd /repo && CARGO_NET_OFFLINE=true cargo test --workspace --no-fail-fast --offline 2>&1 | grep -E "^test result|FAILED|failed|panicked|error(\[|:)" | awk '{a[$0]++} END{for(k in a) print a[k]"x "k}' | sort -k2 | head -30
