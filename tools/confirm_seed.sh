#!/bin/bash
# usage: tools/confirm_seed.sh <id> <PROP> — confirm a sub-agent's change in its scratch worktree /tmp/wt/<id>:
#   (1) compiles and the existing tests pass with the change, (2) demo fails with it, (3) demo passes without it.
# On success stores /verif/seeded/<id>/{patch.diff,demo.rs,meta.json,NOTES.md}. Prints one summary line.
id="$1"; prop="$2"; wt=/tmp/wt/$id; out=/tmp/wt-out/$id
cd "$wt" || { echo "$id: no worktree"; exit 2; }
export CARGO_NET_OFFLINE=true CARGO_TARGET_DIR=/tmp/wt-target-confirm
git checkout -q -- . ; git clean -fdq saphyr/tests parser/tests >/dev/null 2>&1
git apply "$out/patch.diff" || { echo "$id: patch does not apply"; exit 2; }
# (1) existing tests with the change (all targets; yaml-test-suite reported separately)
t1=$(cargo test --workspace --no-fail-fast --offline 2>&1)
suite_ok=$(echo "$t1" | grep -c "402 passed; 0 failed")
fails=$(echo "$t1" | grep -E "^test result: FAILED|error: test failed|error\[|could not compile" | grep -v yaml-test-suite | head -5)
nfail=$(echo "$t1" | grep -E "^test .* FAILED$" | wc -l)
passed=$(echo "$t1" | grep -E "^test result: ok" | sed -E 's/.* ([0-9]+) passed.*/\1/' | paste -sd+ | bc)
# (2) demo with change
cp "$out/demo.rs" saphyr/tests/vdemo.rs
d1=$(cargo test -p saphyr --test vdemo --offline 2>&1); rc1=$?
# (3) demo without change
git checkout -q -- parser saphyr/src 2>/dev/null
d2=$(cargo test -p saphyr --test vdemo --offline 2>&1); rc2=$?
rm -f saphyr/tests/vdemo.rs
git apply "$out/patch.diff"
status="REJECTED"
if [ -z "$fails" ] && [ "$rc1" -ne 0 ] && [ "$rc2" -eq 0 ]; then status="CONFIRMED"; fi
if [ "$status" = CONFIRMED ]; then
  mkdir -p /verif/seeded/$id
  cp "$out/patch.diff" "$out/demo.rs" /verif/seeded/$id/
  [ -f "$out/NOTES.md" ] && cp "$out/NOTES.md" /verif/seeded/$id/NOTES.md
  python3 - "$id" "$prop" "$suite_ok" "$passed" "$rc1" "$rc2" <<'PY'
import json,sys
id,prop,suite_ok,passed,rc1,rc2=sys.argv[1:]
notes=open(f'/tmp/wt-out/{id}/NOTES.md').read() if __import__('os').path.exists(f'/tmp/wt-out/{id}/NOTES.md') else ''
meta={'id':id,'breaks_property':prop,'origin':'independent sub-agent given only the property text and a scratch worktree',
 'confirmed_by':'tools/confirm_seed.sh in the scratch worktree',
 'what_was_run':['cargo test --workspace --no-fail-fast --offline (with change): all non-suite targets pass, %s tests passed in total; yaml-test-suite 402/402: %s'%(passed,'yes' if suite_ok!='0' else 'NO'),
                 'cargo test -p saphyr --test vdemo (demo.rs) with change: exit %s (fails)'%rc1,
                 'same demo without the change: exit %s (passes)'%rc2],
 'needs_to_manifest':'see NOTES.md','detected_by':[]}
json.dump(meta,open(f'/verif/seeded/{id}/meta.json','w'),indent=1)
PY
fi
echo "$id: $status fails=[$fails] passed_total=$passed suite402=$suite_ok demo_with=$rc1 demo_without=$rc2"
