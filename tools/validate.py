#!/usr/bin/env python3-vt
import json, sys, glob, jsonschema
es = json.load(open('/root/.vp/EVIDENCE.schema.json'))
ms = json.load(open('/root/.vp/MANIFEST.schema.json'))
ok = True
if len(sys.argv) > 1 and sys.argv[1] == 'manifest' or len(sys.argv) == 1:
    try:
        jsonschema.validate(json.load(open('/verif/MANIFEST.json')), ms); print('MANIFEST valid')
    except Exception as e:
        ok = False; print('MANIFEST INVALID', str(e)[:300])
for f in sorted(glob.glob('/verif/evidence/*.json')):
    try:
        jsonschema.validate(json.load(open(f)), es); print(f, 'valid')
    except Exception as e:
        ok = False; print(f, 'INVALID', str(e)[:300])
sys.exit(0 if ok else 1)
