#!/usr/bin/env python3
"""Run the quick checks against every seeded change (seeded/<id>/patch.diff) and every reversed
fix (mutants/revert-*.diff); record which checks detect which change.
usage: tools/matrix.py seeded|mutants [tier]"""
import json, os, subprocess, sys, glob, re
ROOT = '/verif'
PROPMAP = {  # reversed fix commit -> properties expected to notice
 'debf372': ['C16', 'C03'], '9aeba53': ['C16'], 'd31c1f5+688f6ba+7805628+ac2519d+ddb472f': ['C03'], '843244d+536948b': ['C17'], '843244d+1a1484c': ['C17'], 'f8a7db3+11dfba4': ['C03', 'C05'], 'd31c1f5+688f6ba': ['C06'], '50305e8': ['C03'], 'c62ef1c': ['C03'], '4039241': ['C05', 'C03'],
 'f08ee02': ['C03'], '11dfba4': ['C03'], 'ac2519d': ['C03'], '779ceca': ['C03'], '0eed86a': ['C06'], '5e7d8dd': ['C06'], '9621f03': ['C05'],
 '0e7cbb6': ['C07'], '04ec5e6': ['C19'], '1028aaf': ['C08'], 'd346f58': ['C09'], '5f1d691': ['C09'], '86bbeba': ['C18'], '68198ea': ['C17'],
 '0fbfc11': ['C13'], '4fcee2b': ['C11'], 'fb72df7': ['C09'], '39aa9de': ['C06'], '3da0903': ['C06'], 'd31c1f5': ['C06'], '7805628': ['C03'], '8a46c9a': ['C03'], '688f6ba': ['C06'], '843244d': ['C17'], '9b2c365': ['C09'], 'f8a7db3': ['C05'], 'b4aff4a': ['C09'], 'c5d8646': ['C09'], '28eaa91': ['C08'], '1a1484c': ['C17'], 'd585833': ['C04', 'C03'], '536948b': ['C17'], '95ee053': ['C12'],
}
def run(cmd):
    return subprocess.run(cmd, shell=True, stdout=subprocess.PIPE, stderr=subprocess.STDOUT, text=True)
def apply(patch):
    if run('git -C /repo diff --quiet').returncode != 0:
        sys.exit('repo dirty')
    r = run(f'git -C /repo apply {patch}')
    return r.returncode == 0
def revert():
    run('git -C /repo checkout -- .')
def check(prop, tier):
    r = run(f'cd {ROOT} && ./check {prop} {tier}')
    sigs = re.findall(r'signature: (\S+)', r.stdout)
    return r.returncode, sigs
def main():
    which = sys.argv[1]; tier = sys.argv[2] if len(sys.argv) > 2 else 'quick'
    only = sys.argv[3] if len(sys.argv) > 3 else None   # e.g. 'd' = only ids ending in d; results file not rewritten
    rows = []
    if which == 'seeded':
        for d in sorted(glob.glob(f'{ROOT}/seeded/*/')):
            id = os.path.basename(d.rstrip('/'))
            if only and not id.endswith(only):
                continue
            meta = json.load(open(d + 'meta.json')); prop = meta['breaks_property']
            if not apply(d + 'patch.diff'):
                rows.append((id, prop, 'PATCH DOES NOT APPLY', [])); revert(); continue
            try:
                rc, sigs = check(prop, tier)
            finally:
                revert()
            meta['detected_by'] = [{'check': f'./check {prop} {tier}', 'exit': rc, 'signatures': sigs[:6]}]
            json.dump(meta, open(d + 'meta.json', 'w'), indent=1)
            rows.append((id, prop, 'DETECTED' if rc == 1 else f'MISSED (rc={rc})', sigs[:3]))
            print(rows[-1], flush=True)
        out = f'{ROOT}/seeded/RESULTS.md'
    else:
        for patch in sorted(glob.glob(f'{ROOT}/mutants/revert-*.diff')):
            h = os.path.basename(patch).split('-')[1]
            for prop in PROPMAP.get(h, []):
                if not apply(patch):
                    rows.append((os.path.basename(patch), prop, 'PATCH DOES NOT APPLY', [])); revert(); continue
                try:
                    rc, sigs = check(prop, tier)
                finally:
                    revert()
                rows.append((os.path.basename(patch)[:60], prop, 'DETECTED' if rc == 1 else f'MISSED (rc={rc})', sigs[:3]))
                print(rows[-1], flush=True)
        out = f'{ROOT}/mutants/RESULTS.md'
    if only:
        return
    with open(out, 'w') as f:
        f.write(f'# Detection matrix ({which}, tier {tier})\n\n| change | property | outcome | first signatures |\n|---|---|---|---|\n')
        for r in rows:
            f.write(f'| {r[0]} | {r[1]} | {r[2]} | {"; ".join(r[3])} |\n')
main()
