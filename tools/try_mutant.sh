#!/bin/bash
# usage: tools/try_mutant.sh <patch.diff> <tier> <PROP>...   — apply a seeded change to /repo, run checks, always revert
set -u
patch="$(readlink -f "$1")"; tier="$2"; shift 2
cd /repo || exit 2
if ! git diff --quiet; then echo "repo dirty, refusing"; exit 2; fi
git apply "$patch" || { echo "patch does not apply"; exit 2; }
trap 'git -C /repo checkout -- . ' EXIT
cd /verif
for p in "$@"; do
  out=$(./check "$p" "$tier" 2>&1); rc=$?
  echo "== $p rc=$rc"; echo "$out" | grep -E "VIOLATION|KNOWN|INCONCLUSIVE|signature|^\s{2}" | cut -c1-300 | head -12
done
