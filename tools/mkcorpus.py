#!/usr/bin/env python3
"""One-time conversion of the yaml-test-suite data shipped in /repo to /verif/corpus/suite.jsonl.
Development aid (uses PyYAML); the committed JSONL is what the checks use, so the oracle does not
move when /repo is edited. Mirrors parser/tests/yaml-test-suite.rs (field inheritance, skip, visual_to_raw)."""
import json, os, sys, yaml
SRC = '/repo/parser/tests/yaml-test-suite/src'
def raw(s):
    for a, b in [("␣", " "), ("»", "\t"), ("—", ""), ("←", "\r"), ("⇔", "﻿"), ("↵", ""), ("∎\n", "")]:
        s = s.replace(a, b)
    return s
out = []
for fn in sorted(os.listdir(SRC)):
    if not fn.endswith('.yaml'): continue
    tests = yaml.safe_load(open(os.path.join(SRC, fn), encoding='utf-8'))
    cur = {}
    for idx, t in enumerate(tests):
        name = fn[:-5] + ('-%02d' % idx if len(tests) > 1 else '')
        cur.pop('fail', None)
        cur.update(t)
        if 'skip' in cur: continue
        rec = {'id': name, 'yaml': raw(cur['yaml']), 'tree': raw(cur.get('tree', '')), 'fail': bool(cur.get('fail', False))}
        if 'json' in cur and not rec['fail']: rec['json'] = cur['json']
        out.append(rec)
with open('/verif/corpus/suite.jsonl', 'w', encoding='utf-8') as f:
    for r in out: f.write(json.dumps(r, ensure_ascii=True) + '\n')
print(len(out), 'cases', sum(r['fail'] for r in out), 'fail', sum('json' in r for r in out), 'json')
