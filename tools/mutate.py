#!/usr/bin/env python3
"""Mutation sampling: small syntactic changes to the saphyr sources (operator swaps, off-by-one
constants, dropped statements, negated conditions). A mutant that still compiles and still passes the
repository's own test suite is a "realistic change the tests cannot see"; the quick checks are then run
against it. Survivors that no check reports are either equivalent (no property is affected) or a gap.

  tools/mutate.py gen N SEED            write N sampled mutants to work/mut/<id>.diff (+ index.json)
  tools/mutate.py filter [K]            phase 1: compile + repository tests in K scratch worktrees
                                        under /tmp/wt (removed afterwards); result in work/mut/phase1.json
  tools/mutate.py check                 phase 2: apply each survivor to /repo, run the quick checks of the
                                        properties its file can affect, revert; result in mutation/RESULTS.md

Nothing is ever committed to /repo; /repo must be clean when `check` starts.
"""
import difflib, json, os, random, re, subprocess, sys, time, shutil, concurrent.futures as cf

ROOT = os.path.dirname(os.path.dirname(os.path.abspath(__file__)))
REPO = '/repo'
OUT = os.environ.get('MUT_OUT', f'{ROOT}/work/mut')
RES = os.environ.get('MUT_RES', f'{ROOT}/mutation')
FILES = {
    'parser/src/scanner.rs': 10, 'parser/src/parser.rs': 6, 'parser/src/input/str.rs': 2, 'parser/src/input/buffered.rs': 1,
    'parser/src/input.rs': 2, 'parser/src/char_traits.rs': 1,
    'saphyr/src/loader.rs': 3, 'saphyr/src/scalar.rs': 3, 'saphyr/src/emitter.rs': 4, 'saphyr/src/encoding.rs': 3,
    'saphyr/src/macros.rs': 4, 'saphyr/src/yaml.rs': 1, 'saphyr/src/yaml_owned.rs': 1, 'saphyr/src/annotated/yaml_data.rs': 1,
    'saphyr/src/annotated/marked_yaml.rs': 1,
}
# which checks can be affected by a change in a file (ordered: cheapest / most likely first)
PROPS = {
    'parser/': ['C03', 'C04', 'C05', 'C06', 'C02', 'C16', 'C15', 'C13', 'C10', 'C14', 'C17', 'C07', 'C12', 'C01'],
    'saphyr/src/loader.rs': ['C07', 'C19', 'C15', 'C20', 'C13', 'C08', 'C09', 'C12'],
    'saphyr/src/scalar.rs': ['C08', 'C13', 'C19', 'C09', 'C07', 'C20'],
    'saphyr/src/emitter.rs': ['C09', 'C11'],
    'saphyr/src/encoding.rs': ['C18'],
    'saphyr/src/macros.rs': ['C20', 'C19', 'C08', 'C07', 'C09', 'C12', 'C13'],
    'saphyr/src/': ['C20', 'C19', 'C07', 'C08', 'C09', 'C12', 'C13'],
}
SWAPS = [
    (r'==', '!='), (r'!=', '=='), (r'<=', '<'), (r'>=', '>'), (r'(?<![<>=!-])<(?![<=])', '<='), (r'(?<![<>=!-])>(?![>=])', '>='),
    (r'&&', '||'), (r'\|\|', '&&'), (r'\+ 1\b', '+ 0'), (r'\+ 1\b', '+ 2'), (r'- 1\b', '- 0'), (r'\btrue\b', 'false'), (r'\bfalse\b', 'true'),
    (r'\+=', '-='), (r'\bis_empty\(\)', 'is_empty() == false'), (r'if !', 'if '), (r'\.saturating_sub\(1\)', ''),
]

def sites(path):
    src = open(f'{REPO}/{path}').read().split('\n')
    out = []
    in_hook = 0; in_test = False
    for i, line in enumerate(src):
        s = line.strip()
        if 'cfg(test)' in s:
            in_test = True
        if in_test:
            continue
        if 'verif-hooks' in s or 'verif::' in s:
            in_hook = 8
        if in_hook:
            in_hook -= 1
            continue
        if not s or s.startswith('//') or s.startswith('#[') or s.startswith('use ') or 'debug_print' in s or 'unreachable' in s:
            continue
        code = line.split('//')[0]
        # strings are left alone: mask them
        masked = re.sub(r'"(\\.|[^"\\])*"', lambda m: '"' + 'x' * (len(m.group(0)) - 2) + '"', code)
        masked = re.sub(r"'(\\.|[^'\\])'", lambda m: "'" + 'x' * (len(m.group(0)) - 2) + "'", masked)
        for pat, rep in SWAPS:
            for m in re.finditer(pat, masked):
                if '->' in masked[max(0, m.start() - 1):m.end() + 1] or '=>' in masked[max(0, m.start() - 1):m.end() + 1]:
                    continue
                if pat.startswith('(?<![<>=!-])') and re.search(r'(impl|fn |struct |enum |type |Vec<|Option<|Result<|<\'|::<|Cow<|Box<|dyn |where |: [A-Z]\w*<)', masked):
                    continue
                new = code[:m.start()] + rep + code[m.end():]
                out.append((i, new + line[len(code):], f'{pat} -> {rep}'))
        # integer literals (not 0/1 inside indexes of tuples etc.)
        for m in re.finditer(r'(?<![\w.\'])(\d+)(?![\w.\'])', masked):
            v = int(m.group(1))
            if v > 4096:
                continue
            for nv in ({v + 1, max(0, v - 1)} - {v}):
                out.append((i, code[:m.start()] + str(nv) + code[m.end():] + line[len(code):], f'const {v} -> {nv}'))
        # dropped statement: a line that is one complete call / assignment statement
        if re.match(r'^\s*(self\.[\w.]+\([^;]*\)\??;|\*?self\.[\w.]+ (=|\+=|-=) [^;]+;|[a-z_]+\.(push|push_str|clear|insert|pop)\([^;]*\);|[a-z_]+ (=|\+=) [^;]+;)\s*$', code) and 'let ' not in code:
            out.append((i, re.match(r'^\s*', line).group(0) + '// (statement removed)', 'statement removed'))
        # early return / break / continue dropped is too destructive; `?` dropped does not compile
    return src, out

def gen(n, seed):
    rng = random.Random(seed)
    os.makedirs(OUT, exist_ok=True)
    for f in os.listdir(OUT):
        os.remove(f'{OUT}/{f}')
    allsites = {}
    for path in FILES:
        src, st = sites(path)
        allsites[path] = (src, st)
    total_w = sum(FILES.values())
    index = []
    for path, w in FILES.items():
        src, st = allsites[path]
        k = min(len(st), max(1, round(n * w / total_w)))
        for j, (i, newline, what) in enumerate(rng.sample(st, k)):
            if newline == src[i]:
                continue
            new = list(src); new[i] = newline
            diff = ''.join(difflib.unified_diff([l + '\n' for l in src], [l + '\n' for l in new], f'a/{path}', f'b/{path}', n=3))
            # the files end without a trailing extra newline entry: src was split on '\n', last element is ''
            mid = f"{path.replace('/', '_').replace('.rs', '')}_{i + 1}_{j}"
            open(f'{OUT}/{mid}.diff', 'w').write(diff.replace('\n\\ No newline at end of file', ''))
            index.append({'id': mid, 'file': path, 'line': i + 1, 'what': what, 'old': src[i].strip(), 'new': newline.strip()})
    json.dump(index, open(f'{OUT}/index.json', 'w'), indent=1)
    print(f'{len(index)} mutants written to {OUT}')

def sh(cmd, cwd=None, timeout=None, env=None):
    try:
        r = subprocess.run(cmd, shell=True, cwd=cwd, stdout=subprocess.PIPE, stderr=subprocess.STDOUT, text=True, timeout=timeout, env=env)
        return r.returncode, r.stdout
    except subprocess.TimeoutExpired as e:
        return 124, (e.stdout or '') if isinstance(e.stdout, str) else ''

def worker(k, ids):
    wt = f'/tmp/wt/m{k}'
    sh(f'git -C {REPO} worktree remove --force {wt}; rm -rf {wt}')
    rc, out = sh(f'git -C {REPO} worktree add --detach {wt} HEAD')
    env = dict(os.environ, CARGO_NET_OFFLINE='true', CARGO_TARGET_DIR=f'{wt}/target')
    res = {}
    # warm build
    sh('cargo test --workspace --offline --no-run', cwd=wt, timeout=1800, env=env)
    for mid in ids:
        sh('git checkout -q -- .', cwd=wt)
        rc, out = sh(f'git apply --whitespace=nowarn {OUT}/{mid}.diff', cwd=wt)
        if rc != 0:
            res[mid] = 'patch-failed'; continue
        rc, out = sh('cargo build --workspace --offline 2>&1 | tail -3', cwd=wt, timeout=900, env=env)
        rc2, out2 = sh('cargo build --workspace --offline', cwd=wt, timeout=900, env=env)
        if rc2 != 0:
            res[mid] = 'does-not-compile'; continue
        t0 = time.time()
        rc, out = sh('timeout -k 5 400 cargo test --workspace --no-fail-fast --offline', cwd=wt, timeout=460, env=env)
        if rc == 0:
            res[mid] = 'survives-tests'
        elif rc in (124, 137):
            res[mid] = 'killed-by-tests(timeout)'
            sh('pkill -f /tmp/wt/m%d/target || true' % k)
        else:
            res[mid] = 'killed-by-tests'
        print(k, mid, res[mid], f'{time.time() - t0:.0f}s', flush=True)
    sh(f'git -C {REPO} worktree remove --force {wt}; rm -rf {wt}; git -C {REPO} worktree prune')
    return res

def phase1(k):
    index = json.load(open(f'{OUT}/index.json'))
    ids = [m['id'] for m in index]
    chunks = [ids[i::k] for i in range(k)]
    res = {}
    with cf.ThreadPoolExecutor(k) as ex:
        for r in ex.map(lambda a: worker(*a), list(enumerate(chunks))):
            res.update(r)
    json.dump(res, open(f'{OUT}/phase1.json', 'w'), indent=1)
    from collections import Counter
    print(Counter(res.values()))

def props_for(path):
    for pre, ps in PROPS.items():
        if path.startswith(pre):
            return ps
    return ['C01']

def phase2():
    index = {m['id']: m for m in json.load(open(f'{OUT}/index.json'))}
    p1 = json.load(open(f'{OUT}/phase1.json'))
    if sh(f'git -C {REPO} diff --quiet')[0] != 0:
        sys.exit('repo dirty')
    os.makedirs(f'{RES}/undetected', exist_ok=True)
    rows = []
    resfile = f'{OUT}/phase2.json'
    done = json.load(open(resfile)) if os.path.exists(resfile) else {}
    for mid, st in sorted(p1.items()):
        if st != 'survives-tests':
            continue
        m = index[mid]
        if mid in done:
            rows.append(done[mid]); continue
        if sh(f'git -C {REPO} apply --whitespace=nowarn {OUT}/{mid}.diff')[0] != 0:
            print(mid, 'patch no longer applies (the line was changed by a later fix): skipped', flush=True)
            continue
        hit = None; sigs = []
        try:
            for p in props_for(m['file']):
                rc, out = sh(f'cd {ROOT} && ./check {p} quick', timeout=3600)
                if rc == 1:
                    hit = p; sigs = re.findall(r'signature: (\S+)', out)[:3]; break
                if rc not in (0, 1):
                    hit = f'{p}:rc={rc}'; break
        finally:
            sh(f'git -C {REPO} checkout -- .')
        row = {'id': mid, 'file': m['file'], 'line': m['line'], 'what': m['what'], 'old': m['old'], 'new': m['new'], 'detected_by': hit, 'signatures': sigs}
        done[mid] = row; rows.append(row)
        json.dump(done, open(resfile, 'w'), indent=1)
        print(mid, '->', hit, sigs[:1], flush=True)
        if hit is None:
            shutil.copy(f'{OUT}/{mid}.diff', f'{RES}/undetected/{mid}.diff')
    from collections import Counter
    c = Counter(p1.values())
    with open(f'{RES}/RESULTS.md', 'w') as f:
        f.write('# Mutation sampling (tools/mutate.py)\n\n')
        f.write(f'sampled mutants: {len(p1)}; ' + ', '.join(f'{k}: {v}' for k, v in sorted(c.items())) + '\n\n')
        det = [r for r in rows if r['detected_by']]
        f.write(f'survivors of the repository tests: {len(rows)}; reported by a quick check: {len(det)}; not reported: {len(rows) - len(det)} (triaged in TRIAGE.md)\n\n')
        f.write('| mutant | change | reported by | first signature |\n|---|---|---|---|\n')
        for r in rows:
            f.write(f"| {r['file']}:{r['line']} | `{r['old'][:60]}` → `{r['new'][:60]}` | {r['detected_by'] or '—'} | {(r['signatures'] or [''])[0]} |\n")
    print(f'{len(rows)} survivors, {len([r for r in rows if r["detected_by"]])} detected')

if __name__ == '__main__':
    cmd = sys.argv[1]
    if cmd == 'gen':
        gen(int(sys.argv[2]), int(sys.argv[3]))
    elif cmd == 'filter':
        phase1(int(sys.argv[2]) if len(sys.argv) > 2 else 8)
    elif cmd == 'check':
        phase2()
