#!/usr/bin/env python3
"""Line coverage of the saphyr sources reached by a property's quick workload (informative evidence,
not a gate). usage: tools/coverage.py <PROP> [scale]  -> prints JSON {file: {lines, covered, percent}}"""
import json, os, subprocess, sys, glob, shutil
ROOT = '/verif'; H = ROOT + '/harness'
BIN = '/root/.rustup/toolchains/nightly-x86_64-unknown-linux-gnu/lib/rustlib/x86_64-unknown-linux-gnu/bin'
def main():
    prop = sys.argv[1]; scale = sys.argv[2] if len(sys.argv) > 2 else '0.2'
    os.makedirs(ROOT + '/work', exist_ok=True)
    # build scripts are instrumented too and would drop default_*.profraw files into the crate
    # directories under /repo: send those to a scratch file instead
    env = dict(os.environ, CARGO_NET_OFFLINE='true', RUSTFLAGS='-Cinstrument-coverage', CARGO_TARGET_DIR=H + '/target-cov',
               LLVM_PROFILE_FILE=ROOT + '/work/cov-build-%p.profraw')
    b = subprocess.run(['cargo', '+nightly', 'build', '--release', '--offline', '--quiet'], cwd=H, env=env, stdout=subprocess.PIPE, stderr=subprocess.STDOUT, text=True)
    if b.returncode != 0:
        print(json.dumps({'error': 'coverage build failed', 'detail': b.stdout[-400:]})); return
    exe = H + '/target-cov/release/vmon'
    prof = ROOT + '/work/cov'; shutil.rmtree(prof, ignore_errors=True); os.makedirs(prof)
    procs = []
    for sh in range(16):
        e = dict(os.environ, LLVM_PROFILE_FILE=f'{prof}/{prop}-{sh}.profraw')
        procs.append(subprocess.Popen([exe, 'run', prop, '--tier', 'quick', '--seed', '1', '--shard', str(sh), '--nshards', '16', '--scale', scale],
                                      stdout=subprocess.DEVNULL, stderr=subprocess.DEVNULL, env=e, cwd=ROOT))
    for p in procs: p.wait()
    subprocess.run([BIN + '/llvm-profdata', 'merge', '-sparse', *glob.glob(prof + '/*.profraw'), '-o', prof + '/m.profdata'], check=True)
    r = subprocess.run([BIN + '/llvm-cov', 'export', '-summary-only', '-instr-profile', prof + '/m.profdata', exe], stdout=subprocess.PIPE, text=True)
    data = json.loads(r.stdout)
    out = {}
    for f in data['data'][0]['files']:
        n = f['filename']
        if n.startswith('/repo/parser/src') or n.startswith('/repo/saphyr/src'):
            l = f['summary']['lines']; fn = f['summary']['functions']
            out[n[len('/repo/'):]] = {'lines': l['count'], 'covered': l['covered'], 'percent': round(l['percent'], 1), 'functions': fn['count'], 'functions_covered': fn['covered']}
    if len(sys.argv) > 3:
        # list the lines of one source file that the workload never executed
        r = subprocess.run([BIN + '/llvm-cov', 'show', '-instr-profile', prof + '/m.profdata', exe, '/repo/' + sys.argv[3]], stdout=subprocess.PIPE, text=True)
        for line in r.stdout.splitlines():
            parts = line.split('|', 2)
            if len(parts) == 3 and parts[1].strip() == '0':
                print(parts[0].strip(), parts[2][:110], file=sys.stderr)
    shutil.rmtree(prof, ignore_errors=True)
    for f in glob.glob(ROOT + '/work/cov-build-*.profraw'):
        os.remove(f)
    print(json.dumps(out, indent=1))
main()
