#!/usr/bin/env python3
"""Generate /verif/MANIFEST.json from tools/props.py (single source of truth for the check list)."""
import json, os, sys
sys.path.insert(0, os.path.dirname(os.path.abspath(__file__)))
from props import PROPS
ALL = ['C%02d' % i for i in range(1, 21)]
hooks_commits = os.popen("git -C /repo log --format=%H --grep='^verif-hooks:'").read().split()
m = {
    'version': 1,
    'setup_cmd': './check setup',
    'hooks': {
        'guard': 'verif-hooks',
        'enable': 'cargo feature `verif-hooks` of crates saphyr-parser and saphyr (saphyr/verif-hooks enables saphyr-parser/verif-hooks); the harness crate /verif/harness depends on /repo/parser and /repo/saphyr by path with that feature',
        'baseline_off_cmd': 'cd /repo && cargo test --workspace --no-fail-fast --offline',
        'source_commits': hooks_commits[::-1],
        'add_only': True,
    },
    'engines': [{
        'name': 'vmon', 'path': '/verif/harness',
        'serves_properties': [p for p in ALL if p in PROPS],
        'kind_free_text': 'Rust harness: generators, reference models, online trace checkers, differential comparators and hook sinks; driven by /verif/check (python3, stdlib) which shards over 16 worker processes, aggregates, matches known findings and writes evidence',
    }],
    'checks': [],
    'not_applicable': [],
    'notes': 'Technique family: runtime monitoring. Every check reports held-on-what-was-observed / VIOLATION / INCONCLUSIVE (exit 0/1/2). Known findings: /verif/known_findings.json. Seeded changes used to validate the monitors: /verif/seeded/.',
}
for p in ALL:
    if p in PROPS:
        c = PROPS[p]
        m['checks'].append({
            'property_id': p,
            'quick_cmd': f'./check {p} quick',
            'thorough_cmd': f'./check {p} thorough',
            'evidence_file': f'/verif/evidence/{p}.json',
            'replay_cmd_template': './check replay {path}',
            'engine': 'vmon',
            'level_claimed': {'category': c.get('level', 'exploration'), 'text': c.get('level_text', 'runtime monitors over generated executions; held on what was observed'), 'design_ref': c.get('design_ref', 'DESIGN.md section 3 ' + p)},
            'level_note': c.get('level_note', 'trusts the harness oracles (written from the YAML 1.2.2 specification and the property text) and the Rust toolchain; covers only executions produced by the run'),
            'technique': c.get('technique', 'runtime monitoring'),
        })
    else:
        m['not_applicable'].append({'property_id': p, 'reason': 'runtime monitor for this property is still under construction in this commit; not claimed yet'})
json.dump(m, open('/verif/MANIFEST.json', 'w'), indent=1)
print('checks:', len(m['checks']), 'not_applicable:', len(m['not_applicable']))
