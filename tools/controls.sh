#!/bin/bash
# Negative controls: behaviour-preserving or property-preserving changes (controls/*.diff) must leave
# every check silent. usage: tools/controls.sh [tier] [patch...]
tier=${1:-quick}; shift
cd /verif
patches=("$@"); [ ${#patches[@]} -eq 0 ] && patches=(controls/*.diff)
git -C /repo diff --quiet || { echo "repo dirty"; exit 2; }
for p in "${patches[@]}"; do
  p=$(readlink -f "$p")
  git -C /repo apply "$p" || { echo "DOES NOT APPLY $p"; continue; }
  for prop in C01 C02 C03 C04 C05 C06 C07 C08 C09 C10 C11 C12 C13 C14 C15 C16 C17 C18 C19 C20; do
    ./check $prop $tier > work/control.out 2>&1; rc=$?
    if [ $rc -ne 0 ]; then echo "ALARM $(basename $p) $prop rc=$rc"; grep -A2 "VIOLATION\|INCONCLUSIVE" work/control.out | head -9; fi
  done
  git -C /repo checkout -- .
  echo "done $(basename $p)"
done
