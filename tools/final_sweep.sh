#!/bin/bash
# usage: tools/final_sweep.sh <tier> <deadline-epoch> P1 P2 ...  — run the checks one after the other from /verif against /repo,
# commit each evidence file as it is produced, stop starting new checks once the deadline has passed.
tier="$1"; deadline="$2"; shift 2
cd /verif
for p in "$@"; do
  now=$(date +%s)
  if [ "$now" -ge "$deadline" ]; then echo "deadline reached before $p" >> work/final_sweep.log; break; fi
  ./check "$p" "$tier" > work/final_${p}_${tier}.log 2>&1; rc=$?
  echo "$p $tier rc=$rc $(grep -E "^\[$p $tier\]" work/final_${p}_${tier}.log | cut -c1-160)" >> work/final_sweep.log
  if [ "$rc" -eq 0 ]; then
    git add evidence/$p.json && git commit -qm "evidence: $p $tier on the final tree (seed ${VERIF_SEED:-1})" -- evidence/$p.json
  fi
done
echo "sweep $tier finished" >> work/final_sweep.log
