"""Per-property configuration of the driver: non-triviality rule text, builds, required observations."""

FAMILY_RULE = ("inputs: every string of length <= L over 18-symbol YAML indicator alphabets (exhaustive), sampled longer "
               "ones, seeded token soups, line-structured soups, mutated yaml-test-suite / repo documents, long inputs; "
               "a case is non-trivial when the parse produced at least one event beyond StreamStart or an error not at "
               "index 0; distinct = distinct input texts (64-bit hash of the text, merged over all workers)")

COMMON_ASSUME = [
    "the harness is built from /repo's current working tree with cargo feature verif-hooks (hooks only add calls)",
    "verdict covers only the executions produced by this run (exploration, not proof)",
]

PROPS = {
    'C01': dict(
        rule=FAMILY_RULE,
        builds=[('rel', 1.0, 1.0), ('chk', 0.35, 1.0)],
        must_observe=['parses', 'loads', 'h2_events'],
        assumptions=COMMON_ASSUME + [
            "linear work is checked as the fixed affine bounds 64*(n+1) input operations and 8*(n+1) events",
            "consumers stop at the first Err (the iterator is not fused after an error)",
        ],
    ),
    'C02': dict(rule=FAMILY_RULE, builds=[('rel', 1.0, 1.0)], must_observe=['events_checked'],
                assumptions=COMMON_ASSUME),
    'C10': dict(rule=FAMILY_RULE, builds=[('rel', 1.0, 1.0)], must_observe=['backend_runs', 'agreements'],
                assumptions=COMMON_ASSUME + ["ChunkInput<N> models BufferedInput at other capacities and implements only the required trait methods"]),
    'C12': dict(rule=FAMILY_RULE, builds=[('rel', 1.0, 1.0), ('chk', 0.35, 1.0)], must_observe=['spans_checked', 'plain_spans_checked', 'quoted_spans_checked', 'marked_nodes_checked'],
                assumptions=COMMON_ASSUME + ["positions at end of input are exempt from the line/column recount (the statement covers positions before the end)",
                                             "a plain scalar '~' with an empty span is taken for the scalar synthesized for an omitted node and is exempt from the span-text rule; with a non-empty span it must cover a literal '~'"]),
    'C14': dict(rule=FAMILY_RULE + "; only CR-free inputs containing at least one line break count as non-trivial", builds=[('rel', 1.0, 1.0)],
                must_observe=['comparisons', 'inputs_with_breaks'], assumptions=COMMON_ASSUME),
    'C17': dict(rule=FAMILY_RULE, builds=[('rel', 1.0, 1.0)], must_observe=['histories', 'push_pull_comparisons', 'single_doc_call_sequences', 'inputs_with_all_histories', 'next_then_load_histories'],
                assumptions=COMMON_ASSUME + ["a history ends at the first Err returned by peek or next (the statement lets the consumer stop there)"]),
    'C03': dict(
        rule=("streams rendered from random abstract node trees by the spec-derived renderer under random legal layout choices "
              "(constructs exercised are counted per construct_* key), plus the 308 valid yaml-test-suite cases and their "
              "layout-preserving variants; non-trivial = the stream contains at least one collection; distinct = distinct stream texts"),
        builds=[('rel', 1.0, 1.0)], must_observe=['streams_matching_model', 'corpus_variants_matching', 'construct_block-map', 'construct_flow-seq'],
        assumptions=COMMON_ASSUME + ["the renderer emits only layouts that YAML 1.2.2 makes unconditionally legal (DESIGN.md Appendix A)",
                                     "DocumentStart's explicit flag, spans and absolute anchor numbers are not compared"]),
    'C06': dict(
        rule=("a well-formed rendered stream (accepted by the parser) damaged by one of 14 operators placed with the renderer's marks so "
              "that the result is ill-formed by construction, plus the 94 yaml-test-suite error cases; every case is non-trivial; "
              "distinct = distinct (damaged text, operator)"),
        builds=[('rel', 1.0, 1.0)], must_observe=['rejected_as_required', 'corpus_error_cases'] + ['applied_' + o for o in [
            'cut-inside-open-construct', 'swap-closing-bracket', 'tab-as-indentation', 'dedent-between-levels', 'flow-continued-too-shallow',
            'quoted-key-over-two-lines', 'implicit-key-longer-than-1024', 'second-root-node', 'bad-escape', 'alias-without-anchor',
            'undeclared-tag-handle', 'repeated-yaml-directive', 'directive-without-document', 'content-after-document-end']],
        assumptions=COMMON_ASSUME + ["only the listed damage classes are generated; nothing is asserted about message or position of the error"]),
    'C04': dict(
        rule=("target strings (exhaustively every string of length <= L over the 14-symbol alphabet a SP TAB LF ' \" \\ : # - e-acute emoji NEL , ; "
              "random longer ones) x {plain, single-quoted, double-quoted} x 9 syntactic contexts x random legal presentations (escape vs "
              "literal per character, line folding, continuation indentation, escaped breaks); the presentation is generated from the target; "
              "non-trivial = non-empty target; distinct = distinct (document text, style)"),
        builds=[('rel', 1.0, 1.0)],
        must_observe=['presentations_matching', 'style_plain', 'style_single', 'style_double', 'multi_line_presentations', 'escaped_line_breaks'],
        assumptions=COMMON_ASSUME + ["each rendering is cross-checked with an independent fold/unescape reference before it is used (oracle self-test); mismatches are counted, not reported as violations"]),
    'C05': dict(
        rule=("line lists (exhaustively all lists of <= 3 lines over 6 line kinds; random lists of <= 12 lines over 12 kinds) x {literal, folded} x "
              "{strip, clip, keep} x {auto, explicit} indentation x 7 parent contexts x 5 end-of-input shapes; reference value from YAML 1.2.2 "
              "section 8.1; non-trivial = at least one non-empty line; distinct = distinct (document text, style)"),
        builds=[('rel', 1.0, 1.0)],
        must_observe=['block_scalars_matching', 'chomp_strip', 'chomp_clip', 'chomp_keep', 'explicit_indicator', 'auto_detected', 'eof_no-final-newline', 'content_indent_beyond_buffer'],
        assumptions=COMMON_ASSUME + ["a content-less scalar is empty under strip and clip (YAML 1.2.2 example 8.6)", "at the top level an explicit indentation indicator is read as counting from column 0 (the libyaml / PyYAML reading, and the literal reading of the statement)"]),
    'C07': dict(
        rule=("inputs from the C01 generators (exhaustive small scope, soups, line soups, corpus mutants), model-rendered streams, the yaml-test-suite "
              "documents and alias/duplicate-key/tag-mismatch templates and their mutants; a tee receiver logs the very events the loader was given and an "
              "independent fold of that log is compared with the loaded documents; non-trivial = accepted input with at least one collection; distinct = distinct input texts"),
        builds=[('rel', 1.0, 1.0)],
        must_observe=['accepted_inputs', 'rejected_inputs', 'documents_compared', 'scalar_values_checked', 'h4_events', 'documents_with_aliases', 'documents_with_duplicate_keys'],
        assumptions=COMMON_ASSUME + ["scalar resolution uses the library's own value_from_cow_and_metadata (resolution is C08's subject)",
                                     "for a repeated key the position of either its first or its last occurrence is accepted"]),
    'C19': dict(
        rule=("same inputs as C07; non-trivial = accepted input with at least one collection; distinct = distinct input texts"),
        builds=[('rel', 1.0, 1.0)],
        must_observe=['node_type_comparisons', 'deferred_loads', 'deferred_docs_with_representations', 'marked_pairs_with_different_spans', 'scalar_round_trips'],
        assumptions=COMMON_ASSUME + ["the return value of parse_representation_recursive is checked in both directions only when resolution did not merge mapping keys"]),
    'C08': dict(
        rule=("scalar texts: exhaustively every string of length <= L over the 27-symbol alphabet of characters that occur in core-schema literals, an explicit "
              "word list (all-caps words, boundary integers in all radices, look-alikes), random spellings and single-edit mutants; x {untagged, 4 core tags, "
              "!!str, other yaml.org tags, foreign tags} x 5 styles, and through real documents in the four node types; oracle = hand-written recognisers for the "
              "YAML 1.2.2 section 10.3.2 regular expressions; non-trivial = the text is a literal of some type or one deletion away from one; distinct = distinct texts"),
        builds=[('rel', 1.0, 1.0)],
        must_observe=['untagged_readings', 'tagged_readings', 'styled_readings', 'borrowed_owned_comparisons', 'document_loads', 'read_as_int', 'read_as_float', 'read_as_bool', 'read_as_null', 'read_as_string'],
        assumptions=COMMON_ASSUME + ["completeness is asserted only for the set the statement names (JSON literals, decimal/0x/0o integers within 64 bits, decimal and exponent floats, .inf/.nan spellings)",
                                     "the value of a decimal float literal is taken from f64::from_str on texts already recognised by the hand-written recogniser"]),
    'C09': dict(
        rule=("value trees of null/bool/i64/f64/String/Sequence/Mapping (unique keys, scalar and collection keys, empty collections, depth <= 5): strings "
              "exhaustively up to length L over a 20-symbol alphabet in 4 positions (root, sequence item, mapping key, mapping value), a list of type-like "
              "words and special characters, random Unicode and multi-line strings, boundary integers and floats; x {compact on/off} x {multiline_strings on/off}; "
              "non-trivial = the tree needs a quoting / formatting decision (not only bare safe words); distinct = distinct trees"),
        builds=[('rel', 1.0, 1.0)], must_observe=['dumps', 'round_trips_ok', 'deep_trees'],
        assumptions=COMMON_ASSUME + ["Representation, Alias and BadValue nodes are outside the statement's domain and are not generated", "float equality treats NaN as equal to NaN (as the library's own Eq does)"]),
    'C13': dict(
        rule=("random JSON values (nesting mostly <= 6, some 40..200; unique keys; hostile strings as keys and values; numbers in all JSON spellings incl. "
              "19-20 digit integers) serialised compact, pretty-printed (2/4 spaces, tabs) or with random insignificant whitespace (space, tab, LF, CR) around "
              "every token; the generating value is the oracle; non-trivial = the value has at least one container; distinct = distinct JSON texts"),
        builds=[('rel', 1.0, 1.0)], must_observe=['json_texts_matching', 'json_texts_matching_through_string_backend', 'style_compact', 'style_pretty-tab', 'style_random-ws', 'deeply_nested_values'],
        assumptions=COMMON_ASSUME + ["\\u escapes are generated only for non-surrogate code points; astral characters are written raw", "integers beyond 64 bits are expected as floats of the same value"]),
    'C20': dict(
        rule=("constructed (borrowed and owned strings) and loaded mappings with string, integer, float, null, boolean and collection keys, including non-string keys "
              "whose text equals the probe; probes drawn from the keys, their type-like variants and absent strings; 4 node types; oracle = linear scan for a key "
              "that is a resolved string equal to the probe; non-trivial = mapping with at least 2 keys; distinct = distinct (mapping, probe)"),
        builds=[('rel', 1.0, 1.0)], must_observe=['lookups', 'int_lookups', 'loaded_mappings', 'eq_hash_pairs'],
        assumptions=COMMON_ASSUME + ["loaded variants are obtained through the emitter and only used when the emitted text loads back to the model (C09's subject)"]),
    'C15': dict(
        rule=("pairs and chains (up to 4) of streams that are accepted alone (model-rendered streams, yaml-test-suite documents, hand-written state-heavy streams, "
              "accepted soups), joined by a document end marker line; all ordered pairs of the hand-written list are enumerated; the H3 hook reports the scanner "
              "configuration at every document marker; non-trivial = at least 2 parts and one collection; distinct = distinct joined texts"),
        builds=[('rel', 1.0, 1.0)], must_observe=['concatenations', 'documents_compared', 'loads_compared', 'h3_events'],
        assumptions=COMMON_ASSUME + ["parts that are rejected alone, do not end with a line break or contain NUL (the end-of-input sentinel) are skipped, not asserted"]),
    'C16': dict(
        rule=("document sequences with 0-3 %TAG lines over the handles ! !! !e! !a-b! !x1! and local/global prefixes (with %-escapes), optional %YAML / reserved "
              "directives in random order, tags of every spelling (named, secondary, local, verbatim, non-specific; suffixes with 1-4 byte %-escapes and URI "
              "punctuation) on scalars, collections and empty nodes, 1-3 documents, keep_tags on/off, and injected faults (undeclared handle, duplicate handle, "
              "handle declared only in an earlier document); model = the property's own sentence; non-trivial = at least one tag; distinct = distinct (text, keep_tags)"),
        builds=[('rel', 1.0, 1.0)],
        must_observe=['tags_resolved_as_modelled', 'rejected_as_required', 'keep_tags_on', 'keep_tags_off', 'injected_UndeclaredHandle', 'injected_DuplicateDirective', 'injected_DeclaredInEarlierDocument'],
        assumptions=COMMON_ASSUME + ["tags are compared as prefix+suffix concatenation"]),
    'C18': dict(
        rule=("texts starting with an ASCII character (every length 0..64 in ASCII / Latin / CJK / astral mixes, documents up to ~4k chars; a few starting with a "
              "BOM) x 6 encodings x 4 traps, compared with loading the text directly; all byte strings of length <= L over {00,0A,20,2D,41,80,C3,E4,FE,FF} x 4 traps; "
              "random, truncated and garbled encodings; every decode runs under the H1 progress monitor; non-trivial = non-ASCII / non-UTF-8-clean / UTF-16 input; "
              "distinct = distinct byte strings or texts"),
        builds=[('rel', 1.0, 1.0)],
        must_observe=['decodes', 'h1_events', 'decodes_equal_to_direct_load', 'wellformed_inputs', 'malformed_inputs', 'encoding_utf-16le', 'encoding_utf-16be+bom'],
        assumptions=COMMON_ASSUME + ["which encoding applies to a byte string is taken from the documented detection rule (BOM, else NUL pattern of the first two bytes, else UTF-8)",
                                     "a decode-loop iteration that neither consumes input nor grows the output is reported by the H1 hook and aborted"]),
    'C11': dict(
        rule=("one child process per scenario (shape x depth x API): shapes '- ' per level, '-' / 'k:' / alternating per line with growing indentation, '? ', '[', "
              "'{a: ', '{\"a\":', block-then-flow, anchored '- ' nest; depths 10..10^4 (quick; pull and push to 10^5) / 10^5 (thorough), capped at 3000 for the shapes whose text grows quadratically; APIs iterate, "
              "push (both also on a 1 MiB-stack thread), load (Yaml / YamlOwned / MarkedYaml) + drop, clone, ==, hash, emit, and load on a thread with an 8 MiB stack; every depth 1..280 (700 thorough) with six innermost nodes and four emitter settings under catch_unwind; the observer is the child's exit "
              "status plus breadcrumbs, and a stack probe inside the receiver / writer callbacks; non-trivial = depth >= 100; distinct = distinct (shape, depth, API)"),
        builds=[('rel', 1.0, 1.0), ('chk', 1.0, 1.0)], must_observe=['scenarios', 'stack_probes', 'scenarios_succeeding', 'scenarios_ending_in_error_value'],
        timeout={'quick': 1500, 'thorough': 5400},
        assumptions=COMMON_ASSUME + ["the main thread of a child has the default 8 MiB stack (ulimit -s)", "depth is capped at 10^5; 'fits in memory' beyond that is not explored"]),
}

TECH = {
    'C01': ('panic capture, counting-input work bound, node-count bound on the loaded tree (alias amplification inputs), H2 scanner-progress hook, contract-checking inputs, chk (overflow/debug-assert) build, process-exit observer; thorough tier: Miri and AddressSanitizer passes over the same monitor', '3 C01'),
    'C02': ('online pushdown trace checker of the event grammar + anchor table, pull and push', '3 C02'),
    'C03': ('reference-model oracle: spec-derived renderer of random abstract trees, differential against delivered events; yaml-test-suite variants', '3 C03'),
    'C04': ('presentation generated from the target string (value known by construction), independent fold/unescape inverse as oracle self-test', '3 C04'),
    'C05': ('reference function block_value() from YAML 1.2.2 8.1 vs delivered block scalar value', '3 C05'),
    'C06': ('fault injection into well-formed streams by 14 spec-derived damage operators (with scalar-continuation and tab-after-blanks variants); oracle: an Err must be observed', '3 C06'),
    'C07': ('tee receiver logging the events given to the real loader + independent fold of the log; the resolved value of every scalar held against the core-schema reference functions; H4 loader-stack hook; thorough tier: AddressSanitizer pass', '3 C07'),
    'C08': ('exhaustive small-scope enumeration against hand-written recognisers of the core schema regular expressions; the same text in documents of five styles, eager and deferred, four node types; core tags in other handle/suffix splits', '3 C08'),
    'C09': ('round-trip monitor: dump -> load -> compare -> dump again over generated value trees, exhaustive strings up to length L, reload through both input back-ends; thorough tier: AddressSanitizer pass', '3 C09'),
    'C10': ('differential monitor over 8 input back-ends incl. contract-checking inputs at other buffer capacities; thorough tier: Miri and AddressSanitizer passes', '3 C10'),
    'C11': ('child-process exit-status observer per nesting scenario (8 MiB and 1 MiB stacks) + stack-depth probe inside library callbacks + low-depth sweep under catch_unwind; APIs incl. deferred load + parse_representation_recursive', '3 C11'),
    'C12': ('independent recount of line/column from the input, span nesting and scalar-text rules, tee-logged spans vs marked nodes', '3 C12'),
    'C13': ('generated JSON value is the oracle; serialisers with random insignificant whitespace; every text loaded through both the buffered-iterator and the string back-end', '3 C13'),
    'C14': ('metamorphic differential: LF vs CRLF vs CR variants of the same input', '3 C14'),
    'C15': ('metamorphic differential: documents of A and B alone vs A ... B joined; H3 scanner-state hook at document markers', '3 C15'),
    'C16': ('reference model of tag resolution (the property sentence executed literally) over generated directive sets, with injected faults', '3 C16'),
    'C17': ('call-history checker: exhaustive / random peek-next histories against plain iteration (continuing past a peeked error); push vs pull differential incl. the span-less receiver; mixed next/peek/load histories and what follows the end of the stream; thorough tier: AddressSanitizer pass', '3 C17'),
    'C18': ('H1 decode-loop progress hook (aborts a spin), differential decode-vs-direct-load over 6 encodings, trap-behaviour oracle incl. the configured outcome (dropped / U+FFFD / callback output) for damaged UTF-8; thorough tier: Miri and AddressSanitizer passes', '3 C18'),
    'C19': ('differential over 4 node types and deferred-vs-eager resolution through canonical trees; thorough tier: Miri and AddressSanitizer passes', '3 C19'),
    'C20': ('differential of 6 lookup paths against a linear-scan reference; Eq => Hash monitor; thorough tier: Miri and AddressSanitizer passes', '3 C20'),
}
for k, (t, ref) in TECH.items():
    if k in PROPS:
        PROPS[k]['technique'] = 'runtime monitoring: ' + t
        PROPS[k]['design_ref'] = 'DESIGN.md section ' + ref
        PROPS[k]['level_text'] = ('exploration by runtime monitoring: the real code is executed on generated / enumerated inputs under an oracle that is valid for every input; '
                                  'the verdict is "held on what was observed" with measured coverage (finite small scopes are exhausted and listed under exhaustive_subspaces); '
                                  'a universally quantified property over unbounded inputs cannot be settled by a finite run, so exploration is the honest level')
        PROPS[k]['level_note'] = ('trusts: the harness oracles and reference functions (written from YAML 1.2.2 / the property text, not from the code under test), rustc/cargo, '
                                  'and that /repo builds with feature verif-hooks; covers only the executions this run produced; known findings in /verif/known_findings.json are reported as KNOWN-FINDING')

# workload scales per build: (profile, quick scale, thorough scale)
for k in ['C02', 'C10', 'C14', 'C17']:
    PROPS[k]['builds'] = [('rel', 5.0, 5.0)]
PROPS['C01']['builds'] = [('rel', 5.0, 5.0), ('chk', 1.0, 2.0)]
PROPS['C12']['builds'] = [('rel', 5.0, 5.0), ('chk', 1.0, 2.0)]
for k in ['C03', 'C04', 'C05', 'C06', 'C07', 'C08', 'C13', 'C15', 'C16', 'C18', 'C19']:
    PROPS[k]['builds'] = [('rel', 4.0, 4.0)]
PROPS['C09']['builds'] = [('rel', 3.0, 5.0)]
# third session: the thorough tier of the checks that used to finish within a minute runs 2-3x more random cases
for k, t in {'C03': 12.0, 'C04': 12.0, 'C05': 12.0, 'C06': 12.0, 'C08': 12.0, 'C15': 12.0, 'C07': 10.0, 'C16': 10.0, 'C13': 8.0, 'C18': 8.0, 'C19': 6.0}.items():
    PROPS[k]['builds'] = [('rel', 10.0, t)]   # quick tier: 2.5x the cases of the first two sessions (each still finishes within ~15 s)
for k in ['C02', 'C14']:
    PROPS[k]['builds'] = [('rel', 5.0, 8.0)]
PROPS['C20']['builds'] = [('rel', 3.0, 2.5)]

# supplementary Miri pass (thorough tier): scale of the quick workload that is run under the interpreter
for k, sc in {'C01': 0.002, 'C10': 0.002, 'C18': 0.01, 'C19': 0.003, 'C20': 0.004}.items():
    PROPS[k]['miri_scale'] = sc

# supplementary AddressSanitizer pass (thorough tier): scale of the quick workload run under ASan (nightly, ~4x slower)
for k, sc in {'C01': 2.0, 'C07': 2.0, 'C09': 1.5, 'C10': 2.0, 'C17': 2.0, 'C18': 4.0, 'C19': 2.0, 'C20': 1.5}.items():
    PROPS[k]['asan_scale'] = sc

# informative line-coverage report in the thorough evidence
for k in ['C01', 'C03', 'C09']:
    PROPS[k]['coverage_scale'] = 0.3
