"""Per-property configuration of the driver: non-triviality rule text, builds, required observations."""

FAMILY_RULE = ("inputs: every string of length <= L over 18-symbol YAML indicator alphabets (exhaustive), sampled longer "
               "ones, seeded token soups, line-structured soups, mutated yaml-test-suite / repo documents, long inputs; "
               "a case is non-trivial when the parse produced at least one event beyond StreamStart or an error not at "
               "index 0; distinct = distinct input texts (64-bit hash of the text, merged over all workers)")

COMMON_ASSUME = [
    "the harness is built from /repo's current working tree with cargo feature verif-hooks (hooks only add calls)",
    "verdict covers only the executions produced by this run (exploration, not proof)",
]

PROPS = {
    'C01': dict(
        rule=FAMILY_RULE,
        builds=[('rel', 1.0, 1.0), ('chk', 0.35, 1.0)],
        must_observe=['parses', 'loads', 'h2_events'],
        assumptions=COMMON_ASSUME + [
            "linear work is checked as the fixed affine bounds 64*(n+1) input operations and 8*(n+1) events",
            "consumers stop at the first Err (the iterator is not fused after an error)",
        ],
    ),
    'C02': dict(rule=FAMILY_RULE, builds=[('rel', 1.0, 1.0)], must_observe=['events_checked'],
                assumptions=COMMON_ASSUME),
    'C10': dict(rule=FAMILY_RULE, builds=[('rel', 1.0, 1.0)], must_observe=['backend_runs', 'agreements'],
                assumptions=COMMON_ASSUME + ["ChunkInput<N> models BufferedInput at other capacities and implements only the required trait methods"]),
}
