// C12 findings (worktree C12j). Drop into saphyr/tests/.
//
// One finding: the scalar `~` that stands for an omitted node is, in several layouts, delivered
// with a NON-EMPTY span that covers the following token (`}`, `...`, `,`), i.e. text that is not
// the scalar's. Clause: "the span of a non-empty plain scalar on one line covers exactly its
// text". (That an omitted node is delivered as `~` is known; the concession made here is that
// such a node may carry an EMPTY span. A span covering somebody else's characters is what fails.)

use saphyr::{LoadableYamlNode, MarkedYaml, YamlData};
use saphyr_parser::{BufferedInput, Event, Input, Parser, ScalarStyle, Span};

fn events<'a, I: Input>(mut p: Parser<'a, I>) -> Vec<(Event<'a>, Span)> {
    let mut v = Vec::new();
    while let Some(r) = p.next_event() {
        let (ev, sp) = r.expect("the inputs used here are valid YAML");
        let end = ev == Event::StreamEnd;
        v.push((ev, sp));
        if end {
            break;
        }
    }
    v
}

/// Every plain, non-empty, one-line scalar has a span whose text is the scalar (or, for the
/// known `~` placeholder of an omitted node, an empty span).
fn check_plain_spans(input: &str, evs: &[(Event, Span)]) {
    let chars: Vec<char> = input.chars().collect();
    for (ev, sp) in evs {
        if let Event::Scalar(v, ScalarStyle::Plain, _, _) = ev {
            if v.is_empty() || sp.start.line() != sp.end.line() {
                continue;
            }
            let (s, e) = (sp.start.index(), sp.end.index());
            assert!(s <= e && e <= chars.len(), "span outside input for {input:?}: {sp:?}");
            if v == "~" && s == e {
                continue; // omitted node, known
            }
            let text: String = chars[s..e].iter().collect();
            assert_eq!(
                text, **v,
                "input {input:?}: plain scalar {v:?} has span [{s}..{e}) whose text is {text:?}"
            );
        }
    }
}

const INPUTS: &[&str] = &[
    "{a: , b}",    // value of `b` omitted: `~` with span [7..8) = "}"   (value of `a`: [2..2), fine)
    "{''}",        // value omitted: `~` with span [3..4) = "}"
    "{? }",        // key and value omitted: both `~` with span [3..4) = "}"
    "--- \n...\n", // empty document: `~` with span [5..8) = "..."
];

#[test]
fn c12_omitted_node_span_covers_foreign_text_str_backend() {
    for input in INPUTS {
        check_plain_spans(input, &events(Parser::new_from_str(input)));
    }
}

#[test]
fn c12_omitted_node_span_covers_foreign_text_iter_backend() {
    for input in INPUTS {
        check_plain_spans(input, &events(Parser::new(BufferedInput::new(input.chars()))));
    }
}

/// The same span ends up on the marked node: the null value of `b` claims the `}`.
#[test]
fn c12_marked_null_node_claims_closing_brace() {
    let input = "{a: , b}";
    let docs = MarkedYaml::load_from_str(input).unwrap();
    let YamlData::Mapping(m) = &docs[0].data else { panic!("mapping expected") };
    let (_, v) = m.iter().nth(1).unwrap();
    let (s, e) = (v.span.start.index(), v.span.end.index());
    let text: String = input.chars().skip(s).take(e - s).collect();
    assert!(
        text.is_empty() || text == "~",
        "null value of `b` carries span [{s}..{e}) covering {text:?}"
    );
}
