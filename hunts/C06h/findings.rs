//! Property C06 — ill-formed YAML is rejected with an error, never silently accepted.
//!
//! One #[test] per finding; each FAILS on the unmodified library because the ill-formed input is
//! accepted (a complete event stream / a loaded document is produced instead of an error).
//! Drop into saphyr/tests/.
#![allow(clippy::all, clippy::pedantic)]

use saphyr::{LoadableYamlNode, Yaml};
use saphyr_parser::{Event, Parser};

/// `true` iff the event iterator reports an error before `StreamEnd`.
fn events_error<T: saphyr_parser::Input>(mut p: Parser<'_, T>) -> bool {
    loop {
        match p.next_event() {
            Some(Ok((Event::StreamEnd, _))) => return false,
            Some(Ok(_)) => {}
            Some(Err(_)) | None => return true,
        }
    }
}

/// The input must be rejected by every entry point.
fn assert_rejected(input: &str, why: &str) {
    assert!(
        events_error(Parser::new_from_str(input)),
        "Parser::new_from_str accepted ill-formed input {input:?} ({why})"
    );
    assert!(
        events_error(Parser::new_from_iter(input.chars())),
        "Parser::new_from_iter accepted ill-formed input {input:?} ({why})"
    );
    assert!(
        Yaml::load_from_str(input).is_err(),
        "Yaml::load_from_str accepted ill-formed input {input:?} ({why}): {:?}",
        Yaml::load_from_str(input)
    );
}

/// Finding 1 — clause "a closing bracket that does not match the open one".
///
/// Inside a flow sequence, a second value indicator in the same single-pair entry (`a: : b`)
/// makes the scanner emit a second `FlowMappingStart`; a `}` that has no `{` then "closes" it and
/// the stream `[a: : b}]` is accepted as `[{a: {~: b}}]`.
#[test]
fn c06_mismatched_closing_brace_in_flow_sequence_is_rejected() {
    for input in [
        "[a: : b}]",
        "[: : }]",
        "[ :\n: }]",
        "[: :, }]",
        "[ \"a\": : \"b\" }]",
        "[ a: b, c: : d } ]",
        "[ : : : }}]",
        "[[a: : b}]]",
        "{ a: [ : : } ] }",
        "k: [ x: : y } ]\n",
        "- [ x: : y } ]\n",
        "--- [: : }]\n",
    ] {
        assert_rejected(input, "'}' closes a collection opened with '['");
    }
}

/// Finding 2 — clause "a tab used as block indentation" (nested collection).
///
/// When a block sequence entry (`- `) or an explicit key (`? `) carries only node properties
/// (anchor and/or tag) and its block collection starts on the next line, that line may be indented
/// with tabs starting at column 0 (no blank before the tab). Tabs even line up with spaces
/// (`\t\t- b` / `  - c` become siblings).
#[test]
fn c06_tab_indentation_of_nested_collection_after_properties_is_rejected() {
    for input in [
        "- &a\n\t- b\n",
        "- !!seq\n\t- b\n",
        "- &a\n\tk: v\n",
        "- &a !!map\n\tk: v\n",
        "? &a\n\t- b\n",
        "? !t\n\tk: v\n: w\n",
        "a:\n- &x\n\t- b\n",
        "- a\n- &x\n\t\t- b\n  - c\n",
        "- &a\n\t\tk: v\n  l: w\n",
    ] {
        assert_rejected(input, "tab used as indentation of a nested block collection");
    }
}

/// Finding 3 — clause "a tab used as block indentation" (top level).
///
/// The first line of a top-level block collection may be indented with tabs from column 0; the
/// tab counts as one column, so `\ta: b` / ` c: d` is loaded as one mapping.
#[test]
fn c06_tab_indentation_of_top_level_collection_is_rejected() {
    for input in [
        "\ta: b\n",
        "\t- a\n",
        "---\n\t- a\n",
        "---\n\ta: b\n c: d\n",
        "\t\ta: b\n  c: d\n",
        "--- &a\n\tk: v\n",
        "# comment\n\t\"k\": \"v\"\n",
    ] {
        assert_rejected(input, "tab used as indentation of a top-level block collection");
    }
}
