// C19 findings. Each test asserts what the property requires and FAILS on the unmodified code.
use saphyr::{
    LoadableYamlNode, MarkedYaml, Scalar, Yaml, YamlData, YamlEmitter, YamlLoader, YamlOwned,
};
use saphyr_parser::Parser;

fn deferred<'a, N: LoadableYamlNode<'a>>(src: &'a str) -> Vec<N> {
    let mut loader = YamlLoader::<N>::default();
    loader.early_parse(false);
    let mut parser = Parser::new_from_str(src);
    parser.load(&mut loader, true).unwrap();
    loader.into_documents()
}

fn emit(y: &Yaml) -> String {
    let mut out = String::new();
    YamlEmitter::new(&mut out).dump(y).unwrap();
    out
}

/// Finding 1. Clause: "Loading with deferred scalar resolution and then resolving the whole tree
/// gives the same tree as loading eagerly."
///
/// Three keys, the 1st and 3rd with the same representation and the 2nd a different
/// representation of an `==`-equal but distinguishable value (`0.0` / `-0.0`). Eager loading keeps
/// the first key (`0.0`); deferred loading first merges the 1st and 3rd representation (moving the
/// entry behind `-0.0`), and `parse_representation_recursive` then keeps `-0.0` as the key.
/// The two trees are `==` (OrderedFloat says 0.0 == -0.0) but do not hold the same data: the sign
/// of the key differs, and so does what the emitter writes.
#[test]
fn c19_deferred_resolution_keeps_a_different_duplicate_key() {
    let src = "0.0: a\n-0.0: b\n0.0: c\n";
    let eager = Yaml::load_from_str(src).unwrap().remove(0);
    let mut late = deferred::<Yaml>(src).remove(0);
    assert!(late.parse_representation_recursive());

    let key_bits = |y: &Yaml| -> Vec<u64> {
        y.as_mapping()
            .unwrap()
            .keys()
            .map(|k| match k {
                Yaml::Value(Scalar::FloatingPoint(f)) => f.into_inner().to_bits(),
                other => panic!("unexpected key {other:?}"),
            })
            .collect()
    };
    // Sanity: both have a single entry with value "c".
    assert_eq!(eager.as_mapping().unwrap().len(), 1);
    assert_eq!(late.as_mapping().unwrap().len(), 1);
    assert_eq!(
        key_bits(&eager),
        key_bits(&late),
        "eager key is {:?}, deferred+resolved key is {:?}; emitted {:?} vs {:?}",
        eager.as_mapping().unwrap().keys().next(),
        late.as_mapping().unwrap().keys().next(),
        emit(&eager),
        emit(&late),
    );
}

/// Same finding, owned node type and a complex key (the key that differs is nested).
#[test]
fn c19_deferred_resolution_keeps_a_different_duplicate_key_owned_nested() {
    let src = "? [-0.0]\n: a\n? [0.0]\n: b\n? [-0.0]\n: c\n";
    let eager = YamlOwned::load_from_str(src).unwrap().remove(0);
    let mut late = deferred::<YamlOwned>(src).remove(0);
    assert!(late.parse_representation_recursive());
    let sign = |y: &YamlOwned| {
        y.as_mapping().unwrap().keys().next().unwrap().as_vec().unwrap()[0]
            .as_floating_point()
            .unwrap()
            .is_sign_negative()
    };
    assert_eq!(sign(&eager), sign(&late), "sign of the zero inside the surviving key");
}

/// Observation with the same root cause (not counted as a finding: the statement lets marked
/// nodes' equality ignore spans). With keys that resolve to the same value from different
/// representations, the key node that survives is a different source node, so its span differs
/// between eager loading and deferred loading + resolution.
#[test]
#[ignore = "observation only: span of the surviving duplicate key differs; == ignores spans"]
fn c19_observation_surviving_key_span_differs() {
    let src = "1: a\n0x1: b\n1: c\n";
    let eager = MarkedYaml::load_from_str(src).unwrap().remove(0);
    let mut late = deferred::<MarkedYaml>(src).remove(0);
    assert!(late.data.parse_representation_recursive());
    assert_eq!(eager, late); // holds: spans ignored
    let key_line = |y: &MarkedYaml| match &y.data {
        YamlData::Mapping(m) => m.keys().next().unwrap().span.start.line(),
        _ => unreachable!(),
    };
    assert_eq!(key_line(&eager), key_line(&late)); // 1 vs 2
}
