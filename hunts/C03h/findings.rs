// Property C03 — block and flow structure parses to the node tree the document denotes.
//
// One #[test] per finding; each asserts the event stream that the YAML 1.2.2 grammar assigns to
// the input and FAILS on the unmodified library (the library returns a ScanError instead).
// Drop into saphyr/tests/ and run with
//     cargo test --offline --test findings
#![allow(clippy::all)]
use saphyr_parser::{Event, Parser, ScalarStyle, Tag};

fn fmt_tag(tag: Option<&Tag>) -> String {
    match tag {
        Some(t) => format!(" <{}{}>", t.handle, t.suffix),
        None => String::new(),
    }
}
fn fmt_idx(i: usize) -> String {
    if i > 0 {
        format!(" &{i}")
    } else {
        String::new()
    }
}
/// yaml-test-suite style event lines. An omitted node (the library reports it as the plain scalar
/// `~`, or as an empty plain scalar when it carries properties) is written `=VAL :`.
fn events(src: &str) -> Result<Vec<String>, String> {
    let mut v = vec![];
    for x in Parser::new_from_str(src) {
        let (ev, _) = x.map_err(|e| e.to_string())?;
        v.push(match ev {
            Event::StreamStart => "+STR".to_string(),
            Event::StreamEnd => "-STR".into(),
            Event::DocumentStart(_) => "+DOC".into(),
            Event::DocumentEnd => "-DOC".into(),
            Event::SequenceStart(i, t) => format!("+SEQ{}{}", fmt_idx(i), fmt_tag(t.as_ref())),
            Event::SequenceEnd => "-SEQ".into(),
            Event::MappingStart(i, t) => format!("+MAP{}{}", fmt_idx(i), fmt_tag(t.as_ref())),
            Event::MappingEnd => "-MAP".into(),
            Event::Scalar(text, style, i, t) => {
                let k = match style {
                    ScalarStyle::Plain => ":",
                    ScalarStyle::SingleQuoted => "'",
                    ScalarStyle::DoubleQuoted => "\"",
                    ScalarStyle::Literal => "|",
                    ScalarStyle::Folded => ">",
                };
                let text = if style == ScalarStyle::Plain && i == 0 && t.is_none() && text == "~" {
                    String::new()
                } else {
                    text.to_string()
                };
                format!("=VAL{}{} {k}{}", fmt_idx(i), fmt_tag(t.as_ref()), text)
            }
            Event::Alias(i) => format!("=ALI *{i}"),
            Event::Nothing => continue,
        });
    }
    Ok(v)
}
fn ev(s: &str) -> Result<Vec<String>, String> {
    Ok(s.split(" | ").map(str::to_string).collect())
}
fn evs(v: &[&str]) -> Result<Vec<String>, String> {
    Ok(v.iter().map(|s| s.to_string()).collect())
}
/// Collects the violations of one test so that all of them are reported.
struct Violations(Vec<String>);
impl Violations {
    fn check(&mut self, src: &str, expected: &Result<Vec<String>, String>) {
        let got = events(src);
        if got != *expected {
            self.0.push(format!("input {src:?}\n   expected {expected:?}\n   got      {got:?}"));
        }
    }
    fn finish(self) {
        assert!(self.0.is_empty(), "{} violation(s):\n{}", self.0.len(), self.0.join("\n"));
    }
}

/// Finding 1: inside a flow collection, the separation after the explicit-key indicator `?` may
/// be (or contain) a tab: ns-flow-map-entry(n,c) ::= "?" s-separate(n,c) ...,
/// s-separate-in-line ::= s-white+, s-white ::= s-space | s-tab. The library demands a space or a
/// line break ("expected whitespace") and rejects a tab anywhere before the key ("tabs disallowed
/// in this context"). The same inputs with a space instead of the tab parse fine.
#[test]
fn c03h_flow_explicit_key_indicator_followed_by_tab() {
    let pair_in_map = ev("+STR | +DOC | +MAP | =VAL :a | =VAL :b | -MAP | -DOC | -STR");
    let pair_in_seq = ev("+STR | +DOC | +SEQ | +MAP | =VAL :a | =VAL :b | -MAP | -SEQ | -DOC | -STR");
    // controls (pass)
    assert_eq!(events("{? a: b}\n"), pair_in_map);
    assert_eq!(events("[? a: b]\n"), pair_in_seq);
    assert_eq!(events("{ a:\tb}\n"), pair_in_map); // a tab after ':' in flow context is accepted
    // violations
    let mut v = Violations(vec![]);
    v.check("{?\ta: b}\n", &pair_in_map);
    v.check("[?\ta: b]\n", &pair_in_seq);
    v.check("{? \ta: b}\n", &pair_in_map);
    v.check("[? \ta : b]\n", &pair_in_seq);
    // the tab is the s-separate-in-line part of the s-flow-line-prefix(0) of the next line
    v.check("[ ?\n\t a : b ]\n", &pair_in_seq);
    v.check(
        "k: {? \t 'x': y}\n",
        &ev("+STR | +DOC | +MAP | =VAL :k | +MAP | =VAL 'x | =VAL :y | -MAP | -MAP | -DOC | -STR"),
    );
    v.finish();
}

/// Finding 1b (same check in `fetch_key`, block context): a comment / blank line that contains a
/// tab, placed between `?` and the key node on a later line, is rejected although l-comment lines
/// ([78] l-comment ::= s-separate-in-line c-nb-comment-text? b-comment) may consist of tabs. The
/// same layout after `:` or `-` is accepted.
#[test]
fn c03h_block_explicit_key_followed_by_blank_line_with_tab() {
    let expected = ev("+STR | +DOC | +MAP | =VAL :a | =VAL :b | -MAP | -DOC | -STR");
    // controls (pass)
    assert_eq!(events("?\n \n a\n: b\n"), expected);
    assert_eq!(
        events("k:\n \t\n  v\n"),
        ev("+STR | +DOC | +MAP | =VAL :k | =VAL :v | -MAP | -DOC | -STR")
    );
    assert_eq!(events("? # comment\n # comment\n  a\n: b\n"), expected);
    // violations
    let mut v = Violations(vec![]);
    v.check("?\n \t\n a\n: b\n", &expected);
    v.check("? # comment\n\t# comment\n  a\n: b\n", &expected);
    v.finish();
}

/// Finding 2: in a flow mapping (and in an explicit `?` entry of a flow sequence) a JSON-like key
/// may be separated from the adjacent `:value` by a line break:
/// c-ns-flow-map-json-key-entry(n,c) ::= c-flow-json-node(n,c)
///         ( ( s-separate(n,c)? c-ns-flow-map-adjacent-value(n,c) ) | e-node )
/// with s-separate(n,flow-in) = s-separate-lines(n). The library honours this when the key is a
/// quoted scalar (yaml-test-suite 5MUD) but not when it is a flow sequence or flow mapping.
#[test]
fn c03h_flow_collection_key_line_break_adjacent_value() {
    // controls (pass)
    assert_eq!(
        events("{ \"a\"\n :b }\n"),
        ev("+STR | +DOC | +MAP | =VAL \"a | =VAL :b | -MAP | -DOC | -STR")
    );
    let expected = ev("+STR | +DOC | +MAP | +SEQ | =VAL :a | -SEQ | =VAL :b | -MAP | -DOC | -STR");
    assert_eq!(events("{ [a] :b }\n"), expected);
    assert_eq!(events("{ [a]\n : b }\n"), expected);
    let map_key = ev("+STR | +DOC | +MAP | +MAP | =VAL :a | =VAL :b | -MAP | =VAL 'c | -MAP | -DOC | -STR");
    assert_eq!(events("{ {a: b} :'c' }\n"), map_key);
    let in_seq = ev("+STR | +DOC | +SEQ | +SEQ | +MAP | +SEQ | =VAL :a | -SEQ | =VAL :b | -MAP | -SEQ | -SEQ | -DOC | -STR");
    assert_eq!(events("- [ ? [a]\n    : b ]\n"), in_seq);
    // violations
    let mut v = Violations(vec![]);
    v.check("{ [a]\n :b }\n", &expected);
    v.check("{ [a] # comment\n :b }\n", &expected);
    v.check(
        "{ [a]\n :[b] }\n",
        &ev("+STR | +DOC | +MAP | +SEQ | =VAL :a | -SEQ | +SEQ | =VAL :b | -SEQ | -MAP | -DOC | -STR"),
    );
    v.check("{ {a: b}\n :'c' }\n", &map_key);
    v.check("- [ ? [a]\n    :b ]\n", &in_seq);
    v.finish();
}

/// Finding 3: a reserved directive is `%` ns-directive-name parameters, with
/// [84] ns-directive-name ::= ns-char+. The library accepts only [0-9A-Za-z_-] in the name and
/// rejects the stream otherwise, instead of ignoring the unknown directive.
#[test]
fn c03h_reserved_directive_name_with_other_ns_chars() {
    let expected = ev("+STR | +DOC | =VAL :a | -DOC | -STR");
    // control (passes)
    assert_eq!(events("%FOO-BAR_1 x y\n--- a\n"), expected);
    // violations
    let mut v = Violations(vec![]);
    v.check("%FOO.BAR x\n--- a\n", &expected);
    v.check("%foo:bar baz\n--- a\n", &expected);
    v.check("%\u{e9}t\u{e9} x\n--- a\n", &expected);
    v.finish();
}

/// Finding 4: flow collections nested more than 255 deep are rejected ("recursion limit
/// exceeded", the scanner's flow level is a u8) while block collections of any depth are parsed.
#[test]
fn c03h_flow_nesting_deeper_than_255() {
    let mut v = Violations(vec![]);
    for depth in [255usize, 256, 300] {
        let src = format!("{}x{}\n", "[".repeat(depth), "]".repeat(depth));
        let mut expected = vec!["+STR".to_string(), "+DOC".into()];
        expected.extend(std::iter::repeat("+SEQ".to_string()).take(depth));
        expected.push("=VAL :x".into());
        expected.extend(std::iter::repeat("-SEQ".to_string()).take(depth));
        expected.push("-DOC".into());
        expected.push("-STR".into());
        if events(&src) != Ok(expected) {
            v.0.push(format!("{depth} nested flow sequences: {:?}", events(&src).err()));
        }
    }
    v.finish();
}

/// Finding 5: a block scalar with an explicit indentation indicator and no content lines may be
/// followed by l-trail-comments(n+m): comment lines indented LESS than the content indentation
/// n+m — which includes lines indented deeper than the parent node:
///   l-literal-content(n+m,t) ::= ( ... )? l-chomped-empty(n+m,t)
///   l-chomped-empty ::= l-strip-empty / l-keep-empty, both ending in l-trail-comments(n+m)?
///   [169] l-trail-comments(n) ::= s-indent-less-than(n) c-nb-comment-text b-comment l-comment*
/// The library reports "wrongly indented line in block scalar" for such a comment line. (With at
/// least one content line before it, or with the comment at the parent's indentation, the same
/// layout is accepted.)
#[test]
fn c03h_empty_block_scalar_with_indentation_indicator_then_comment() {
    let map = evs(&["+STR", "+DOC", "+MAP", "=VAL :k", "=VAL |", "=VAL :j", "=VAL :v", "-MAP", "-DOC", "-STR"]);
    // controls (pass)
    assert_eq!(events("k: |4\n# comment\nj: v\n"), map);
    assert_eq!(events("k: |4\nj: v\n"), map);
    assert_eq!(
        events("k: |4\n     a\n  # comment\nj: v\n"),
        evs(&["+STR", "+DOC", "+MAP", "=VAL :k", "=VAL | a\n", "=VAL :j", "=VAL :v", "-MAP", "-DOC", "-STR"])
    );
    // violations
    let mut v = Violations(vec![]);
    v.check("k: |4\n  # comment\nj: v\n", &map);
    v.check("k: |4\n\n  # comment\nj: v\n", &map);
    v.check(
        "k: >2\n # comment\nj: v\n",
        &ev("+STR | +DOC | +MAP | =VAL :k | =VAL > | =VAL :j | =VAL :v | -MAP | -DOC | -STR"),
    );
    v.check(
        "- |-3\n # comment\n- v\n",
        &evs(&["+STR", "+DOC", "+SEQ", "=VAL |", "=VAL :v", "-SEQ", "-DOC", "-STR"]),
    );
    v.finish();
}
