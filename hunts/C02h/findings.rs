//! Property C02 -- "Events always form a well-nested YAML event sentence".
//!
//! One root cause, four manifestations (one test each). All tests FAIL on the unmodified library.
//!
//! Root cause: `Parser::load` (parser/src/parser.rs, the `if self.scanner.stream_ended()` branch)
//! treats "the scanner has handed out its StreamEnd *token*" as "the parser has produced the
//! StreamEnd *event*". The parser looks one token ahead, so the scanner is exhausted while the
//! parser still owes events (the root node, DocumentEnd, or an error). When `load` is entered in
//! that situation -- i.e. after some events were taken with `next()`/`peek()` -- it delivers
//! `StreamEnd` at once and returns `Ok(())`.
//!
//! Clauses violated:
//!   * "the events delivered (complete, or up to the first error) are a prefix of: StreamStart, then
//!     zero or more documents each made of DocumentStart, exactly one node, DocumentEnd, then
//!     StreamEnd"
//!   * "A parse that reports no error delivers a whole sentence with nothing after StreamEnd."
//!
//! Drop this file into saphyr/tests/ and run
//!   cargo test --offline -p saphyr --test findings

use saphyr_parser::{Event, EventReceiver, Parser};

// ---------------------------------------------------------------------------------------------
// Independent oracle for the sentence grammar of the property text.
// ---------------------------------------------------------------------------------------------
#[derive(Clone, Copy)]
enum Frame {
    Seq,
    Map(usize),
}

/// `Ok(complete)` if `events` is a prefix of a sentence (`complete`: it is a whole sentence).
fn sentence(events: &[Event]) -> Result<bool, String> {
    // 0 before StreamStart, 1 between documents, 2 inside a document (node not finished),
    // 3 after the root node, 4 after StreamEnd
    let mut st = 0u8;
    let mut stack: Vec<Frame> = vec![];
    let mut handed_out = std::collections::HashSet::new();
    let mut in_doc = std::collections::HashSet::new();
    for (i, ev) in events.iter().enumerate() {
        let bad = |what: &str| Err(format!("event #{i} {ev:?}: {what}; whole list: {events:?}"));
        let mut node_done = false;
        match (st, ev) {
            (0, Event::StreamStart) => st = 1,
            (1, Event::DocumentStart(_)) => {
                st = 2;
                in_doc.clear();
            }
            (1, Event::StreamEnd) => st = 4,
            (3, Event::DocumentEnd) => st = 1,
            (2, Event::Scalar(_, _, id, _)) => {
                if *id != 0 {
                    if !in_doc.insert(*id) {
                        return bad("anchor id used twice in the document");
                    }
                    handed_out.insert(*id);
                }
                node_done = true;
            }
            (2, Event::Alias(id)) => {
                if *id == 0 || !handed_out.contains(id) {
                    return bad("alias id was never handed out");
                }
                node_done = true;
            }
            (2, Event::SequenceStart(id, _) | Event::MappingStart(id, _)) => {
                if *id != 0 {
                    if !in_doc.insert(*id) {
                        return bad("anchor id used twice in the document");
                    }
                    handed_out.insert(*id);
                }
                stack.push(if matches!(ev, Event::SequenceStart(..)) {
                    Frame::Seq
                } else {
                    Frame::Map(0)
                });
            }
            (2, Event::SequenceEnd) => match stack.pop() {
                Some(Frame::Seq) => node_done = true,
                _ => return bad("does not close a sequence"),
            },
            (2, Event::MappingEnd) => match stack.pop() {
                Some(Frame::Map(n)) if n % 2 == 0 => node_done = true,
                _ => return bad("does not close a mapping with an even number of nodes"),
            },
            (0, _) => return bad("expected StreamStart"),
            (1, _) => return bad("expected DocumentStart or StreamEnd"),
            (2, _) => return bad("expected a node"),
            (3, _) => return bad("expected DocumentEnd after the root node"),
            _ => return bad("event after StreamEnd"),
        }
        if node_done {
            match stack.last_mut() {
                None => st = 3,
                Some(Frame::Map(n)) => *n += 1,
                Some(Frame::Seq) => {}
            }
        }
    }
    Ok(st == 4)
}

struct Sink<'a>(Vec<Event<'a>>);
impl<'a> EventReceiver<'a> for Sink<'a> {
    fn on_event(&mut self, ev: Event<'a>) {
        self.0.push(ev);
    }
}

/// Events of the plain pull interface (reference behaviour), and whether it ended with an error.
fn pull_all(input: &str) -> (Vec<Event<'_>>, bool) {
    let mut evs = vec![];
    for r in Parser::new_from_str(input) {
        match r {
            Ok((ev, _)) => evs.push(ev),
            Err(_) => return (evs, true),
        }
    }
    (evs, false)
}

/// `n_next` calls of `next()`, optionally one `peek()`, then `load(multi)`.
/// Returns everything that was delivered and whether any call reported an error.
fn pull_then_load(input: &str, n_next: usize, peek: bool, multi: bool) -> (Vec<Event<'_>>, bool) {
    let mut p = Parser::new_from_str(input);
    let mut sink = Sink(vec![]);
    for _ in 0..n_next {
        match p.next_event() {
            Some(Ok((ev, _))) => sink.0.push(ev),
            Some(Err(_)) => return (sink.0, true),
            None => return (sink.0, false),
        }
    }
    if peek {
        if let Some(Err(_)) = p.peek() {
            return (sink.0, true);
        }
    }
    let errored = p.load(&mut sink, multi).is_err();
    (sink.0, errored)
}

fn assert_property(delivered: &[Event], errored: bool) {
    match sentence(delivered) {
        Err(m) => panic!("not a prefix of an event sentence: {m}"),
        Ok(complete) => assert!(
            errored || complete,
            "no error was reported but the sentence is incomplete: {delivered:?}"
        ),
    }
}

// ---------------------------------------------------------------------------------------------
// F1a: `"&x"`; next, next, next, load  ==>  StreamStart DocumentStart Scalar StreamEnd, Ok(())
// ---------------------------------------------------------------------------------------------
#[test]
fn f1a_load_after_pulled_root_node_omits_document_end() {
    // Same for "!t", "---", "--- ", "---\n", "--- &x !t", "%YAML 1.2\n--- &x", multi = true or false.
    for input in ["&x", "!t", "---", "--- &x !!str "] {
        for multi in [false, true] {
            let (reference, ref_err) = pull_all(input);
            assert!(!ref_err);
            assert_property(&reference, false); // plain pull is fine: ... Scalar DocumentEnd StreamEnd

            let (delivered, errored) = pull_then_load(input, 3, false, multi);
            // Library: [StreamStart, DocumentStart, Scalar, StreamEnd], no error.
            assert_property(&delivered, errored);
        }
    }
}

// ---------------------------------------------------------------------------------------------
// F1b: `"a"`; next, next, next, peek (-> DocumentEnd), load  ==>  the peeked DocumentEnd is never
// delivered: StreamStart DocumentStart Scalar StreamEnd, Ok(())
// ---------------------------------------------------------------------------------------------
#[test]
fn f1b_load_drops_a_peeked_document_end() {
    for (input, n_next) in [("a", 3), ("a\n", 3), ("'q'", 3), ("|\n a", 3), ("[]", 4), ("{}", 4), ("a: b\n", 6)] {
        let (delivered, errored) = pull_then_load(input, n_next, true, true);
        assert_property(&delivered, errored);
    }
}

// ---------------------------------------------------------------------------------------------
// F1c: `"---"`; next, next, peek (-> Scalar "~"), load  ==>  StreamStart DocumentStart StreamEnd,
// Ok(()): a document without a node; and afterwards peek() still shows the Scalar, i.e. something
// follows StreamEnd.
// ---------------------------------------------------------------------------------------------
#[test]
fn f1c_load_skips_the_pending_root_node() {
    let input = "---";
    let mut p = Parser::new_from_str(input);
    let mut sink = Sink(vec![]);
    sink.0.push(p.next_event().unwrap().unwrap().0); // StreamStart
    sink.0.push(p.next_event().unwrap().unwrap().0); // DocumentStart(true)
    assert!(matches!(p.peek(), Some(Ok((Event::Scalar(..), _)))));
    let r = p.load(&mut sink, true);
    let ended = matches!(sink.0.last(), Some(Event::StreamEnd));
    if ended {
        // "nothing after StreamEnd"
        assert!(p.peek().is_none(), "peek() shows an event after StreamEnd was delivered");
    }
    assert_property(&sink.0, r.is_err());
}

// ---------------------------------------------------------------------------------------------
// F1d: `"{a"` (invalid: plain pull reports "did not find expected ',' or '}'" after the 5th event);
// next x5, load  ==>  StreamStart DocumentStart MappingStart Scalar Scalar StreamEnd and Ok(()):
// the error is never reported and the mapping is never closed.
// ---------------------------------------------------------------------------------------------
#[test]
fn f1d_load_replaces_a_pending_error_by_stream_end() {
    let input = "{a";
    let (reference, ref_err) = pull_all(input);
    assert!(ref_err, "reference: the input is invalid");
    assert_eq!(reference.len(), 5);

    let (delivered, errored) = pull_then_load(input, 5, false, true);
    assert_property(&delivered, errored);
}
