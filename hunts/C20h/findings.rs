//! C20h - no violation of property C20 was found.  This file is the probing harness itself; with
//! its default sizes every test PASSES on the unmodified library in about a minute (debug build).
//! Sizes can be raised through the environment: C20_DOCS (generated YAML documents, default 150;
//! 1500 were run), C20_TREES (constructed trees, default 40; 300 and 120 were run), C20_PAIRS
//! (node pairs for Eq/Hash, default 5000; 60000 were run), C20_DECODED (default 50; 300 run),
//! C20_SEED.  See NOTES.md for the counts of the clean runs.
//!
//! What is checked, for Yaml, YamlOwned, MarkedYaml and MarkedYamlOwned alike:
//!  * for every node of every tree and every probe string k: an oracle that scans the entries and
//!    pattern-matches `Value(String(s))` with `s == k` (no hashing) must agree - to the very
//!    entry, by pointer - with as_mapping_get, contains_mapping_key, `[k]` (panic <=> absent),
//!    mapping.get / contains_key with an explicitly built string node (owned and borrowed),
//!    as_mapping_get_mut and IndexMut;
//!  * `[i]` / IndexMut / as_sequence_get(_mut) / mapping.get(Integer(i)) against a scanning oracle;
//!  * a == b  =>  hash(a) == hash(b) (SipHash and the map's own hasher), == symmetric and equal
//!    to a structural oracle, copies with flipped string ownership / other spans equal and hash
//!    equally, every key of every mapping found again through a separately built equal key.
#![allow(clippy::all, clippy::pedantic, dead_code, unused_imports)]

use std::borrow::Cow;
use std::cell::Cell;
use std::collections::hash_map::DefaultHasher;
use std::hash::{BuildHasher, Hash, Hasher};
use std::panic::{catch_unwind, AssertUnwindSafe};
use std::sync::Once;

use hashlink::LinkedHashMap;
use saphyr::{
    LoadableYamlNode, MarkedYaml, MarkedYamlOwned, Scalar, ScalarOwned, ScalarStyle, Tag, Yaml,
    YamlData, YamlDataOwned, YamlLoader, YamlOwned,
};
use saphyr_parser::{Marker, Parser, Span};

// ---------------------------------------------------------------- infrastructure

thread_local! { static QUIET: Cell<bool> = Cell::new(false); }
static HOOK: Once = Once::new();

fn install_hook() {
    HOOK.call_once(|| {
        let prev = std::panic::take_hook();
        std::panic::set_hook(Box::new(move |info| {
            if !QUIET.with(|q| q.get()) {
                prev(info)
            }
        }));
    });
}

/// Run `f`, catching a panic silently.
fn quiet<R>(f: impl FnOnce() -> R) -> Result<R, String> {
    QUIET.with(|q| q.set(true));
    let r = catch_unwind(AssertUnwindSafe(f));
    QUIET.with(|q| q.set(false));
    r.map_err(|e| {
        if let Some(s) = e.downcast_ref::<String>() {
            s.clone()
        } else if let Some(s) = e.downcast_ref::<&str>() {
            (*s).to_string()
        } else {
            "<non-string panic>".to_string()
        }
    })
}

pub struct Rng(u64);
impl Rng {
    fn new(seed: u64) -> Self {
        Rng(seed.wrapping_mul(0x9E37_79B9_7F4A_7C15) | 1)
    }
    fn next(&mut self) -> u64 {
        let mut x = self.0;
        x ^= x >> 12;
        x ^= x << 25;
        x ^= x >> 27;
        self.0 = x;
        x.wrapping_mul(0x2545_F491_4F6C_DD1D)
    }
    fn below(&mut self, n: usize) -> usize {
        (self.next() % (n as u64)) as usize
    }
    fn chance(&mut self, num: usize, den: usize) -> bool {
        self.below(den) < num
    }
    fn pick<'a, T>(&mut self, v: &'a [T]) -> &'a T {
        &v[self.below(v.len())]
    }
    fn span(&mut self) -> Span {
        if self.chance(1, 4) {
            Span::default()
        } else {
            Span::new(
                Marker::new(self.below(5000), self.below(100), self.below(100)),
                Marker::new(self.below(5000), self.below(100), self.below(100)),
            )
        }
    }
}

fn leak(s: &str) -> &'static str {
    Box::leak(s.to_string().into_boxed_str())
}

fn style(i: u8) -> ScalarStyle {
    match i % 5 {
        0 => ScalarStyle::Plain,
        1 => ScalarStyle::SingleQuoted,
        2 => ScalarStyle::DoubleQuoted,
        3 => ScalarStyle::Literal,
        _ => ScalarStyle::Folded,
    }
}

/// A node-type-neutral description of a tree.
#[derive(Clone, Debug)]
pub enum Spec {
    Null,
    Bool(bool),
    Int(i64),
    Float(f64),
    /// string, "borrowed" flag (ignored by owned node types)
    Str(String, bool),
    Repr(String, u8, Option<(String, String)>, bool),
    Seq(Vec<Spec>),
    Map(Vec<(Spec, Spec)>),
    Alias(usize),
    Bad,
}

/// Independent equality oracle on specs (what "the same node" means, ignoring ownership).
fn spec_eq(a: &Spec, b: &Spec) -> bool {
    match (a, b) {
        (Spec::Null, Spec::Null) | (Spec::Bad, Spec::Bad) => true,
        (Spec::Bool(x), Spec::Bool(y)) => x == y,
        (Spec::Int(x), Spec::Int(y)) => x == y,
        (Spec::Float(x), Spec::Float(y)) => (x.is_nan() && y.is_nan()) || x == y,
        (Spec::Str(x, _), Spec::Str(y, _)) => x == y,
        (Spec::Repr(x, sx, tx, _), Spec::Repr(y, sy, ty, _)) => {
            x == y && sx % 5 == sy % 5 && tx == ty
        }
        (Spec::Seq(x), Spec::Seq(y)) => {
            x.len() == y.len() && x.iter().zip(y).all(|(p, q)| spec_eq(p, q))
        }
        (Spec::Map(x), Spec::Map(y)) => {
            x.len() == y.len()
                && x.iter()
                    .zip(y)
                    .all(|((k1, v1), (k2, v2))| spec_eq(k1, k2) && spec_eq(v1, v2))
        }
        (Spec::Alias(x), Spec::Alias(y)) => x == y,
        _ => false,
    }
}

const WORDS: &[&str] = &[
    "", " ", "a", "b", "ab", "A", "1", "01", "1.0", "1e3", "0x1", "0o1", "+1", "-1", "-0", "0",
    "true", "false", "True", "null", "Null", "NULL", "~", ".inf", ".nan", "-.inf", "yes", "no",
    "\u{e9}", "e\u{301}", "\u{65e5}\u{672c}", "\u{1F600}", "a b", "<<", "a\n", "a\0b", "\u{FEFF}a",
    "\u{7f}", "\t",
];

fn gen_string(r: &mut Rng) -> String {
    match r.below(10) {
        0..=5 => (*r.pick(WORDS)).to_string(),
        6 => {
            let l = *r.pick(&[15usize, 16, 17, 31, 32, 33, 127, 128, 129, 1023, 1024, 1025]);
            let mut s = "k".repeat(l - 1);
            s.push(*r.pick(&['k', 'j', '1']));
            s
        }
        7 => {
            let l = *r.pick(&[8usize, 16, 64, 512]);
            "\u{e9}".repeat(l)
        }
        _ => {
            let n = r.below(6);
            (0..n)
                .map(|_| *r.pick(&['a', 'b', '1', ' ', '\u{e9}', '\u{1F600}', '\0', '\n', ':']))
                .collect()
        }
    }
}

fn gen_scalar_spec(r: &mut Rng) -> Spec {
    match r.below(16) {
        0 => Spec::Null,
        1 => Spec::Bool(r.chance(1, 2)),
        2 | 3 => Spec::Int(*r.pick(&[0i64, 1, -1, 2, 7, 16, i64::MAX, i64::MIN, 1000])),
        4 => Spec::Float(*r.pick(&[
            0.0f64,
            -0.0,
            1.0,
            f64::NAN,
            -f64::NAN,
            f64::INFINITY,
            f64::NEG_INFINITY,
            1e3,
            f64::from_bits(0x7ff8_0000_0000_0001),
        ])),
        5 | 6 => {
            let tag = match r.below(4) {
                0 => Some(("tag:yaml.org,2002:".to_string(), "str".to_string())),
                1 => Some(("!".to_string(), "x".to_string())),
                _ => None,
            };
            Spec::Repr(gen_string(r), r.below(5) as u8, tag, r.chance(1, 2))
        }
        7 => Spec::Alias(r.below(3)),
        8 => Spec::Bad,
        _ => Spec::Str(gen_string(r), r.chance(1, 2)),
    }
}

fn gen_spec(r: &mut Rng, depth: usize) -> Spec {
    if depth == 0 || r.chance(3, 5) {
        return gen_scalar_spec(r);
    }
    if r.chance(1, 3) {
        let n = r.below(4);
        Spec::Seq((0..n).map(|_| gen_spec(r, depth - 1)).collect())
    } else {
        gen_map_spec(r, depth)
    }
}

fn gen_map_spec(r: &mut Rng, depth: usize) -> Spec {
    let n = if r.chance(1, 10) { 20 + r.below(60) } else { r.below(7) };
    let mut v: Vec<(Spec, Spec)> = Vec::new();
    for _ in 0..n {
        let k = gen_spec(r, depth.saturating_sub(1));
        if v.iter().any(|(k2, _)| spec_eq(k2, &k)) {
            continue;
        }
        let val = gen_spec(r, depth.saturating_sub(1));
        v.push((k, val));
    }
    Spec::Map(v)
}

/// Slightly change a spec (or not), to get many near-equal pairs.
fn mutate(s: &Spec, r: &mut Rng) -> Spec {
    match s {
        Spec::Str(x, b) if r.chance(1, 2) => Spec::Str(x.clone(), !b),
        Spec::Repr(x, st, t, b) if r.chance(1, 2) => Spec::Repr(x.clone(), *st, t.clone(), !b),
        Spec::Float(f) if r.chance(1, 2) => Spec::Float(if *f == 0.0 {
            -*f
        } else if f.is_nan() {
            f64::from_bits(f.to_bits() ^ 1 ^ (1 << 63))
        } else {
            *f
        }),
        Spec::Seq(v) if !v.is_empty() => {
            let i = r.below(v.len());
            let mut v2 = v.clone();
            v2[i] = mutate(&v[i], r);
            Spec::Seq(v2)
        }
        Spec::Map(v) if !v.is_empty() => {
            let i = r.below(v.len());
            let mut v2 = v.clone();
            if r.chance(1, 2) {
                v2[i].1 = mutate(&v[i].1, r);
            } else {
                let k = mutate(&v[i].0, r);
                if !v2.iter().enumerate().any(|(j, (k2, _))| j != i && spec_eq(k2, &k)) {
                    v2[i].0 = k;
                }
            }
            Spec::Map(v2)
        }
        _ if r.chance(1, 6) => gen_scalar_spec(r),
        other => other.clone(),
    }
}

#[derive(Default)]
pub struct Stats {
    lookups: usize,
    int_lookups: usize,
    found: usize,
    docs: usize,
    load_fail: usize,
    eq_pairs: usize,
    eq_true: usize,
    failures: Vec<String>,
}

impl Stats {
    fn fail(&mut self, s: String) {
        if self.failures.len() < 40 {
            self.failures.push(s);
        } else {
            self.failures.push(String::new());
        }
    }
    fn finish(self, name: &str) {
        eprintln!(
            "[{name}] docs={} load_fail={} str-lookups={} (found {}) int-lookups={} eq-pairs={} (equal {}) failures={}",
            self.docs, self.load_fail, self.lookups, self.found, self.int_lookups, self.eq_pairs,
            self.eq_true, self.failures.len()
        );
        if !self.failures.is_empty() {
            for f in self.failures.iter().filter(|f| !f.is_empty()).take(40) {
                eprintln!("FAIL: {f}");
            }
            panic!("{} failures in {name}", self.failures.len());
        }
    }
}

fn short(s: &str) -> String {
    let d = format!("{s:?}");
    if d.len() > 80 {
        format!("{}...({} bytes)", d.chars().take(60).collect::<String>(), s.len())
    } else {
        d
    }
}

// ---------------------------------------------------------------- per-node-type code

macro_rules! common {
    () => {
        pub fn build(spec: &Spec, flip: bool, r: &mut Rng) -> Node {
            let sp = r.span();
            let d = match spec {
                Spec::Null => D::Value(Sc::Null),
                Spec::Bool(b) => D::Value(Sc::Boolean(*b)),
                Spec::Int(i) => D::Value(Sc::Integer(*i)),
                Spec::Float(f) => D::Value(Sc::FloatingPoint((*f).into())),
                Spec::Str(s, b) => D::Value(Sc::String(mk_s(s, *b ^ flip))),
                Spec::Repr(s, st, tag, b) => D::Representation(
                    mk_s(s, *b ^ flip),
                    style(*st),
                    tag.as_ref().map(|(h, s)| Tag {
                        handle: h.clone(),
                        suffix: s.clone(),
                    }),
                ),
                Spec::Seq(v) => D::Sequence(v.iter().map(|x| build(x, flip, r)).collect()),
                Spec::Map(v) => {
                    let mut m = LinkedHashMap::new();
                    for (k, val) in v {
                        let k = build(k, flip, r);
                        let val = build(val, flip, r);
                        m.insert(k, val);
                    }
                    D::Mapping(m)
                }
                Spec::Alias(i) => D::Alias(*i),
                Spec::Bad => D::BadValue,
            };
            wrap(d, sp)
        }

        fn str_node(k: &str, borrowed: bool, r: &mut Rng) -> Node {
            wrap(D::Value(Sc::String(mk_s(k, borrowed))), r.span())
        }

        /// Oracle: scan the entries, pattern-matching on the enum only.
        fn oracle_find<'a>(d: &'a D, k: &str) -> Option<&'a Node> {
            match d {
                D::Mapping(m) => {
                    let mut found = None;
                    for (key, v) in m.iter() {
                        if let D::Value(Sc::String(s)) = data(key) {
                            if &**s == k {
                                assert!(found.is_none(), "two equal string keys in one mapping");
                                found = Some(v);
                            }
                        }
                    }
                    found
                }
                _ => None,
            }
        }

        fn oracle_find_int<'a>(d: &'a D, i: usize) -> Option<&'a Node> {
            match d {
                D::Sequence(v) => {
                    if i < v.len() {
                        Some(&v[i])
                    } else {
                        None
                    }
                }
                D::Mapping(m) => {
                    let mut found = None;
                    for (key, v) in m.iter() {
                        if let D::Value(Sc::Integer(x)) = data(key) {
                            if *x as i128 == i as i128 {
                                assert!(found.is_none());
                                found = Some(v);
                            }
                        }
                    }
                    found
                }
                _ => None,
            }
        }

        pub fn check_lookup(n: &mut Node, k: &str, r: &mut Rng, st: &mut Stats, ctx: &str) {
            st.lookups += 1;
            let d: &mut D = data_mut(n);
            let exp = oracle_find(d, k).map(|p| p as *const Node);
            if exp.is_some() {
                st.found += 1;
            }
            let mut bad = |what: &str, got: String| {
                st.fail(format!(
                    "{NAME}: {what}: key {} expected found={} got {got}; ctx: {ctx}",
                    short(k),
                    exp.is_some()
                ));
            };
            // 1. as_mapping_get
            let got = d.as_mapping_get(k).map(|p| p as *const Node);
            if got != exp {
                bad("as_mapping_get", format!("{got:?} vs {exp:?}"));
            }
            // 2. contains_mapping_key
            let c = d.contains_mapping_key(k);
            if c != exp.is_some() {
                bad("contains_mapping_key", format!("{c}"));
            }
            // 3. Index
            let got = quiet(|| &d[k] as *const Node);
            match (&got, exp) {
                (Ok(p), Some(e)) if *p == e => {}
                (Err(_), None) => {}
                _ => bad("index[&str]", format!("{got:?}")),
            }
            // 4. explicit node
            if let D::Mapping(m) = &*d {
                for borrowed in [false, true] {
                    let probe = str_node(k, borrowed, r);
                    let got = m.get(&probe).map(|p| p as *const Node);
                    if got != exp {
                        bad("mapping.get(explicit string node)", format!("{got:?} vs {exp:?}"));
                    }
                    if m.contains_key(&probe) != exp.is_some() {
                        bad("mapping.contains_key(explicit)", String::new());
                    }
                }
            }
            // 5. mut flavours
            let got = d.as_mapping_get_mut(k).map(|p| p as *mut Node as *const Node);
            if got != exp {
                bad("as_mapping_get_mut", format!("{got:?} vs {exp:?}"));
            }
            let got = quiet(|| &mut d[k] as *mut Node as *const Node);
            match (&got, exp) {
                (Ok(p), Some(e)) if *p == e => {}
                (Err(_), None) => {}
                _ => bad("index_mut[&str]", format!("{got:?}")),
            }
        }

        pub fn check_int(n: &mut Node, i: usize, st: &mut Stats, ctx: &str) {
            st.int_lookups += 1;
            let d: &mut D = data_mut(n);
            let exp = oracle_find_int(d, i).map(|p| p as *const Node);
            let mut bad = |what: &str, got: String| {
                st.fail(format!(
                    "{NAME}: {what}: index {i} expected found={} got {got}; ctx: {ctx}",
                    exp.is_some()
                ));
            };
            match &*d {
                D::Sequence(_) => {
                    let got = d.as_sequence_get(i).map(|p| p as *const Node);
                    if got != exp {
                        bad("as_sequence_get", format!("{got:?}"));
                    }
                }
                D::Mapping(m) => {
                    if let Ok(x) = i64::try_from(i) {
                        let probe = wrap(D::Value(Sc::Integer(x)), Span::default());
                        let got = m.get(&probe).map(|p| p as *const Node);
                        if got != exp {
                            bad("mapping.get(Integer)", format!("{got:?}"));
                        }
                    }
                    if d.as_sequence_get(i).is_some() {
                        bad("as_sequence_get on mapping", "Some".into());
                    }
                }
                _ => {
                    if d.as_sequence_get(i).is_some() {
                        bad("as_sequence_get on scalar", "Some".into());
                    }
                }
            }
            let got = quiet(|| &d[i] as *const Node);
            match (&got, exp) {
                (Ok(p), Some(e)) if *p == e => {}
                (Err(_), None) => {}
                _ => bad("index[usize]", format!("{got:?}")),
            }
            if matches!(&*d, D::Sequence(_)) {
                let got = d.as_sequence_get_mut(i).map(|p| p as *mut Node as *const Node);
                if got != exp {
                    bad("as_sequence_get_mut", format!("{got:?}"));
                }
            }
            let got = quiet(|| &mut d[i] as *mut Node as *const Node);
            match (&got, exp) {
                (Ok(p), Some(e)) if *p == e => {}
                (Err(_), None) => {}
                _ => bad("index_mut[usize]", format!("{got:?}")),
            }
        }

        /// Probe strings derived from the scalars present in the tree.
        pub fn probes_of(n: &Node, out: &mut Vec<String>) {
            match data(n) {
                D::Value(Sc::String(s)) => {
                    let s: &str = &**s;
                    out.push(s.to_string());
                    out.push(format!("{s} "));
                    out.push(format!(" {s}"));
                    out.push(s.to_uppercase());
                    if let Some((i, _)) = s.char_indices().last() {
                        out.push(s[..i].to_string());
                    }
                    out.push(format!("\"{s}\""));
                    out.push(format!("'{s}'"));
                    out.push(format!("{s}\n"));
                }
                D::Value(Sc::Integer(i)) => {
                    out.push(i.to_string());
                    out.push(format!("{i:#x}"));
                    out.push(format!("+{i}"));
                }
                D::Value(Sc::Boolean(b)) => out.push(b.to_string()),
                D::Value(Sc::Null) => {
                    out.push("~".into());
                    out.push("null".into());
                    out.push(String::new());
                }
                D::Value(Sc::FloatingPoint(f)) => {
                    let f: f64 = (*f).into();
                    out.push(f.to_string());
                    out.push(format!("{f:?}"));
                    out.push(format!("{f:e}"));
                }
                D::Representation(s, _, _) => out.push((&**s).to_string()),
                D::Sequence(v) => {
                    for c in v {
                        probes_of(c, out);
                    }
                }
                D::Mapping(m) => {
                    for (k, v) in m.iter() {
                        probes_of(k, out);
                        probes_of(v, out);
                    }
                }
                D::Alias(i) => out.push(i.to_string()),
                D::BadValue => {}
            }
        }

        pub fn walk(n: &mut Node, f: &mut dyn FnMut(&mut Node)) {
            f(n);
            match data_mut(n) {
                D::Sequence(v) => {
                    for c in v.iter_mut() {
                        walk(c, f);
                    }
                }
                D::Mapping(m) => {
                    let keys: Vec<Node> = m.keys().cloned().collect();
                    for mut k in keys {
                        if matches!(data(&k), D::Mapping(_) | D::Sequence(_)) {
                            walk(&mut k, f);
                        }
                    }
                    for (_, v) in m.iter_mut() {
                        walk(v, f);
                    }
                }
                _ => {}
            }
        }

        /// Copy of the tree with every string's ownership set to `borrowed`, new spans.
        pub fn reown(n: &Node, borrowed: bool, r: &mut Rng) -> Node {
            let d = match data(n) {
                D::Value(Sc::String(s)) => D::Value(Sc::String(mk_s(&**s, borrowed))),
                D::Value(Sc::Null) => D::Value(Sc::Null),
                D::Value(Sc::Boolean(b)) => D::Value(Sc::Boolean(*b)),
                D::Value(Sc::Integer(b)) => D::Value(Sc::Integer(*b)),
                D::Value(Sc::FloatingPoint(b)) => D::Value(Sc::FloatingPoint(*b)),
                D::Representation(s, st, t) => {
                    D::Representation(mk_s(&**s, borrowed), *st, t.clone())
                }
                D::Sequence(v) => D::Sequence(v.iter().map(|c| reown(c, borrowed, r)).collect()),
                D::Mapping(m) => {
                    let mut m2 = LinkedHashMap::new();
                    for (k, v) in m.iter() {
                        m2.insert(reown(k, borrowed, r), reown(v, borrowed, r));
                    }
                    D::Mapping(m2)
                }
                D::Alias(i) => D::Alias(*i),
                D::BadValue => D::BadValue,
            };
            wrap(d, r.span())
        }

        pub fn hashes(n: &Node, bh: &hashlink::DefaultHashBuilder) -> (u64, u64) {
            let mut h = DefaultHasher::new();
            n.hash(&mut h);
            let mut h2 = bh.build_hasher();
            n.hash(&mut h2);
            (h.finish(), h2.finish())
        }

        /// Equal nodes hash equally; re-owned copies are equal; every key of every mapping is
        /// found by an equal but separately built key.
        pub fn check_eq_hash(a: &Node, b: &Node, expect_eq: Option<bool>, st: &mut Stats, ctx: &str) {
            let bh = hashlink::DefaultHashBuilder::default();
            st.eq_pairs += 1;
            let e = a == b;
            if e != (b == a) {
                st.fail(format!("{NAME}: == not symmetric; ctx: {ctx}"));
            }
            if let Some(x) = expect_eq {
                if x != e {
                    st.fail(format!("{NAME}: == is {e}, structural oracle says {x}; ctx: {ctx}"));
                }
            }
            if e {
                st.eq_true += 1;
                if hashes(a, &bh) != hashes(b, &bh) {
                    st.fail(format!("{NAME}: equal nodes hash differently; ctx: {ctx}"));
                }
                // data-level hash / eq too (for marked types `data` is a different type)
                if data(a) != data(b) {
                    st.fail(format!("{NAME}: nodes equal but data differ; ctx: {ctx}"));
                }
                let mut h1 = DefaultHasher::new();
                data(a).hash(&mut h1);
                let mut h2 = DefaultHasher::new();
                data(b).hash(&mut h2);
                if h1.finish() != h2.finish() {
                    st.fail(format!("{NAME}: equal data hash differently; ctx: {ctx}"));
                }
            }
        }

        pub fn check_reown(a: &Node, r: &mut Rng, st: &mut Stats, ctx: &str) {
            let o = reown(a, false, r);
            let b = reown(a, true, r);
            check_eq_hash(a, &o, Some(true), st, ctx);
            check_eq_hash(a, &b, Some(true), st, ctx);
            check_eq_hash(&o, &b, Some(true), st, ctx);
            let c = a.clone();
            check_eq_hash(a, &c, Some(true), st, ctx);
        }

        /// Every key of every mapping in the tree is found through an equal key built separately.
        pub fn check_all_keys_found(n: &mut Node, r: &mut Rng, st: &mut Stats, ctx: &str) {
            let mut fails = Vec::new();
            let mut cnt = 0usize;
            walk(n, &mut |m| {
                if let D::Mapping(map) = data(m) {
                    for (k, v) in map.iter() {
                        for borrowed in [false, true] {
                            let k2 = reown(k, borrowed, r);
                            cnt += 1;
                            match map.get(&k2) {
                                Some(v2) if std::ptr::eq(v, v2) => {}
                                other => fails.push(format!(
                                    "{NAME}: key {k:?} not found through equal key (borrowed={borrowed}): {:?}",
                                    other.is_some()
                                )),
                            }
                        }
                    }
                }
            });
            st.lookups += cnt;
            for f in fails {
                st.fail(format!("{f}; ctx: {ctx}"));
            }
        }

        /// Full probe of a tree.
        pub fn probe_tree(n: &mut Node, extra: &[String], r: &mut Rng, st: &mut Stats, ctx: &str) {
            let mut probes = Vec::new();
            probes_of(n, &mut probes);
            probes.extend(extra.iter().cloned());
            for _ in 0..6 {
                probes.push((*r.pick(WORDS)).to_string());
            }
            probes.push("zzz-absent".into());
            probes.sort();
            probes.dedup();
            // bound the work on big trees
            while probes.len() > 160 {
                let i = r.below(probes.len());
                probes.swap_remove(i);
            }
            let mut r2 = Rng::new(r.next());
            walk(n, &mut |m| {
                for p in &probes {
                    check_lookup(m, p, &mut r2, st, ctx);
                }
                let len = match data(m) {
                    D::Sequence(v) => v.len(),
                    D::Mapping(v) => v.len(),
                    _ => 0,
                };
                let mut idx: Vec<usize> = (0..len + 2).collect();
                idx.extend([7, 16, 17, 1000, i64::MAX as usize, i64::MAX as usize + 1, usize::MAX]);
                for i in idx {
                    check_int(m, i, st, ctx);
                }
            });
            check_all_keys_found(n, r, st, ctx);
            check_reown(n, r, st, ctx);
        }
    };
}

mod y {
    use super::*;
    pub const NAME: &str = "Yaml";
    pub type Node = Yaml<'static>;
    pub type D = Yaml<'static>;
    pub type Sc = Scalar<'static>;
    pub fn data(n: &Node) -> &D {
        n
    }
    pub fn data_mut(n: &mut Node) -> &mut D {
        n
    }
    pub fn wrap(d: D, _sp: Span) -> Node {
        d
    }
    pub fn mk_s(s: &str, borrowed: bool) -> Cow<'static, str> {
        if borrowed {
            Cow::Borrowed(leak(s))
        } else {
            Cow::Owned(s.to_string())
        }
    }
    pub fn load(src: &'static str, mode: usize) -> Result<Vec<Node>, String> {
        match mode {
            0 => Node::load_from_str(src).map_err(|e| e.to_string()),
            1 => {
                let mut p = Parser::new_from_str(src);
                Node::load_from_parser(&mut p).map_err(|e| e.to_string())
            }
            _ => {
                let mut p = Parser::new_from_str(src);
                let mut l = YamlLoader::<Node>::default();
                l.early_parse(false);
                p.load(&mut l, true).map_err(|e| e.to_string())?;
                let mut docs = l.into_documents();
                for d in &mut docs {
                    d.parse_representation_recursive();
                }
                Ok(docs)
            }
        }
    }
    common!();
}

mod yo {
    use super::*;
    pub const NAME: &str = "YamlOwned";
    pub type Node = YamlOwned;
    pub type D = YamlOwned;
    pub type Sc = ScalarOwned;
    pub fn data(n: &Node) -> &D {
        n
    }
    pub fn data_mut(n: &mut Node) -> &mut D {
        n
    }
    pub fn wrap(d: D, _sp: Span) -> Node {
        d
    }
    pub fn mk_s(s: &str, _borrowed: bool) -> String {
        s.to_string()
    }
    pub fn load(src: &'static str, mode: usize) -> Result<Vec<Node>, String> {
        match mode {
            0 => Node::load_from_str(src).map_err(|e| e.to_string()),
            1 => {
                let mut p = Parser::new_from_str(src);
                Node::load_from_parser(&mut p).map_err(|e| e.to_string())
            }
            _ => {
                let mut p = Parser::new_from_str(src);
                let mut l = YamlLoader::<Node>::default();
                l.early_parse(false);
                p.load(&mut l, true).map_err(|e| e.to_string())?;
                let mut docs = l.into_documents();
                for d in &mut docs {
                    d.parse_representation_recursive();
                }
                Ok(docs)
            }
        }
    }
    common!();
}

mod my {
    use super::*;
    pub const NAME: &str = "MarkedYaml";
    pub type Node = MarkedYaml<'static>;
    pub type D = YamlData<'static, MarkedYaml<'static>>;
    pub type Sc = Scalar<'static>;
    pub fn data(n: &Node) -> &D {
        &n.data
    }
    pub fn data_mut(n: &mut Node) -> &mut D {
        &mut n.data
    }
    pub fn wrap(d: D, sp: Span) -> Node {
        MarkedYaml { span: sp, data: d }
    }
    pub fn mk_s(s: &str, borrowed: bool) -> Cow<'static, str> {
        if borrowed {
            Cow::Borrowed(leak(s))
        } else {
            Cow::Owned(s.to_string())
        }
    }
    pub fn load(src: &'static str, mode: usize) -> Result<Vec<Node>, String> {
        match mode {
            0 => Node::load_from_str(src).map_err(|e| e.to_string()),
            1 => {
                let mut p = Parser::new_from_str(src);
                Node::load_from_parser(&mut p).map_err(|e| e.to_string())
            }
            _ => {
                let mut p = Parser::new_from_str(src);
                let mut l = YamlLoader::<Node>::default();
                l.early_parse(false);
                p.load(&mut l, true).map_err(|e| e.to_string())?;
                let mut docs = l.into_documents();
                for d in &mut docs {
                    d.data.parse_representation_recursive();
                }
                Ok(docs)
            }
        }
    }
    common!();
}

mod myo {
    use super::*;
    pub const NAME: &str = "MarkedYamlOwned";
    pub type Node = MarkedYamlOwned;
    pub type D = YamlDataOwned<MarkedYamlOwned>;
    pub type Sc = ScalarOwned;
    pub fn data(n: &Node) -> &D {
        &n.data
    }
    pub fn data_mut(n: &mut Node) -> &mut D {
        &mut n.data
    }
    pub fn wrap(d: D, sp: Span) -> Node {
        MarkedYamlOwned { span: sp, data: d }
    }
    pub fn mk_s(s: &str, _borrowed: bool) -> String {
        s.to_string()
    }
    pub fn load(src: &'static str, mode: usize) -> Result<Vec<Node>, String> {
        match mode {
            0 => Node::load_from_str(src).map_err(|e| e.to_string()),
            1 => {
                let mut p = Parser::new_from_str(src);
                Node::load_from_parser(&mut p).map_err(|e| e.to_string())
            }
            _ => {
                let mut p = Parser::new_from_str(src);
                let mut l = YamlLoader::<Node>::default();
                l.early_parse(false);
                p.load(&mut l, true).map_err(|e| e.to_string())?;
                let mut docs = l.into_documents();
                for d in &mut docs {
                    d.data.parse_representation_recursive();
                }
                Ok(docs)
            }
        }
    }
    common!();
}

macro_rules! for_each_type {
    ($m:ident => $body:block) => {{
        {
            use y as $m;
            $body
        }
        {
            use yo as $m;
            $body
        }
        {
            use my as $m;
            $body
        }
        {
            use myo as $m;
            $body
        }
    }};
}

// ---------------------------------------------------------------- YAML text generator

/// (text, explicit-only, flow-ok)
fn key_atoms() -> Vec<(String, bool, bool)> {
    let mut v: Vec<(String, bool, bool)> = Vec::new();
    for p in [
        "a", "b", "ab", "A", "1", "01", "1.0", "1.", "1e3", "0x1", "0x01", "0o1", "+1", "-1", "-0",
        "0", "true", "false", "True", "TRUE", "null", "Null", "NULL", "~", ".inf", ".nan", "-.inf",
        "+.inf", "yes", "no", "\u{e9}", "e\u{301}", "\u{65e5}\u{672c}", "\u{1F600}", "a b", "<<",
        "a:b", "-a", "a#b", "1 ", "0x1F", "0X1", "1_000", "12e03", "-.5", "0.0", "-0.0", "0b1",
        "!!str 1", "!!str true", "!!str ~", "!!str", "!!int 1", "!!int \"1\"", "!!float 1",
        "!!bool true", "!!null ~", "!custom 1", "!!binary 1", "!<tag:yaml.org,2002:str> 1",
        "!!str null", "! 1", "\"1\"", "'1'", "\"true\"", "'null'", "\"~\"", "\"\"", "''", "\" \"",
        "\"a\"", "'a'", "\"\\x61\"", "\"\\u0061\"", "\"\\U00000061\"", "\"a\\tb\"", "\"a\\nb\"",
        "\"\\0\"", "\"\\\\\"", "'it''s'", "\"\u{e9}\"", "\"\\u00e9\"", "\"\\xe9\"",
        "\"e\\u0301\"", "\"\\N\"", "\"\\_\"", "\"\\L\"", "\"\\uFEFF\"", "&k1 a", "&k2 1", "*k1",
        "*k2", "&k3 \"1\"", "*k3", "&k4 !!str 1",
    ] {
        v.push((p.to_string(), false, true));
    }
    for p in ["[a]", "[1]", "{a: b}", "[]", "{}", "[[a]]", "[a, b]", "{a: 1, b: 2}", "[\"1\"]", "&k5 [a]", "*k5"] {
        v.push((p.to_string(), false, true));
    }
    v.push((String::new(), false, true));
    // explicit-only (multi line) keys
    for p in [
        "|-\n  a", "|\n  a", ">-\n  a\n  b", "|+\n  a\n\n", "|-\n  1", "\"a\n  b\"", "'a\n\n  b'",
        "a\n  b", "- a\n  - b", "a: b\n  c: d", "|2-\n    a",
    ] {
        v.push((p.to_string(), true, false));
    }
    for l in [15usize, 16, 17, 31, 32, 33, 127, 128, 129, 1023, 1024, 1025, 2048] {
        v.push(("k".repeat(l), l >= 1020, true));
        v.push((format!("\"{}\"", "k".repeat(l)), l >= 1020, true));
        v.push((format!("{}j", "k".repeat(l - 1)), l >= 1020, true));
        v.push(("\u{e9}".repeat(l), l >= 1020, true));
    }
    v
}

const VALUES: &[&str] = &["1", "v", "[x, y]", "{y: z}", "~", "\"q\"", "", "*k1", "&k1 w"];

struct Gen<'a> {
    r: &'a mut Rng,
    atoms: &'a [(String, bool, bool)],
    used: Vec<String>,
    defined: Vec<String>,
}

impl Gen<'_> {
    /// Only use an alias once its anchor has been written in this document.
    fn admissible(&mut self, text: &str) -> bool {
        if let Some(name) = text.strip_prefix('*') {
            return self.defined.iter().any(|d| d == name);
        }
        if let Some(rest) = text.strip_prefix('&') {
            let name = rest.split(' ').next().unwrap().to_string();
            self.defined.push(name);
        }
        true
    }
    fn atom(&mut self) -> (String, bool, bool) {
        loop {
            let a = self.r.pick(self.atoms).clone();
            if self.admissible(&a.0) {
                return a;
            }
        }
    }
    fn value(&mut self) -> String {
        loop {
            let v = (*self.r.pick(VALUES)).to_string();
            if self.admissible(&v) {
                return v;
            }
        }
    }

    fn flow_map(&mut self, depth: usize) -> String {
        let n = self.r.below(6);
        let mut parts = Vec::new();
        for _ in 0..n {
            let (k, _, ok) = self.atom();
            if !ok && !k.is_empty() {
                continue;
            }
            self.used.push(k.clone());
            let v = if depth > 0 && self.r.chance(1, 4) {
                self.flow_map(depth - 1)
            } else {
                self.value()
            };
            let sep = *self.r.pick(&[": ", ": ", " : ", ":  "]);
            match self.r.below(8) {
                0 => parts.push(format!("? {k}{sep}{v}")),
                1 => parts.push(k.clone()), // key without value
                _ => parts.push(format!("{k}{sep}{v}")),
            }
        }
        let (o, c, s) = *self.r.pick(&[("{", "}", ", "), ("{ ", " }", ", "), ("{", "}", " , "), ("{", ",}", ",")]);
        if parts.is_empty() {
            return "{}".to_string();
        }
        format!("{o}{}{c}", parts.join(s))
    }

    fn block_map(&mut self, indent: usize, depth: usize) -> String {
        let pad = " ".repeat(indent);
        let n = 1 + self.r.below(7);
        let mut out = String::new();
        for _ in 0..n {
            let (k, explicit_only, _) = self.atom();
            self.used.push(k.clone());
            let explicit = explicit_only || self.r.chance(1, 5);
            // re-indent multi-line keys
            let k = k.replace('\n', &format!("\n{pad}"));
            let nested = depth > 0 && self.r.chance(1, 5);
            if explicit {
                out.push_str(&format!("{pad}? {k}\n"));
                if self.r.chance(1, 8) {
                    continue; // no value
                }
                if nested {
                    out.push_str(&format!("{pad}:\n{}", self.block_map(indent + 2, depth - 1)));
                } else if self.r.chance(1, 4) {
                    out.push_str(&format!("{pad}: {}\n", self.flow_map(1)));
                } else {
                    {
                    let v = self.value();
                    out.push_str(&format!("{pad}: {v}\n"));
                }
                }
            } else if nested {
                out.push_str(&format!("{pad}{k}:\n{}", self.block_map(indent + 2, depth - 1)));
            } else if self.r.chance(1, 4) {
                out.push_str(&format!("{pad}{k}: {}\n", self.flow_map(1)));
            } else if self.r.chance(1, 8) {
                out.push_str(&format!("{pad}{k}:\n{pad}  - s\n{pad}  - {}\n", self.flow_map(0)));
            } else {
                let sp = *self.r.pick(&[": ", ": ", ":  ", " : "]);
                let v = self.value();
                out.push_str(&format!("{pad}{k}{sp}{v}\n"));
            }
        }
        out
    }

    fn doc(&mut self) -> String {
        let mut s = match self.r.below(10) {
            0 | 1 => format!("{}\n", self.flow_map(2)),
            2 => format!("- {}\n- {}\n", self.flow_map(1), self.flow_map(1)),
            3 => {
                let a = self.block_map(0, 1);
                self.defined.clear();
                let b = self.block_map(0, 1);
                format!("--- # c\n{a}...\n---\n{b}")
            }
            _ => self.block_map(0, 2),
        };
        match self.r.below(8) {
            0 => s = s.replace('\n', "\r\n"),
            1 => s = s.replace('\n', "\r"),
            2 => s = format!("# leading comment\n\n   \n{s}"),
            _ => {}
        }
        s
    }
}

// ---------------------------------------------------------------- tests

fn env_n(name: &str, default: usize) -> usize {
    std::env::var(name).ok().and_then(|s| s.parse().ok()).unwrap_or(default)
}

/// A. mappings loaded from generated YAML text, through three load paths and four node types.
#[test]
fn loaded_mappings() {
    install_hook();
    let n = env_n("C20_DOCS", 150);
    let atoms = key_atoms();
    let mut r = Rng::new(env_n("C20_SEED", 1) as u64);
    let mut st = Stats::default();
    let mut fail_samples: Vec<String> = Vec::new();
    for _ in 0..n {
        let (src, used) = {
            let mut g = Gen { r: &mut r, atoms: &atoms, used: vec![], defined: vec![] };
            let s = g.doc();
            (s, g.used)
        };
        let src: &'static str = leak(&src);
        // raw key texts are probes as well (e.g. `"1"` with its quotes, `!!str 1`)
        let mut extra: Vec<String> = used.clone();
        for u in &used {
            extra.push(u.trim_matches(|c| c == '"' || c == '\'').to_string());
            if let Some(rest) = u.split_whitespace().last() {
                extra.push(rest.to_string());
            }
        }
        let mode = r.below(3);
        for_each_type!(m => {
            match m::load(src, mode) {
                Ok(mut docs) => {
                    st.docs += 1;
                    let ctx = format!("mode {mode} src {src:?}");
                    for d in &mut docs {
                        m::probe_tree(d, &extra, &mut r, &mut st, &ctx);
                    }
                }
                Err(e) => {
                    st.load_fail += 1;
                    fail_samples.push(format!("{e}"));
                    if std::env::var("C20_SHOWFAIL").is_ok() && m::NAME == "Yaml" && !e.contains("anchor") { eprintln!("LOADFAIL {e}: {src:?}"); }
                }
            }
        });
    }
    {
        let mut hist: std::collections::BTreeMap<String, usize> = Default::default();
        for f in &fail_samples {
            let key = f.split(" at byte").next().unwrap_or(f).to_string();
            *hist.entry(key).or_default() += 1;
        }
        for (k, v) in hist { eprintln!("load failure x{v}: {k}"); }
    }
    st.finish("loaded_mappings");
}

/// A2. the three load paths and the four node types give the same lookup answers (differential).
#[test]
fn load_paths_agree() {
    install_hook();
    let n = env_n("C20_DOCS", 150);
    let atoms = key_atoms();
    let mut r = Rng::new(77);
    let mut st = Stats::default();
    for _ in 0..n {
        let src = {
            let mut g = Gen { r: &mut r, atoms: &atoms, used: vec![], defined: vec![] };
            g.doc()
        };
        let src: &'static str = leak(&src);
        // Yaml via the three paths must be equal and hash equally (strings borrowed vs owned).
        let a = y::load(src, 0);
        let b = y::load(src, 1);
        let c = y::load(src, 2);
        if let (Ok(a), Ok(b), Ok(c)) = (&a, &b, &c) {
            st.docs += 1;
            for ((x, yv), z) in a.iter().zip(b).zip(c) {
                let ctx = format!("src {src:?}");
                y::check_eq_hash(x, yv, Some(true), &mut st, &ctx);
                y::check_eq_hash(x, z, None, &mut st, &ctx);
            }
        } else {
            st.load_fail += 1;
            if a.is_ok() != b.is_ok() || a.is_ok() != c.is_ok() {
                st.fail(format!("load paths disagree on acceptance: {src:?}"));
            }
        }
        let a = my::load(src, 0);
        let b = my::load(src, 1);
        // same content shifted: spans differ, nodes must still be equal and hash equally
        let shifted: &'static str = leak(&format!("# x\n{src}"));
        let c = my::load(shifted, 1);
        if let (Ok(a), Ok(b), Ok(c)) = (&a, &b, &c) {
            for ((x, yv), z) in a.iter().zip(b).zip(c) {
                let ctx = format!("src {src:?}");
                my::check_eq_hash(x, yv, Some(true), &mut st, &ctx);
                my::check_eq_hash(x, z, Some(true), &mut st, &ctx);
            }
        }
        let a = myo::load(src, 0);
        let c = myo::load(shifted, 1);
        if let (Ok(a), Ok(c)) = (&a, &c) {
            for (x, z) in a.iter().zip(c) {
                myo::check_eq_hash(x, z, Some(true), &mut st, &format!("src {src:?}"));
            }
        }
    }
    st.finish("load_paths_agree");
}

/// B. constructed mappings (all key kinds, borrowed and owned strings), with API call sequences.
#[test]
fn constructed_mappings() {
    install_hook();
    let n = env_n("C20_TREES", 40);
    let mut r = Rng::new(env_n("C20_SEED", 2) as u64);
    let mut st = Stats::default();
    for i in 0..n {
        let spec = gen_map_spec(&mut r, 2);
        let flip = r.chance(1, 2);
        for_each_type!(m => {
            let mut node = m::build(&spec, flip, &mut r);
            st.docs += 1;
            let ctx = format!("tree #{i} spec {}", short(&format!("{spec:?}")));
            // spec-level expectation for existence
            if let Spec::Map(entries) = &spec {
                for w in WORDS.iter().take(12) {
                    let want = entries.iter().any(|(k, _)| matches!(k, Spec::Str(s, _) if s == w));
                    if m::data(&node).contains_mapping_key(w) != want {
                        st.fail(format!("{}: spec-level existence of {w:?} is {want}; ctx {ctx}", m::NAME));
                    }
                }
            }
            m::probe_tree(&mut node, &[], &mut r, &mut st, &ctx);
            // call sequence: mutate through the API, probe again
            for step in 0..3 {
                let ks = gen_string(&mut r);
                let k = m::build(&Spec::Str(ks.clone(), r.chance(1, 2)), false, &mut r);
                match r.below(12) {
                    0 => {
                        if let m::D::Mapping(map) = m::data_mut(&mut node) {
                            let v = m::build(&gen_scalar_spec(&mut r), false, &mut r);
                            map.insert(k, v);
                        }
                    }
                    1 => {
                        if let m::D::Mapping(map) = m::data_mut(&mut node) {
                            map.remove(&k);
                            if let Some(first) = map.keys().next().cloned() {
                                if r.chance(1, 2) { map.remove(&first); }
                            }
                        }
                    }
                    2 => {
                        if let Some(v) = m::data_mut(&mut node).as_mapping_get_mut(&ks) {
                            *v = m::build(&Spec::Str("replaced".into(), true), false, &mut r);
                        }
                    }
                    3 => {
                        node = node.clone();
                    }
                    4 => {
                        m::data_mut(&mut node).parse_representation_recursive();
                    }
                    6 => {
                        if let m::D::Mapping(map) = m::data_mut(&mut node) {
                            map.pop_front();
                            map.pop_back();
                        }
                    }
                    7 => {
                        if let m::D::Mapping(map) = m::data_mut(&mut node) {
                            let _ = map.to_back(&k);
                            if let Some(first) = map.keys().next().cloned() { let _ = map.to_back(&first); }
                            if let Some(last) = map.keys().last().cloned() { let _ = map.to_front(&last); }
                        }
                    }
                    8 => {
                        if let m::D::Mapping(map) = m::data_mut(&mut node) {
                            let mut c = 0usize;
                            map.retain(|_, _| { c += 1; c % 3 != 0 });
                        }
                    }
                    9 => {
                        if let m::D::Mapping(map) = m::data_mut(&mut node) {
                            let v = m::build(&Spec::Int(5), false, &mut r);
                            map.entry(k).or_insert(v);
                            // re-insert an existing key with the other string ownership
                            if let Some(first) = map.keys().next() {
                                let f2 = m::reown(first, true, &mut r);
                                let v = m::build(&Spec::Int(6), false, &mut r);
                                map.replace(f2, v);
                            }
                        }
                    }
                    10 => {
                        if let m::D::Mapping(map) = m::data_mut(&mut node) {
                            let all: Vec<_> = map.drain().collect();
                            for (kk, vv) in all.into_iter().rev() { map.insert(kk, vv); }
                        }
                    }
                    11 => {
                        if let m::D::Mapping(map) = m::data_mut(&mut node) {
                            let v = m::build(&Spec::Int(7), false, &mut r);
                            match map.raw_entry_mut().from_key(&k) {
                                hashlink::linked_hash_map::RawEntryMut::Occupied(mut e) => { e.replace_value(v); }
                                hashlink::linked_hash_map::RawEntryMut::Vacant(e) => { e.insert(k, v); }
                            }
                        }
                    }
                    _ => {
                        if let m::D::Mapping(map) = m::data_mut(&mut node) {
                            // many inserts to force a rehash/grow
                            for j in 0..(1 + r.below(40)) {
                                let kk = m::build(&Spec::Str(format!("g{j}"), j % 2 == 0), false, &mut r);
                                let vv = m::build(&Spec::Int(j as i64), false, &mut r);
                                map.insert(kk, vv);
                            }
                            if r.chance(1, 3) { map.shrink_to_fit(); }
                        }
                    }
                }
                let ctx2 = format!("{ctx} after step {step}");
                let probes = vec![ks.clone(), "g0".into(), "g1".into(), "replaced".into()];
                m::probe_tree(&mut node, &probes, &mut r, &mut st, &ctx2);
            }
        });
    }
    st.finish("constructed_mappings");
}

/// C. Eq / Hash agreement on many near-equal pairs.
#[test]
fn eq_implies_hash() {
    install_hook();
    let n = env_n("C20_PAIRS", 5000);
    let mut r = Rng::new(env_n("C20_SEED", 3) as u64);
    let mut st = Stats::default();
    for _ in 0..n {
        let a = gen_spec(&mut r, 3);
        let b = if r.chance(4, 5) { mutate(&a, &mut r) } else { gen_spec(&mut r, 3) };
        let want = spec_eq(&a, &b);
        for_each_type!(m => {
            let x = m::build(&a, false, &mut r);
            let yv = m::build(&b, r.chance(1, 2), &mut r);
            let ctx = format!("a={} b={}", short(&format!("{a:?}")), short(&format!("{b:?}")));
            m::check_eq_hash(&x, &yv, Some(want), &mut st, &ctx);
            // as keys of a map: inserting both yields 1 entry iff equal
            let mut map = LinkedHashMap::new();
            map.insert(x.clone(), 1);
            map.insert(yv.clone(), 2);
            if (map.len() == 1) != want {
                st.fail(format!("{}: map of two keys has len {} but equal={want}; ctx {ctx}", m::NAME, map.len()));
            }
            if map.get(&x).is_none() || map.get(&yv).is_none() {
                st.fail(format!("{}: inserted key not found; ctx {ctx}", m::NAME));
            }
        });
    }
    st.finish("eq_implies_hash");
}

/// D. wide maps and boundary-length keys, every key probed with near misses.
#[test]
fn wide_and_long_keys() {
    install_hook();
    let mut r = Rng::new(9);
    let mut st = Stats::default();
    for width in [0usize, 1, 2, 3, 4, 7, 8, 14, 15, 16, 28, 29, 56, 57, 112, 113, 500, 3000] {
        let mut entries = Vec::new();
        for j in 0..width {
            let key = match j % 4 {
                0 => Spec::Str(format!("k{j}"), j % 8 == 0),
                1 => Spec::Int(j as i64),
                2 => Spec::Str(j.to_string(), true),
                _ => Spec::Repr(format!("k{}", j - 3), 0, None, false),
            };
            entries.push((key, Spec::Int(j as i64)));
        }
        let spec = Spec::Map(entries);
        for_each_type!(m => {
            let mut node = m::build(&spec, false, &mut r);
            st.docs += 1;
            let ctx = format!("wide map width {width}");
            for j in 0..width + 3 {
                for p in [format!("k{j}"), j.to_string(), format!("k{j} "), format!("K{j}")] {
                    m::check_lookup(&mut node, &p, &mut r, &mut st, &ctx);
                }
                m::check_int(&mut node, j, &mut st, &ctx);
            }
            m::check_all_keys_found(&mut node, &mut r, &mut st, &ctx);
        });
    }
    // boundary lengths, ASCII and multi-byte, keys differing only in the last char
    for l in (0usize..70).chain([127, 128, 129, 255, 256, 257, 1023, 1024, 1025, 4095, 4096, 4097, 65536]) {
        for ch in ['k', '\u{e9}', '\u{1F600}', '\0'] {
            let base: String = std::iter::repeat(ch).take(l).collect();
            let other = format!("{base}x");
            let spec = Spec::Map(vec![
                (Spec::Str(base.clone(), false), Spec::Int(1)),
                (Spec::Str(other.clone(), true), Spec::Int(2)),
                (Spec::Repr(format!("{base}y"), 0, None, false), Spec::Int(3)),
            ]);
            for_each_type!(m => {
                let mut node = m::build(&spec, false, &mut r);
                st.docs += 1;
                let ctx = format!("boundary len {l} char {ch:?}");
                for p in [base.clone(), other.clone(), format!("{base}y"), format!("{base}{ch}"), format!("{base}xx")] {
                    m::check_lookup(&mut node, &p, &mut r, &mut st, &ctx);
                }
                if l > 0 {
                    let cut = base.char_indices().last().unwrap().0;
                    m::check_lookup(&mut node, &base[..cut], &mut r, &mut st, &ctx);
                }
                m::check_reown(&node, &mut r, &mut st, &ctx);
            });
        }
    }
    st.finish("wide_and_long_keys");
}

/// E. documents decoded from UTF-16 / UTF-8-with-BOM bytes by `YamlDecoder`.
#[cfg(feature = "encoding")]
#[test]
fn decoded_documents() {
    use saphyr::YamlDecoder;
    install_hook();
    let atoms = key_atoms();
    let mut r = Rng::new(11);
    let mut st = Stats::default();
    for _ in 0..env_n("C20_DECODED", 50) {
        let src = {
            let mut g = Gen { r: &mut r, atoms: &atoms, used: vec![], defined: vec![] };
            g.doc()
        };
        let bytes: Vec<u8> = match r.below(3) {
            0 => {
                let mut b = vec![0xff, 0xfe];
                for u in src.encode_utf16() { b.extend(u.to_le_bytes()); }
                b
            }
            1 => {
                let mut b = vec![0xfe, 0xff];
                for u in src.encode_utf16() { b.extend(u.to_be_bytes()); }
                b
            }
            _ => {
                let mut b = vec![0xef, 0xbb, 0xbf];
                b.extend(src.as_bytes());
                b
            }
        };
        let bytes: &'static [u8] = Box::leak(bytes.into_boxed_slice());
        let dec = Box::leak(Box::new(YamlDecoder::read(bytes)));
        match dec.decode() {
            Ok(mut docs) => {
                st.docs += 1;
                let reference = y::load(leak(&src), 0);
                for d in &mut docs {
                    y::probe_tree(d, &[], &mut r, &mut st, &format!("decoded {src:?}"));
                }
                if let Ok(reference) = reference {
                    for (a, b) in docs.iter().zip(&reference) {
                        y::check_eq_hash(a, b, Some(true), &mut st, &format!("decoded {src:?}"));
                    }
                }
            }
            Err(_) => st.load_fail += 1,
        }
    }
    st.finish("decoded_documents");
}
