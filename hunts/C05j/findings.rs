// C05j: no violation found. This file is the probe itself (generator + independent oracle written from
// YAML 1.2.2 ch. 8.1 and the property text); it PASSES on the unmodified library.
// Default 20_000 cases; set C05J_N / C05J_SEED to run more (2.4M cases were run clean, see NOTES.md).
use saphyr::{LoadableYamlNode, Scalar, Yaml};
use saphyr_parser::{BufferedInput, Event, Parser, ScalarStyle};

struct Rng(u64);
impl Rng {
    fn next(&mut self) -> u64 {
        let mut x = self.0;
        x ^= x >> 12;
        x ^= x << 25;
        x ^= x >> 27;
        self.0 = x;
        x.wrapping_mul(0x2545_F491_4F6C_DD1D)
    }
    fn below(&mut self, n: usize) -> usize {
        (self.next() >> 11) as usize % n
    }
    fn chance(&mut self, num: usize, den: usize) -> bool {
        self.below(den) < num
    }
    fn pick<'a, T>(&mut self, v: &'a [T]) -> &'a T {
        &v[self.below(v.len())]
    }
}

#[derive(Clone, Debug)]
enum Line {
    Blank(usize),
    Content(String),
}

#[derive(Clone, Copy, PartialEq, Debug)]
enum Chomp {
    Strip,
    Clip,
    Keep,
}

fn spaced(s: &str) -> bool {
    s.starts_with(' ') || s.starts_with('\t')
}

/// Independent oracle, from YAML 1.2.2 chapter 8.1.
fn oracle(lines: &[Line], literal: bool, chomp: Chomp) -> String {
    let last_content = lines
        .iter()
        .rposition(|l| matches!(l, Line::Content(_)));
    let Some(last) = last_content else {
        return match chomp {
            Chomp::Keep => "\n".repeat(lines.len()),
            _ => String::new(),
        };
    };
    let trailing = lines.len() - last - 1;
    let mut out = String::new();
    let mut prev: Option<&str> = None;
    let mut blanks = 0usize;
    for l in &lines[..=last] {
        match l {
            Line::Blank(_) => blanks += 1,
            Line::Content(c) => {
                match prev {
                    None => out.push_str(&"\n".repeat(blanks)),
                    Some(p) => {
                        if literal {
                            out.push_str(&"\n".repeat(blanks + 1));
                        } else if !spaced(p) && !spaced(c) {
                            if blanks == 0 {
                                out.push(' ');
                            } else {
                                out.push_str(&"\n".repeat(blanks));
                            }
                        } else {
                            out.push_str(&"\n".repeat(blanks + 1));
                        }
                    }
                }
                out.push_str(c);
                prev = Some(c);
                blanks = 0;
            }
        }
    }
    match chomp {
        Chomp::Strip => {}
        Chomp::Clip => out.push('\n'),
        Chomp::Keep => {
            out.push('\n');
            out.push_str(&"\n".repeat(trailing));
        }
    }
    out
}

struct Ctx {
    prefix: &'static str,
    p: isize,
    before: &'static [&'static str],
    sibs: &'static [(&'static str, &'static [&'static str])],
}

const CTXS: &[Ctx] = &[
    Ctx { prefix: "", p: -1, before: &[], sibs: &[] },
    Ctx { prefix: "--- ", p: -1, before: &[], sibs: &[] },
    Ctx { prefix: "---\n", p: -1, before: &[], sibs: &[] },
    Ctx { prefix: "--- !t &a ", p: -1, before: &[], sibs: &[] },
    Ctx { prefix: "k: ", p: 0, before: &["k"], sibs: &[("k2: v\n", &["k2", "v"])] },
    Ctx { prefix: "- ", p: 0, before: &[], sibs: &[("- v\n", &["v"])] },
    Ctx { prefix: "a:\n  b: ", p: 2, before: &["a", "b"], sibs: &[("  c: v\n", &["c", "v"]), ("d: v\n", &["d", "v"])] },
    Ctx { prefix: "a:\n- ", p: 0, before: &["a"], sibs: &[("- v\n", &["v"]), ("b: v\n", &["b", "v"])] },
    Ctx { prefix: "a:\n  - ", p: 2, before: &["a"], sibs: &[("  - v\n", &["v"]), ("b: v\n", &["b", "v"])] },
    Ctx { prefix: "- - ", p: 2, before: &[], sibs: &[("  - v\n", &["v"]), ("- v\n", &["v"])] },
    Ctx { prefix: "- k: ", p: 2, before: &["k"], sibs: &[("  j: v\n", &["j", "v"]), ("- v\n", &["v"])] },
    Ctx { prefix: "? ", p: 0, before: &[], sibs: &[(": v\n", &["v"])] },
    Ctx { prefix: "- ? ", p: 2, before: &[], sibs: &[("  : v\n", &["v"])] },
    Ctx { prefix: "k: &a ", p: 0, before: &["k"], sibs: &[("k2: *a\n", &["k2"])] },
    Ctx { prefix: "k: !!str ", p: 0, before: &["k"], sibs: &[("k2: v\n", &["k2", "v"])] },
    Ctx { prefix: "- !t &a ", p: 0, before: &[], sibs: &[("- v\n", &["v"])] },
    Ctx { prefix: "- - - - - - - ", p: 12, before: &[], sibs: &[("- v\n", &["v"])] },
    Ctx { prefix: "- - - - - - - - ", p: 14, before: &[], sibs: &[("- v\n", &["v"]), ("              - v\n", &["v"])] },
    Ctx { prefix: "- - - - - - - - - ", p: 16, before: &[], sibs: &[("- v\n", &["v"])] },
    Ctx { prefix: "k:\n    ", p: 0, before: &["k"], sibs: &[("k2: v\n", &["k2", "v"])] },
    Ctx { prefix: "-\n   ", p: 0, before: &[], sibs: &[("- v\n", &["v"])] },
    Ctx { prefix: "k: # c\n  !t\n  ", p: 0, before: &["k"], sibs: &[("k2: v\n", &["k2", "v"])] },
    Ctx { prefix: "%YAML 1.2\n--- ", p: -1, before: &[], sibs: &[] },
    Ctx { prefix: "x\n--- ", p: -1, before: &["x"], sibs: &[] },
    Ctx { prefix: "? - ", p: 2, before: &[], sibs: &[(": v\n", &["v"]), ("  - v\n", &["v"])] },
    Ctx { prefix: "[a]: ", p: 0, before: &["a"], sibs: &[("k2: v\n", &["k2", "v"])] },
    Ctx { prefix: "\"q\": ", p: 0, before: &["q"], sibs: &[("k2: v\n", &["k2", "v"])] },
    Ctx { prefix: "? a\n: ", p: 0, before: &["a"], sibs: &[("k2: v\n", &["k2", "v"]), ("? b\n", &["b"])] },
    Ctx { prefix: "- ? a\n  : ", p: 2, before: &["a"], sibs: &[("  k2: v\n", &["k2", "v"]), ("- v\n", &["v"])] },
    Ctx { prefix: "j: [1, 2]\nk: ", p: 0, before: &["j", "1", "2", "k"], sibs: &[("k2: v\n", &["k2", "v"])] },
    Ctx { prefix: "# c\n\nk: ", p: 0, before: &["k"], sibs: &[("k2: v\n", &["k2", "v"])] },
    Ctx { prefix: "  k: ", p: 2, before: &["k"], sibs: &[("  k2: v\n", &["k2", "v"])] },
    Ctx { prefix: "   - ", p: 3, before: &[], sibs: &[("   - v\n", &["v"])] },
    Ctx { prefix: "- - k: ", p: 4, before: &["k"], sibs: &[("    j: v\n", &["j", "v"]), ("  - v\n", &["v"]), ("- v\n", &["v"])] },
    Ctx { prefix: "k: !!str\n ", p: 0, before: &["k"], sibs: &[("k2: v\n", &["k2", "v"])] },
    Ctx { prefix: "- &x\n  ", p: 0, before: &[], sibs: &[("- *x\n", &[])] },
    Ctx { prefix: "kkkkkkkkkkkkkkkkkkkkkkkkkkkkkkkkkkkkkkkkkkkkkkkkkkkkkkkkkkkkkkkkkkkkkkkkkkkkkkkkkkkkkkkkkkkkkkkkkkkkkkkkkkkkkkkkkkkkkkkkkkkkkkkkkkkkkkkkkkkkkkkkkkkkkk: ", p: 0, before: &["kkkkkkkkkkkkkkkkkkkkkkkkkkkkkkkkkkkkkkkkkkkkkkkkkkkkkkkkkkkkkkkkkkkkkkkkkkkkkkkkkkkkkkkkkkkkkkkkkkkkkkkkkkkkkkkkkkkkkkkkkkkkkkkkkkkkkkkkkkkkkkkkkkkkkk"], sibs: &[("k2: v\n", &["k2", "v"])] },
    Ctx { prefix: "k:           ", p: 0, before: &["k"], sibs: &[("k2: v\n", &["k2", "v"])] },
    Ctx { prefix: "-              ", p: 0, before: &[], sibs: &[("- v\n", &["v"])] },
];

const SPECIAL: &[&str] = &[
    "# not a comment", "#", "- x", "-", "k: v", "k:", ": v", "? x", "&a x", "*a", "!t x", "%YAML 1.2", "%TAG ! !",
    "'", "\"", "[", "{", "]", "}", "[a, b]", "{a: b}", "@", "`", "a # c", "|", ">", "|-", ">+2", "---x", "...x",
    "--- |", "a: |", "\\n", "\\", "a\\", "text", "text  ", "text\t", "a  b", "a\tb", "~", "null", "123", "-- -",
    "\u{a0}x", "\u{85}", "a\u{85}b", "\u{2028}", "a\u{2029}", "é", "中文", "😀", "x\u{10FFFF}", "\u{e000}", "\u{fffd}",
    "- |", "? |", "key: >-", "<<: *a", "!!binary |", "---", "...", "--- x", "... ", "---\t", "\t", "\t\t", "#\t", "- - -", "? ", ": ",
];
const CHARS: &[char] = &[
    'a', 'b', 'c', ' ', ' ', '\t', '#', ':', '-', '|', '>', '"', '\'', '[', ']', '{', '}', ',', '&', '*', '!', '%',
    '@', '`', '\\', 'é', '中', '😀', '\u{85}', '\u{2028}', '\u{a0}', '.', '?', '~', '0',
];

fn rand_content(r: &mut Rng, n: usize) -> String {
    // length
    let mut s = String::new();
    let k = r.below(20);
    if k < 8 {
        s.push_str(*r.pick(SPECIAL));
    } else if k < 16 {
        let len = 1 + r.below(8);
        for _ in 0..len {
            s.push(*r.pick(CHARS));
        }
    } else if k < 19 {
        // boundary length: total line length (indent + content) near a power of two
        let target = *r.pick(&[14usize, 15, 16, 17, 18, 31, 32, 33, 63, 64, 65, 127, 128, 129, 255, 256, 257]);
        let target = target + r.below(3) - 1;
        let len = target.saturating_sub(n).max(1);
        let multi = r.chance(1, 3);
        for _ in 0..len {
            if multi {
                s.push(*r.pick(&['é', '中', '😀', 'a']));
            } else {
                s.push(*r.pick(&['a', 'b', ' ', '#', ':']));
            }
        }
    } else {
        let target = *r.pick(&[1023usize, 1024, 1025, 2048, 4096]);
        let len = target.saturating_sub(n).max(1);
        for _ in 0..len {
            s.push(*r.pick(&['a', 'b', ' ', 'é']));
        }
    }
    s
}

struct Case {
    doc: String,
    expected: String,
    literal: bool,
    others: Vec<&'static str>,
    desc: String,
}

fn is_doc_marker_like(s: &str) -> bool {
    (s.starts_with("---") || s.starts_with("..."))
        && s[3..].chars().next().map_or(true, |c| c == ' ' || c == '\t')
}

fn push_br(doc: &mut String, b: &str) {
    if doc.ends_with('\r') && b == "\n" {
        doc.push_str("\r\n");
    } else {
        doc.push_str(b);
    }
}

fn gen(r: &mut Rng) -> Option<Case> {
    let ctx = &CTXS[r.below(CTXS.len())];
    let literal = r.chance(1, 2);
    let chomp = *r.pick(&[Chomp::Strip, Chomp::Clip, Chomp::Keep]);
    let explicit = r.chance(2, 5);
    let base = ctx.p.max(0) as usize;
    let (n, d) = if explicit {
        let d = if r.chance(3, 4) { 1 + r.below(4) } else { 1 + r.below(9) };
        (base + d, d)
    } else {
        let min = (ctx.p + 1).max(0) as usize;
        let extra = match r.below(10) {
            0..=5 => r.below(3),
            6 | 7 => r.below(8),
            8 => 12 + r.below(7),
            _ => *r.pick(&[14usize, 30, 126, 127, 128, 1022]),
        };
        (min + extra, 0)
    };
    // lines
    let nlines = match r.below(10) {
        0 => 0,
        1..=6 => 1 + r.below(5),
        _ => 1 + r.below(12),
    };
    let mut lines: Vec<Line> = Vec::new();
    let mut seen_content = false;
    for _ in 0..nlines {
        let k = r.below(10);
        if k < 3 {
            let j = if n == 0 {
                0
            } else {
                match r.below(8) {
                    0..=2 => 0,
                    3 => n,
                    4 => n - 1,
                    5 => (13 + r.below(6)).min(n),
                    _ => r.below(n + 1),
                }
            };
            lines.push(Line::Blank(j));
            if r.chance(1, 15) {
                for _ in 0..(13 + r.below(30)) {
                    let j = if r.chance(1, 2) { 0 } else { r.below(n + 1) };
                    lines.push(Line::Blank(j));
                }
            }
        } else {
            let mut c = rand_content(r, n);
            if k < 5 {
                // more-indented
                let pre: String = match r.below(4) {
                    0 => " ".into(),
                    1 => "  ".into(),
                    2 => "\t".into(),
                    _ => "    ".into(),
                };
                c = format!("{pre}{c}");
            } else if k == 5 && r.chance(1, 2) {
                // whitespace-only content line (more spaces than the indentation)
                c = " ".repeat(1 + r.below(3));
            }
            if !seen_content && !explicit {
                // the first non-empty line fixes the indentation
                let t = c.trim_start_matches(' ');
                if t.is_empty() {
                    continue;
                }
                c = t.to_string();
            }
            if !seen_content && c.starts_with('\t') && n == 0 {
                continue;
            }
            if n == 0 && is_doc_marker_like(&c) {
                continue;
            }
            seen_content = true;
            lines.push(Line::Content(c));
        }
    }
    // explicit mode: leading blank lines may hold any number of spaces <= n (already true).
    let expected = oracle(&lines, literal, chomp);

    // line break mode
    let brmode = r.below(8); // 0..4 LF, 5 CRLF, 6 CR, 7 mixed
    let br = |r: &mut Rng| -> &'static str {
        match brmode {
            0..=4 => "\n",
            5 => "\r\n",
            6 => "\r",
            _ => *r.pick(&["\n", "\r\n", "\r"]),
        }
    };
    let mut doc = String::new();
    let fix = |s: &str, b: &str| s.replace('\n', b);
    let pb = br(r);
    doc.push_str(&fix(ctx.prefix, pb));
    // header
    doc.push(if literal { '|' } else { '>' });
    let ch = match chomp {
        Chomp::Strip => "-",
        Chomp::Clip => "",
        Chomp::Keep => "+",
    };
    if explicit {
        if r.chance(1, 2) {
            doc.push_str(&format!("{d}{ch}"));
        } else {
            doc.push_str(&format!("{ch}{d}"));
        }
    } else {
        doc.push_str(ch);
    }
    let hdr = *r.pick(&["", "", "", " ", "  ", "\t", " # c", "  #", "\t# c: |", " \t #c", " # - |2"]);
    doc.push_str(hdr);

    let follower = r.below(10); // 0..5 none, 6,7 sibling, 8 comment, 9 doc marker
    let mut others: Vec<&'static str> = ctx.before.to_vec();
    let mut no_final_newline = false;
    let mut fdesc = "eof";
    // lines
    let has_tail = match follower {
        6 | 7 => !ctx.sibs.is_empty(),
        8 => n >= 1 && (seen_content || explicit || ctx.p >= 0),
        9 => true,
        _ => false,
    };
    if lines.is_empty() && !has_tail {
        // header alone, with or without line break
        if r.chance(1, 2) {
            push_br(&mut doc, br(r));
        }
    } else {
        push_br(&mut doc, br(r));
        for (i, l) in lines.iter().enumerate() {
            match l {
                Line::Blank(j) => doc.push_str(&" ".repeat(*j)),
                Line::Content(c) => {
                    doc.push_str(&" ".repeat(n));
                    doc.push_str(c);
                }
            }
            let lastline = i + 1 == lines.len();
            if lastline && !has_tail && r.chance(1, 3) {
                // no final newline
                match l {
                    Line::Blank(_) if chomp == Chomp::Keep => return None, // known / equivalent shapes
                    _ => {}
                }
                no_final_newline = true;
            } else {
                push_br(&mut doc, br(r));
            }
        }
    }
    if has_tail {
        match follower {
            6 | 7 => {
                let (t, sc) = ctx.sibs[r.below(ctx.sibs.len())];
                let b = br(r);
                let mut t = fix(t, b);
                if r.chance(1, 4) {
                    t.truncate(t.trim_end_matches(['\n', '\r']).len());
                }
                doc.push_str(&t);
                others.extend_from_slice(sc);
                fdesc = "sibling";
            }
            8 => {
                let c = if seen_content || explicit { r.below(n) } else { 0 };
                doc.push_str(&" ".repeat(c));
                doc.push_str("# trail");
                if r.chance(2, 3) {
                    push_br(&mut doc, br(r));
                    if r.chance(1, 2) {
                        push_br(&mut doc, br(r));
                        doc.push_str(&" ".repeat(r.below(n + 2)));
                        doc.push_str("# more");
                        push_br(&mut doc, br(r));
                        if r.chance(1, 2) {
                            push_br(&mut doc, br(r));
                        }
                    }
                    if !ctx.sibs.is_empty() && r.chance(1, 2) {
                        let (t, sc) = ctx.sibs[r.below(ctx.sibs.len())];
                        let b = br(r);
                        doc.push_str(&fix(t, b));
                        others.extend_from_slice(sc);
                    }
                }
                fdesc = "comment";
            }
            _ => {
                if r.chance(1, 2) {
                    doc.push_str("...");
                    if r.chance(1, 2) {
                        push_br(&mut doc, br(r));
                    }
                } else {
                    doc.push_str("--- x");
                    push_br(&mut doc, br(r));
                    others.push("x");
                }
                fdesc = "docmarker";
            }
        }
    }
    let desc = format!(
        "ctx={:?} p={} literal={} chomp={:?} explicit={} d={} n={} hdr={:?} follower={} nofinal={} lines={}",
        ctx.prefix, ctx.p, literal, chomp, explicit, d, n, hdr, fdesc, no_final_newline,
        if lines.len() < 8 { format!("{lines:?}") } else { format!("[{} lines]", lines.len()) }
    );
    Some(Case { doc, expected, literal, others, desc })
}

fn events<I: saphyr_parser::Input>(mut p: Parser<'_, I>) -> Result<(Vec<(String, ScalarStyle)>, Vec<String>), String> {
    let mut blocks = Vec::new();
    let mut others = Vec::new();
    loop {
        match p.next_event() {
            None => break,
            Some(Err(e)) => return Err(format!("{e}")),
            Some(Ok((ev, _))) => {
                if let Event::Scalar(v, style, _, _) = ev {
                    match style {
                        ScalarStyle::Literal | ScalarStyle::Folded => blocks.push((v.to_string(), style)),
                        _ => others.push(v.to_string()),
                    }
                }
            }
        }
    }
    Ok((blocks, others))
}

fn collect_strings(y: &Yaml, out: &mut Vec<String>) {
    match y {
        Yaml::Value(Scalar::String(s)) => out.push(s.to_string()),
        Yaml::Value(_) => out.push("<<non-string>>".into()),
        Yaml::Representation(s, _, _) => out.push(s.to_string()),
        Yaml::Sequence(v) => v.iter().for_each(|x| collect_strings(x, out)),
        Yaml::Mapping(m) => {
            for (k, v) in m {
                collect_strings(k, out);
                collect_strings(v, out);
            }
        }
        _ => out.push("<<other>>".into()),
    }
}

fn short(s: &str) -> String {
    if s.len() > 400 {
        let mut e = 200;
        while !s.is_char_boundary(e) {
            e += 1;
        }
        format!("{:?}...[{} bytes]", &s[..e], s.len())
    } else {
        format!("{s:?}")
    }
}

#[test]
fn c05j_random() {
    let total: usize = std::env::var("C05J_N").ok().and_then(|s| s.parse().ok()).unwrap_or(20_000);
    let seed: u64 = std::env::var("C05J_SEED").ok().and_then(|s| s.parse().ok()).unwrap_or(0x9E37_79B9_7F4A_7C15);
    let mut r = Rng(seed);
    let mut ran = 0usize;
    let mut fails = 0usize;
    let mut kinds: std::collections::BTreeMap<String, (usize, String)> = Default::default();
    let mut report = |kind: String, c: &Case, got: String| {
        let e = kinds.entry(kind).or_insert((0, String::new()));
        e.0 += 1;
        if e.0 <= 3 || c.doc.len() < 12 {
            let msg = format!("  doc={}\n  {}\n  expected={}\n  got={}\n", short(&c.doc), c.desc, short(&c.expected), got);
            if e.0 <= 3 {
                e.1.push_str(&msg);
            }
        }
    };
    while ran < total {
        let Some(c) = gen(&mut r) else { continue };
        ran += 1;
        let want_style = if c.literal { ScalarStyle::Literal } else { ScalarStyle::Folded };
        let res_s = events(Parser::new_from_str(&c.doc));
        let res_i = events(Parser::new(BufferedInput::new(c.doc.chars())));
        let mut bad = false;
        for (name, res) in [("str", &res_s), ("iter", &res_i)] {
            match res {
                Err(e) => {
                    bad = true;
                    report(format!("{name}: error"), &c, e.clone());
                }
                Ok((blocks, others)) => {
                    if blocks.len() != 1 || blocks[0].1 != want_style {
                        bad = true;
                        report(format!("{name}: block count/style"), &c, format!("{blocks:?}"));
                    } else if blocks[0].0 != c.expected {
                        bad = true;
                        report(format!("{name}: value literal={}", c.literal), &c, short(&blocks[0].0));
                    } else if others.iter().map(String::as_str).filter(|s| *s != "~").collect::<Vec<_>>() != c.others {
                        bad = true;
                        report(format!("{name}: other scalars"), &c, format!("{others:?}"));
                    }
                }
            }
        }
        if res_s != res_i {
            bad = true;
            report("str vs iter differ".into(), &c, format!("{:?} / {:?}", res_s.as_ref().map(|x| short(&format!("{x:?}"))), res_i.as_ref().map(|x| short(&format!("{x:?}")))));
        }
        // Loader
        if ran % 4 == 0 {
            match Yaml::load_from_str(&c.doc) {
                Err(e) => {
                    if !bad {
                        bad = true;
                        report("loader error".into(), &c, format!("{e}"));
                    }
                }
                Ok(docs) => {
                    let mut v = Vec::new();
                    docs.iter().for_each(|d| collect_strings(d, &mut v));
                    if !v.iter().any(|s| *s == c.expected) {
                        bad = true;
                        report("loader missing value".into(), &c, short(&format!("{v:?}")));
                    }
                }
            }
        }
        if bad {
            fails += 1;
        }
    }
    let mut msg = String::new();
    for (k, (n, ex)) in &kinds {
        msg.push_str(&format!("== {k}: {n}\n{ex}"));
    }
    println!("ran {ran} cases, {fails} failing\n{msg}");
    assert_eq!(fails, 0, "failures");
}

#[test]
fn c05j_loader_keeps_strings() {
    for (src, want) in [
        ("|-\n 123", "123"),
        ("|-\n true", "true"),
        (">-\n ~", "~"),
        ("|-\n null", "null"),
        (">-\n 1.5", "1.5"),
        ("k: |-\n  0x1F\n", "0x1F"),
        ("|-\n .inf", ".inf"),
        ("|", ""),
        (">-", ""),
    ] {
        let docs = Yaml::load_from_str(src).unwrap();
        let mut v = Vec::new();
        docs.iter().for_each(|d| collect_strings(d, &mut v));
        assert!(v.iter().any(|s| s == want), "{src:?}: {v:?} / {docs:?}");
    }
}
