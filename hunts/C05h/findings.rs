// Property C05 -- block scalars yield exactly the text YAML assigns to them.
//
// One #[test] per finding; each FAILS on the unmodified library.
// Drop into saphyr/tests/ and run:
//   cargo test --offline -p saphyr --test findings
#![allow(clippy::pedantic)]

use saphyr_parser::{Event, Parser, ScalarStyle};

/// Block scalars (text, is_literal) of the input, through both input back-ends, or the error text.
fn block_scalars(input: &str) -> Result<Vec<(String, bool)>, String> {
    fn collect<'a, I>(it: I) -> Result<Vec<(String, bool)>, String>
    where
        I: Iterator<Item = Result<(Event<'a>, saphyr_parser::Span), saphyr_parser::ScanError>>,
    {
        let mut v = Vec::new();
        for ev in it {
            match ev {
                Ok((Event::Scalar(s, ScalarStyle::Literal, _, _), _)) => v.push((s.to_string(), true)),
                Ok((Event::Scalar(s, ScalarStyle::Folded, _, _), _)) => v.push((s.to_string(), false)),
                Ok(_) => {}
                Err(e) => return Err(e.to_string()),
            }
        }
        Ok(v)
    }
    let a = collect(Parser::new_from_str(input));
    let b = collect(Parser::new_from_iter(input.chars()));
    assert_eq!(a, b, "StrInput and BufferedInput disagree on {input:?}");
    a
}

/// Finding 1: a block scalar with an EXPLICIT indentation indicator and no content line, followed
/// by a comment line that is indented less than the content indentation but more than the parent,
/// is rejected ("wrongly indented line in block scalar").
///
/// YAML 1.2.2 [169] l-trail-comments(n) ::= s-indent-less-than(n) c-nb-comment-text b-comment
/// l-comment*  -- such a line is a trailing comment, not content, so the scalar is empty (plus the
/// kept blank lines with `+`).  The very same comment line is accepted when a content line
/// precedes it (`a: |2\n  x\n # c\n` -> "x\n"), and is accepted by libyaml in both cases.
#[test]
fn c05_explicit_indent_empty_scalar_followed_by_less_indented_comment() {
    // control: with a content line before the comment everything is fine.
    assert_eq!(
        block_scalars("a: |2\n  x\n # c\nb: 1\n"),
        Ok(vec![("x\n".to_string(), true)])
    );

    // "the content indentation is the explicit indicator" (= 2 here): ` # c` (1 space) is not content.
    assert_eq!(
        block_scalars("a: |2\n # c\nb: 1\n"),
        Ok(vec![(String::new(), true)]),
        "literal, clip"
    );
    assert_eq!(
        block_scalars("- >-4\n  # c\n- x\n"),
        Ok(vec![(String::new(), false)]),
        "folded, strip, sequence entry"
    );
    // keep: the blank line is kept, the comment is not content.
    assert_eq!(
        block_scalars("a: |+2\n\n # c\n"),
        Ok(vec![("\n".to_string(), true)]),
        "literal, keep"
    );
    // nested parent (n = 2, content indentation 4, comment at column 3).
    assert_eq!(
        block_scalars("a:\n  b: |2\n   # c\n  c: d\n"),
        Ok(vec![(String::new(), true)]),
        "nested mapping value"
    );
}

/// Finding 2 (lower confidence): at the top level, where the content indentation may be 0, a
/// block scalar whose FIRST line starts with a tab is rejected ("a block scalar content cannot
/// start with a tab"), although the same line is accepted verbatim anywhere else in the scalar,
/// including as first content line after a blank line.
///
/// "the content indentation is ... that of the first non-empty line" = 0 spaces, which is legal
/// for a top-level node (parent indentation -1); the line `\ttext` is then an ordinary
/// ("more-indented" for the folded style) content line:
/// [171] l-nb-literal-text(0) ::= l-empty* s-indent(0) nb-char+.
#[test]
fn c05_top_level_scalar_first_line_starting_with_tab() {
    // controls: accepted when it is not the very first line after the header.
    assert_eq!(
        block_scalars("|\nx\n\ttext\n"),
        Ok(vec![("x\n\ttext\n".to_string(), true)])
    );
    assert_eq!(
        block_scalars("|\n\n\ttext\n"),
        Ok(vec![("\n\ttext\n".to_string(), true)])
    );

    assert_eq!(
        block_scalars("|\n\ttext\n"),
        Ok(vec![("\ttext\n".to_string(), true)]),
        "literal"
    );
    assert_eq!(
        block_scalars("--- >-\n\ta\n\tb\nc\n"),
        Ok(vec![("\ta\n\tb\nc".to_string(), false)]),
        "folded: tab-led lines are more-indented lines, kept intact"
    );
}
