// C15: documents in a stream are parsed independently of each other.
//
// No violation was found (see NOTES.md). This file is the probe itself with reduced default sizes;
// it PASSES on the unmodified library. Scale it up with the environment variables
// C15_SOUP / C15_MODEL / C15_TUPLES (the full run used 400000 / 80000 / 1000000: 4.4 million
// concatenations, all clean).
//
// Oracle (from the property text): for accepted streams A1..An (n <= 4, all but the last ending with
// a line break), the events of A1 + "...<sep>" + A2 + ... are StreamStart, the document events of
// A1, those of A2 with anchor ids shifted by the number of anchors of A1, ..., StreamEnd; the
// loaded documents are the concatenation of the separately loaded documents. Checked through
// Parser over StrInput (iterator), Parser over BufferedInput (iterator), Parser::load with an
// event sink, Yaml::load_from_str and Yaml::load_from_parser.
#![allow(clippy::all, clippy::pedantic)]

use saphyr::{LoadableYamlNode, Yaml};
use saphyr_parser::{Event, EventReceiver, Parser};

/// Events of a stream rendered as strings, without StreamStart / StreamEnd, anchor ids shifted.
fn render(ev: &Event<'_>, shift: usize) -> String {
    let s = |id: usize| if id == 0 { 0 } else { id + shift };
    match ev {
        Event::Alias(id) => format!("Alias({})", s(*id)),
        Event::Scalar(v, st, id, tag) => format!("Scalar({v:?},{st:?},{},{tag:?})", s(*id)),
        Event::SequenceStart(id, tag) => format!("Seq({},{tag:?})", s(*id)),
        Event::MappingStart(id, tag) => format!("Map({},{tag:?})", s(*id)),
        other => format!("{other:?}"),
    }
}

fn n_anchors(evs: &[Event<'_>]) -> usize {
    evs.iter()
        .filter(|e| match e {
            Event::Scalar(_, _, id, _) | Event::SequenceStart(id, _) | Event::MappingStart(id, _) => {
                *id > 0
            }
            _ => false,
        })
        .count()
}

fn events_str(s: &str) -> Result<Vec<Event<'_>>, String> {
    let mut v = vec![];
    for x in Parser::new_from_str(s) {
        match x {
            Ok((e, _)) => v.push(e),
            Err(e) => return Err(e.to_string()),
        }
    }
    Ok(v)
}

fn events_iter(s: &str) -> Result<Vec<Event<'_>>, String> {
    let mut v = vec![];
    for x in Parser::new_from_iter(s.chars()) {
        match x {
            Ok((e, _)) => v.push(e),
            Err(e) => return Err(e.to_string()),
        }
    }
    Ok(v)
}

struct Sink(Vec<String>);
impl<'a> EventReceiver<'a> for Sink {
    fn on_event(&mut self, ev: Event<'a>) {
        self.0.push(render(&ev, 0));
    }
}

fn events_load(s: &str) -> Result<Vec<String>, String> {
    let mut p = Parser::new_from_str(s);
    let mut sink = Sink(vec![]);
    p.load(&mut sink, true).map_err(|e| e.to_string())?;
    Ok(sink.0)
}

/// An accepted stream with what it parses to.
#[derive(Clone)]
struct Acc {
    text: String,
    body: Vec<Event<'static>>, // without StreamStart/StreamEnd (owned)
    docs: Vec<Yaml<'static>>,
}

fn own(e: &Event<'_>) -> Event<'static> {
    match e {
        Event::Nothing => Event::Nothing,
        Event::StreamStart => Event::StreamStart,
        Event::StreamEnd => Event::StreamEnd,
        Event::DocumentStart(b) => Event::DocumentStart(*b),
        Event::DocumentEnd => Event::DocumentEnd,
        Event::Alias(i) => Event::Alias(*i),
        Event::Scalar(v, s, i, t) => {
            Event::Scalar(v.clone().into_owned().into(), *s, *i, t.clone())
        }
        Event::SequenceStart(i, t) => Event::SequenceStart(*i, t.clone()),
        Event::SequenceEnd => Event::SequenceEnd,
        Event::MappingStart(i, t) => Event::MappingStart(*i, t.clone()),
        Event::MappingEnd => Event::MappingEnd,
    }
}

fn leak(s: &str) -> &'static str {
    Box::leak(s.to_owned().into_boxed_str())
}

fn accept(text: &str) -> Option<Acc> {
    let evs = events_str(text).ok()?;
    let body: Vec<Event<'static>> = evs[1..evs.len() - 1].iter().map(own).collect();
    // the loader must accept it too
    let docs = Yaml::load_from_str(leak(text)).ok()?;
    Some(Acc {
        text: text.to_owned(),
        body,
        docs,
    })
}

const SEPS: &[&str] = &[
    "...\n",
    "... \n",
    "...\t\n",
    "... # c\n",
    "...\r\n",
    "...\r",
    "...   #\n",
];

/// Check the property on a sequence of accepted streams. Returns a description of the violation.
fn check(parts: &[&Acc], seps: &[&str]) -> Result<(), String> {
    let mut text = String::new();
    let mut expected: Vec<String> = vec!["StreamStart".into()];
    let mut docs: Vec<Yaml> = vec![];
    let mut shift = 0;
    for (i, p) in parts.iter().enumerate() {
        if i > 0 {
            text.push_str(seps[(i - 1) % seps.len()]);
        }
        text.push_str(&p.text);
        expected.extend(p.body.iter().map(|e| render(e, shift)));
        shift += n_anchors(&p.body);
        docs.extend(p.docs.iter().cloned());
    }
    expected.push("StreamEnd".into());
    let describe = |what: &str, got: String| {
        format!(
            "{what}\n  input  {text:?}\n  parts  {:?}\n  got    {got}\n  expect {expected:?}",
            parts.iter().map(|p| &p.text).collect::<Vec<_>>()
        )
    };
    match events_str(&text) {
        Err(e) => return Err(describe("str parser rejects", e)),
        Ok(evs) => {
            let got: Vec<String> = evs.iter().map(|e| render(e, 0)).collect();
            if got != expected {
                return Err(describe("str parser events differ", format!("{got:?}")));
            }
        }
    }
    match events_iter(&text) {
        Err(e) => return Err(describe("iter parser rejects", e)),
        Ok(evs) => {
            let got: Vec<String> = evs.iter().map(|e| render(e, 0)).collect();
            if got != expected {
                return Err(describe("iter parser events differ", format!("{got:?}")));
            }
        }
    }
    match events_load(&text) {
        Err(e) => return Err(describe("Parser::load rejects", e)),
        Ok(got) => {
            if got != expected {
                return Err(describe("Parser::load events differ", format!("{got:?}")));
            }
        }
    }
    match Yaml::load_from_str(&text) {
        Err(e) => return Err(describe("loader rejects", e.to_string())),
        Ok(got) => {
            if got != docs {
                return Err(describe(
                    "loaded documents differ",
                    format!("{got:?} vs {docs:?}"),
                ));
            }
        }
    }
    let mut p = Parser::new_from_str(&text);
    match Yaml::load_from_parser(&mut p) {
        Err(e) => return Err(describe("loader(str) rejects", e.to_string())),
        Ok(got) => {
            if got != docs {
                return Err(describe(
                    "loaded(str) documents differ",
                    format!("{got:?} vs {docs:?}"),
                ));
            }
        }
    }
    Ok(())
}

struct Rng(u64);
impl Rng {
    fn next(&mut self) -> u64 {
        self.0 ^= self.0 << 13;
        self.0 ^= self.0 >> 7;
        self.0 ^= self.0 << 17;
        self.0
    }
    fn below(&mut self, n: usize) -> usize {
        (self.next() % n as u64) as usize
    }
}

fn visual_to_raw(yaml: &str) -> String {
    let mut yaml = yaml.to_owned();
    for (pat, replacement) in [
        ("␣", " "),
        ("»", "\t"),
        ("—", ""),
        ("←", "\r"),
        ("⇔", "\u{FEFF}"),
        ("↵", ""),
        ("∎\n", ""),
    ] {
        yaml = yaml.replace(pat, replacement);
    }
    yaml
}

fn corpus() -> Vec<String> {
    let mut out = vec![];
    let dir = concat!(env!("CARGO_MANIFEST_DIR"), "/../parser/tests/yaml-test-suite/src");
    let Ok(rd) = std::fs::read_dir(dir) else {
        return out;
    };
    let mut paths: Vec<_> = rd.map(|e| e.unwrap().path()).collect();
    paths.sort();
    for p in paths {
        let Ok(txt) = std::fs::read_to_string(&p) else {
            continue;
        };
        let Ok(docs) = Yaml::load_from_str(&txt) else {
            continue;
        };
        let Some(list) = docs[0].as_vec() else {
            continue;
        };
        for t in list {
            if let Some(y) = t.as_mapping_get("yaml").and_then(|y| y.as_str()) {
                out.push(visual_to_raw(y));
            }
        }
    }
    out
}

const HAND: &[&str] = &[
    "",
    "\n",
    "# c\n",
    "a\n",
    "a",
    "---\n",
    "---",
    "--- a\n",
    "--- |\nabc\n",
    "--- |\n",
    "|\n",
    "|+\n\n\n",
    ">\n\n",
    "|-\n a\n\n",
    "|2\n  a\n",
    "--- >\nabc\ndef\n",
    "--- |\nabc\n\n",
    "a: |\n",
    "a: |\n\n",
    "- |\n",
    "- >+\n\n",
    "a:\n",
    "a: \n",
    "? \n",
    "?\n",
    "-\n",
    "- \n",
    "&a\n",
    "!t\n",
    "--- &a !t\n",
    "a: &x\n",
    "a: !t\n",
    "&a a: &b b\n*a : *b\n",
    "&a a\n",
    "&a [*a]\n",
    "- &a x\n- *a\n",
    "%YAML 1.2\n---\n",
    "%YAML 1.1\n---\na\n",
    "%YAML 1.1\n--- yes\n",
    "%YAML 1.3\n--- yes\n",
    "%TAG !e! tag:e,2000:\n--- !e!x a\n",
    "%TAG !! tag:e,2000:\n--- !!int 1\n",
    "%TAG ! tag:e,2000:\n--- !int 1\n",
    "%FOO bar\n--- a\n",
    "!!int 2\n",
    "!int 2\n",
    "!<tag:yaml.org,2002:str> 2\n",
    "! a\n",
    "a\n...\n",
    "a\n...\n...\n",
    "...\n",
    "...\n...\n",
    "...",
    "--- a\n--- b\n",
    "a\n---\nb\n",
    "--- a\n...\n%YAML 1.2\n--- b\n",
    "\u{FEFF}a\n",
    "\u{FEFF}a: b\n",
    "\u{FEFF}---\na\n",
    "\u{FEFF}",
    "\u{FEFF}\n",
    "\u{FEFF}# c\n",
    "\u{FEFF}%YAML 1.2\n---\n",
    "[a, b]\n",
    "{a: b}\n",
    "[a, b]",
    "{a: b,\n}\n",
    "[\na\n]\n",
    "\"a\n b\"\n",
    "'a\n\n b'\n",
    "\"a\":b\n",
    "{\"a\":b}\n",
    "[\"a\":b]\n",
    "[a]: b\n",
    "{a: b}: c\n",
    "? a\n: b\n",
    "? - a\n: - b\n",
    "a:\n- b\n- c\n",
    "a:\n  b:\n    c: d\n",
    "- - - a\n",
    "-\ta\n",
    "a\r",
    "a\r\n",
    "a: b\r\n",
    "a\n\t\n",
    "a\n \n",
    "a\n  # c\n",
    "a # c\n",
    "a\n b\n c\n",
    "a:\n  b\n  c\n",
    "- a\n  b\n",
    "---\n---\n---\n",
    "--- # c\n",
    "---\ta\n",
    "--- >-\n a\n",
    "--- \"a\"\n",
    "--- [a]\n",
    "--- {a: b}\n",
    "--- !t\n",
    "--- &a\n",
    "--- *a\n",
    "--- a: b\n",
    "--- - a\n",
    "---\n- a\n",
    "--- |\n a\n...\n",
    "--- |1\n a\n",
    "--- |\n\n",
    "--- |\n \n",
    "--- |\n  \n a\n",
    "--- |\n a\n# c\n",
    "--- >\n a\n  b\n\n c\n",
    "key: |\n  a\n# c\n",
    "- |\n a\n- b\n",
    "a: [b,\n c]\n",
    "a: 'b\n\n  c'\n",
    "a: \"b\\\n  c\"\n",
    "%YAML 1.2\n%TAG !a! tag:a:\n%TAG !b! tag:b:\n--- !a!x [!b!y z]\n",
    "--- !!map {a: b}\n",
    "--- !!seq [a]\n",
    "<<: a\n",
    "~\n",
    "null: ~\n",
    "? |\n a\n: |\n b\n",
    "- ? a\n  : b\n",
    "- a: b\n  c: d\n- e\n",
    "a: - b\n",
    "word1\n# c\n",
    "word1  # c\n\n\n",
    "a: b\n\n\n\n",
    "-- a\n",
    "-a\n",
    "..a\n",
    ".. .\n",
    "a ...\n",
    "a\n ...\n",
    "- ...\n",
    " ...\n",
    " ---\n",
    "a\n ---\n",
    "--- ---\n",
    "--- ...\n",
    "---\n ...\n",
    "'...'\n",
    "\"---\"\n",
    "\"a\n ...\"\n",
    "--- |\n ...\n",
    "--- |\n ---\n",
    "[...]\n",
    "[\n ...\n]\n",
    "{ ---: a }\n",
    "%YAML 1.2\n---\n%a\n",
    "--- a\n%b\n",
    "a\n%b\n",
    "--- |\n%a\n",
    "--- >\n%a\n",
    "--- |\n\n%a\n",
    "--- \"a\n%b\"\n",
    "--- 'a\n%b'\n",
    "--- [\n%b\n]\n",
];

const SOUP: &[&str] = &[
    "a", "b", "c", ": ", ":", "- ", "-", "? ", "?", "\n", "\n", "\n", " ", "  ", "\t", "[", "]",
    "{", "}", ",", ", ", "&a ", "&b ", "*a", "*b", "!t ", "!!str ", "!!int ", "!", "|", ">", "|+",
    "|-", "|2", ">1-", "\"", "'", "#", " #c", " # c\n", "---", "...", "%YAML 1.2\n",
    "%YAML 1.1\n", "%TAG !e! tag:e,2000:\n", "%TAG !! tag:f,2000:\n", "%TAG ! !g-\n", "!e!x ",
    "\r\n", "\r", "\u{FEFF}", "---\n", "--- ", "...\n", "é", "\\", "0", "1", "~", "null", "<<",
    "yes", "%", "%F x\n", "\n ", "\n  ", "\n- ", "\n? ", "\n: ", "a: ", "a: b", "- a", "[a", "{a: ",
    "\"a\"", "'a'", "\\n", "!<x> ", "\u{85}", "\u{2028}", "😀", "\u{a0}", "-- ", ".. ", ".",
    "--", "..",
];

fn soup(rng: &mut Rng) -> String {
    let n = 1 + rng.below(10);
    let mut s = String::new();
    for _ in 0..n {
        s.push_str(SOUP[rng.below(SOUP.len())]);
    }
    if rng.below(3) > 0 && !s.ends_with('\n') {
        s.push('\n');
    }
    s
}

/// Structured renderer: a random tree in a random mix of block and flow style.
fn node(rng: &mut Rng, depth: usize, indent: usize, flow: bool, out: &mut String, anchors: &mut Vec<String>) {
    let props = |rng: &mut Rng, out: &mut String, anchors: &mut Vec<String>| {
        if rng.below(6) == 0 {
            let name = format!("n{}", rng.below(3));
            out.push_str(&format!("&{name} "));
            anchors.push(name);
        }
        if rng.below(6) == 0 {
            out.push_str(["!t ", "!!str ", "!e!x ", "!<v> ", "! "][rng.below(5)]);
        }
    };
    let kind = if depth == 0 { rng.below(4) } else { rng.below(8) };
    let pad = " ".repeat(indent);
    match kind {
        5 if !flow => {
            // block sequence
            props(rng, out, anchors);
            for _ in 0..1 + rng.below(3) {
                out.push('\n');
                out.push_str(&pad);
                out.push_str("- ");
                node(rng, depth - 1, indent + 2, false, out, anchors);
            }
        }
        6 if !flow => {
            props(rng, out, anchors);
            for i in 0..1 + rng.below(3) {
                out.push('\n');
                out.push_str(&pad);
                if rng.below(4) == 0 {
                    out.push_str("? ");
                    node(rng, depth - 1, indent + 2, false, out, anchors);
                    out.push('\n');
                    out.push_str(&pad);
                    out.push_str(": ");
                } else {
                    out.push_str(&format!("k{i}: "));
                }
                node(rng, depth - 1, indent + 2, false, out, anchors);
            }
        }
        4 | 5 => {
            props(rng, out, anchors);
            out.push('[');
            for i in 0..rng.below(4) {
                if i > 0 {
                    out.push_str(", ");
                }
                node(rng, depth - 1, indent + 2, true, out, anchors);
            }
            out.push(']');
        }
        6 | 7 => {
            props(rng, out, anchors);
            out.push('{');
            for i in 0..rng.below(4) {
                if i > 0 {
                    out.push_str(", ");
                }
                out.push_str(&format!("f{i}: "));
                node(rng, depth - 1, indent + 2, true, out, anchors);
            }
            out.push('}');
        }
        3 if !anchors.is_empty() => {
            let a = anchors[rng.below(anchors.len())].clone();
            out.push_str(&format!("*{a}"));
        }
        2 if !flow => {
            props(rng, out, anchors);
            out.push_str(["|", ">", "|+", "|-", ">+", "|1", ">2-"][rng.below(7)]);
            let n = rng.below(4);
            for i in 0..n {
                out.push('\n');
                if rng.below(4) > 0 {
                    out.push_str(&pad);
                    out.push_str("   ");
                    out.push_str(["x", "x y", " z", "# n", "...", "---", "%a"][rng.below(7)]);
                }
                let _ = i;
            }
        }
        _ => {
            props(rng, out, anchors);
            out.push_str(
                [
                    "a", "1", "~", "\"q\"", "'s'", "x y", "", "true", "\"m\n    n\"", "0x1f", "-.inf", "1e3",
                ][rng.below(12)],
            );
        }
    }
}

fn model(rng: &mut Rng) -> String {
    let mut out = String::new();
    let ndocs = 1 + rng.below(3);
    for d in 0..ndocs {
        let mut anchors = vec![];
        let mut explicit = d > 0 || rng.below(2) == 0;
        if rng.below(5) == 0 {
            if d > 0 && !out.ends_with("...\n") {
                out.push_str("...\n");
            }
            out.push_str(["%YAML 1.2\n", "%YAML 1.1\n", "%TAG !e! tag:e:\n", "%TAG !! tag:f:\n", "%TAG ! tag:g:\n", "%X y\n"][rng.below(6)]);
            if rng.below(2) == 0 {
                out.push_str("%TAG !e! tag:h:\n");
                if out.matches("%TAG !e!").count() > 1 {
                    // may be a duplicate in the same document: the acceptance filter sorts it out
                }
            }
            explicit = true;
        }
        if explicit {
            out.push_str("---");
            out.push_str([" ", "\n", " # c\n"][rng.below(3)]);
        }
        node(rng, 3, 0, false, &mut out, &mut anchors);
        out.push_str(["\n", "\n", "\n", "\r\n", "\n\n", "\n# c\n", "", "\n...\n", " # c\n"][rng.below(9)]);
    }
    out
}

fn ends_with_break(s: &str) -> bool {
    s.ends_with('\n') || s.ends_with('\r')
}

#[test]
fn c15_probe() {
    let mut rng = Rng(0x9E37_79B9_7F4A_7C15);
    let mut pool: Vec<Acc> = vec![];
    let mut raw: Vec<String> = HAND.iter().map(|s| s.to_string()).collect();
    let corp = corpus();
    eprintln!("corpus inputs: {}", corp.len());
    for c in &corp {
        raw.push(c.clone());
        if !ends_with_break(c) {
            raw.push(format!("{c}\n"));
        }
    }
    let n_hand_corpus = raw.len();
    let n_soup: usize = std::env::var("C15_SOUP").ok().and_then(|s| s.parse().ok()).unwrap_or(30_000);
    let n_model: usize = std::env::var("C15_MODEL").ok().and_then(|s| s.parse().ok()).unwrap_or(5_000);
    for _ in 0..n_soup {
        raw.push(soup(&mut rng));
    }
    for _ in 0..n_model {
        raw.push(model(&mut rng));
    }
    raw.sort();
    raw.dedup();
    let total_raw = raw.len();
    for r in &raw {
        if r.contains('\0') {
            continue;
        }
        if let Some(a) = accept(r) {
            pool.push(a);
        }
    }
    eprintln!("raw {} (hand+corpus {}), accepted {}", total_raw, n_hand_corpus, pool.len());
    let firsts: Vec<usize> = (0..pool.len()).filter(|&i| ends_with_break(&pool[i].text)).collect();
    eprintln!("accepted ending with a line break: {}", firsts.len());

    let mut failures: Vec<String> = vec![];
    let mut seen_kinds = std::collections::BTreeMap::<String, usize>::new();
    let mut record = |r: Result<(), String>, failures: &mut Vec<String>| {
        if let Err(e) = r {
            let kind = e.lines().next().unwrap().to_string();
            let n = seen_kinds.entry(kind).or_insert(0);
            *n += 1;
            if *n <= 12 {
                failures.push(e);
            }
        }
    };

    // 1. every accepted A (with line break) against a fixed set of B, every B against a fixed set of A
    let fixed_b: Vec<Acc> = ["", "a", "a\n", "--- b\n", "%YAML 1.2\n---\nb\n", "%TAG !e! tag:z:\n--- !e!q b\n", "- &a x\n- *a\n", "[a]: b", "\u{FEFF}k: v\n", "|\n x\n", "...\n", "# c"]
        .iter()
        .map(|s| accept(s).expect(s))
        .collect();
    let fixed_a: Vec<Acc> = ["\n", "a\n", "--- |\nq\n", "k:\n", "- &a x\n- *a\n", "%TAG !e! tag:z:\n--- !e!q b\n", "%YAML 1.1\n---\n", "a\n...\n", "{a: [b]}\n", "k: |+\n\n\n", "- - a\r"]
        .iter()
        .map(|s| accept(s).expect(s))
        .collect();
    let mut cases = 0usize;
    for &i in &firsts {
        for (j, b) in fixed_b.iter().enumerate() {
            record(check(&[&pool[i], b], &[SEPS[(i + j) % SEPS.len()]]), &mut failures);
            cases += 1;
        }
    }
    for (i, b) in pool.iter().enumerate() {
        for (j, a) in fixed_a.iter().enumerate() {
            record(check(&[a, b], &[SEPS[(i + j) % SEPS.len()]]), &mut failures);
            cases += 1;
        }
    }
    eprintln!("fixed-partner cases: {cases}");

    // 2. random tuples of 2..4
    let n_tuples: usize = std::env::var("C15_TUPLES").ok().and_then(|s| s.parse().ok()).unwrap_or(50_000);
    for _ in 0..n_tuples {
        let n = 2 + rng.below(3);
        let mut parts: Vec<&Acc> = vec![];
        for k in 0..n {
            if k + 1 < n {
                parts.push(&pool[firsts[rng.below(firsts.len())]]);
            } else {
                parts.push(&pool[rng.below(pool.len())]);
            }
        }
        let seps: Vec<&str> = (0..3).map(|_| SEPS[rng.below(SEPS.len())]).collect();
        record(check(&parts, &seps), &mut failures);
        cases += 1;
    }
    eprintln!("total cases: {cases}");

    // 3. boundary lengths: pad A with a comment so that the marker sits around 16/128/1024 multiples
    let mut bcases = 0usize;
    let b_set: Vec<Acc> = ["b: &a c\n", "%TAG !e! tag:z:\n--- !e!q b\n", "--- |\n x\n", "[a,\n b]"]
        .iter()
        .map(|s| accept(s).expect(s))
        .collect();
    for base in ["a: b\n", "- |\n x\n", "--- &a [x, *a]\n", "%TAG !e! tag:y:\n--- !e!r z\n"] {
        for target in [16usize, 32, 128, 256, 1024, 2048] {
            for delta in 0..12usize {
                let want = target + delta - 6;
                let l = base.len();
                if want < l + 2 {
                    continue;
                }
                let a = format!("{base}#{}\n", "c".repeat(want - l - 2));
                let a = accept(&a).expect("padded");
                for b in &b_set {
                    record(check(&[&a, b], &["...\n"]), &mut failures);
                    bcases += 1;
                }
            }
        }
    }
    eprintln!("boundary cases: {bcases}");

    for (k, n) in &seen_kinds {
        eprintln!("KIND {k}: {n}");
    }
    for f in &failures {
        eprintln!("FAIL {f}\n");
    }
    assert!(failures.is_empty(), "{} violations", failures.len());
}

/// Liveness of the oracle: a tampered expectation is reported.
#[test]
fn c15_oracle_self_test() {
    let a = accept("- &a x\n- *a\n").unwrap();
    let b = accept("&b y\n").unwrap();
    assert!(check(&[&a, &b], &["...\n"]).is_ok());
    let mut wrong = b.clone();
    wrong.body = accept("&b z\n").unwrap().body;
    assert!(check(&[&a, &wrong], &["...\n"]).unwrap_err().starts_with("str parser events differ"));
    let mut wrong = b.clone();
    wrong.docs = accept("&b z\n").unwrap().docs;
    assert!(check(&[&a, &wrong], &["...\n"]).unwrap_err().starts_with("loaded documents differ"));
    // anchors of an earlier document are not visible: this B is not an accepted stream, and the
    // concatenation is rejected as well
    assert!(accept("*a\n").is_none());
    assert!(events_str("&a x\n...\n*a\n").is_err());
}
