//! Property C04 -- findings (integration test, drop into saphyr/tests/).
//!
//! One finding: the text reported for an *empty* plain scalar (a node whose content is omitted)
//! is "~" instead of "" -- unless the node carries an anchor or a tag, in which case it is "".
//!
//! YAML 1.2.2, 7.2 "Empty Nodes": "Nodes with empty content are interpreted as if they were
//! plain scalars with an empty value."  (production [105] e-scalar ::= "")
//! Property C04: "The value reported for a plain, single-quoted or double-quoted scalar is
//! exactly the text the YAML 1.2 rules give it".
#![allow(clippy::pedantic)]

use saphyr::{LoadableYamlNode, Yaml, YamlLoader};
use saphyr_parser::{Event, Parser, ScalarStyle};

fn scalars(doc: &str) -> Vec<(String, ScalarStyle)> {
    Parser::new_from_str(doc)
        .map(|ev| ev.expect("the input is valid YAML"))
        .filter_map(|(ev, _)| match ev {
            Event::Scalar(value, style, _, _) => Some((value.into_owned(), style)),
            _ => None,
        })
        .collect()
}

fn texts(doc: &str) -> Vec<String> {
    scalars(doc).into_iter().map(|(v, _)| v).collect()
}

/// The text of an omitted node is the empty string in every syntactic context.
#[test]
fn c04_f1_empty_plain_scalar_is_reported_with_empty_text() {
    // block mapping value, block sequence entry, flow mapping value, single pair in a flow
    // sequence, explicit key and its value, empty second document
    assert_eq!(texts("k:"), ["k", ""]);
    assert_eq!(texts("- "), [""]);
    assert_eq!(texts("{a: }"), ["a", ""]);
    assert_eq!(texts("[a: ]"), ["a", ""]);
    assert_eq!(texts("? \n: "), ["", ""]);
    assert_eq!(texts("\"a\"\n--- "), ["a", ""]);
}

/// An anchor or a tag does not change the content of the node it decorates: `- &a` and `-` are
/// both plain scalars with the same (empty) text.  The library reports "" for the first and "~"
/// for the second.
#[test]
fn c04_f1_empty_plain_scalar_text_does_not_depend_on_node_properties() {
    let v = texts("- &a\n- !!str\n-");
    assert_eq!(v.len(), 3);
    assert_eq!(v[0], v[2], "anchored empty node vs bare empty node");
    assert_eq!(v[1], v[2], "tagged empty node vs bare empty node");
}

/// The same misreport through the document API: with `early_parse(false)` the loader stores
/// "the raw string from the input" -- for `k:` there is no `~` anywhere in the input.
#[test]
fn c04_f1_representation_of_an_omitted_value_is_empty() {
    let mut parser = Parser::new_from_str("k:");
    let mut loader: YamlLoader<'_, Yaml<'_>> = YamlLoader::default();
    loader.early_parse(false);
    parser.load(&mut loader, true).unwrap();
    let docs = loader.into_documents();
    let map = docs[0].as_mapping().expect("a mapping");
    let (_, value) = map.iter().next().unwrap();
    match value {
        Yaml::Representation(text, style, tag) => {
            assert_eq!(*style, ScalarStyle::Plain);
            assert!(tag.is_none());
            assert_eq!(text.as_ref(), "", "representation of the omitted value of `k:`");
        }
        other => panic!("unexpected node {other:?}"),
    }
    // (silence the unused-import lint of the trait when the API changes)
    let _ = Yaml::load_from_str("a").unwrap();
}
