// Property C17 -- pull, peek and push interfaces tell the same story.
//
// Drop into saphyr/tests/.  `f1_*` fails on the unmodified library; `strict_property_smoke`
// passes and documents the part of the property that was probed clean (see NOTES.md).

use saphyr_parser::{Event, Parser, ScanError, Span, SpannedEventReceiver};

#[derive(Default)]
struct Rec<'a> {
    evs: Vec<(Event<'a>, Span)>,
}
impl<'a> SpannedEventReceiver<'a> for Rec<'a> {
    fn on_event(&mut self, ev: Event<'a>, span: Span) {
        self.evs.push((ev, span));
    }
}

/// Plain iteration: events up to the first error, and that error.
fn plain(s: &str) -> (Vec<(Event<'_>, Span)>, Option<ScanError>) {
    let mut evs = vec![];
    for x in Parser::new_from_str(s) {
        match x {
            Ok(e) => evs.push(e),
            Err(e) => return (evs, Some(e)),
        }
    }
    (evs, None)
}

/// F1: an error that `peek` has shown is swallowed by a following `load` when the scanner has
/// already handed out its StreamEnd token (directives followed by the end of the input).
/// `peek` is supposed to consume nothing, and the push interface is supposed to deliver the same
/// events and error as the iterator; instead `load` reports a clean end of stream.
#[test]
fn f1_peeked_error_is_dropped_by_load() {
    // (a) next, peek, load(multi=true)
    let s = "%YAML 1.2\n";
    let (evs, err) = plain(s);
    assert_eq!(evs.len(), 1, "iterator: StreamStart, then the error");
    let err = err.expect("iterator reports an error for directives without a document");

    let mut p = Parser::new_from_str(s);
    assert_eq!(p.next(), Some(Ok(evs[0].clone())));
    assert_eq!(p.peek().map(|r| r.cloned()), Some(Err(err.clone())));
    let mut rec = Rec::default();
    let r = p.load(&mut rec, true);
    let mut failures = vec![];
    if (&rec.evs, &r) != (&vec![], &Err(err.clone())) {
        failures.push(format!(
            "(a) {s:?}: next, peek -> Err, load(true) delivered {:?} and returned {r:?}; \
             the iterator delivers Err({err:?})",
            rec.evs
        ));
    }

    // (b) only push calls plus one peek: load(false), peek, load(false)
    let s = "a\n...\n%TAG !e! tag:e,2000:\n";
    let (evs, err) = plain(s);
    assert_eq!(evs.len(), 4);
    let err = err.expect("iterator reports an error after the first document");

    let mut p = Parser::new_from_str(s);
    let mut rec = Rec::default();
    assert_eq!(p.load(&mut rec, false), Ok(()));
    assert_eq!(rec.evs, evs, "first call: StreamStart and the first document");
    assert_eq!(p.peek().map(|r| r.cloned()), Some(Err(err.clone())));
    let mut rec = Rec::default();
    let r = p.load(&mut rec, false);
    if (&rec.evs, &r) != (&vec![], &Err(err.clone())) {
        failures.push(format!(
            "(b) {s:?}: load(false), peek -> Err, load(false) delivered {:?} and returned {r:?}; \
             the iterator delivers Err({err:?})",
            rec.evs
        ));
    }
    assert!(failures.is_empty(), "{}", failures.join("\n"));
}

/// The property as stated, on a handful of inputs (the large randomized runs are described in
/// NOTES.md): every subset of "peek before the i-th next", load(true), repeated load(false).
#[test]
fn strict_property_smoke() {
    let inputs = [
        "",
        "a",
        "a: b\n",
        "--- &a x\n--- *a\n",
        "a\n...\nb\n...\n",
        "---\n---\n",
        "%YAML 1.2\n",
        "a\n...\n%YAML 1.2\n",
        "[a, {b: c}, *x]",
        "- a\n- - b\n--- !t\n? k\n: v\n",
        "a\n%YAML 1.2\n---\nb\n",
        "\u{feff}a\r\n---\r\n'b'\r",
    ];
    for s in inputs {
        let (evs, err) = plain(s);
        let steps = evs.len() + usize::from(err.is_some());
        assert!(steps <= 16);
        for mask in 0u32..(1 << steps) {
            let mut p = Parser::new_from_str(s);
            for i in 0..steps {
                let want = if i < evs.len() {
                    Some(Ok(evs[i].clone()))
                } else {
                    Some(Err(err.clone().unwrap()))
                };
                if (mask >> i) & 1 == 1 {
                    assert_eq!(p.peek().map(|r| r.cloned()), want, "{s:?} peek {i}");
                    assert_eq!(p.peek().map(|r| r.cloned()), want, "{s:?} peek {i} again");
                }
                assert_eq!(p.next(), want, "{s:?} next {i} mask {mask:#b}");
            }
            if err.is_none() {
                assert!(p.peek().is_none() && p.next().is_none() && p.peek().is_none());
            }
        }
        // push, multi
        let mut p = Parser::new_from_str(s);
        let mut rec = Rec::default();
        let r = p.load(&mut rec, true);
        assert_eq!(rec.evs, evs, "{s:?} load(true)");
        assert_eq!(r.err(), err, "{s:?} load(true) result");
        // push, one document per call
        let mut p = Parser::new_from_str(s);
        let mut all = vec![];
        let mut res = None;
        for _ in 0..evs.len() + 2 {
            let mut rec = Rec::default();
            let r = p.load(&mut rec, false);
            let docs = rec
                .evs
                .iter()
                .filter(|e| matches!(e.0, Event::DocumentStart(_)))
                .count();
            assert!(docs <= 1, "{s:?}: more than one document in a load(false) call");
            let end = matches!(rec.evs.last(), Some((Event::StreamEnd, _)));
            all.extend(rec.evs);
            if let Err(e) = r {
                res = Some(e);
                break;
            }
            if end {
                break;
            }
        }
        assert_eq!(all, evs, "{s:?} load(false)*");
        assert_eq!(res, err, "{s:?} load(false)* result");
    }
}
