//! C09 (emit then load returns the same tree): no violation found.
//!
//! This file is a condensed, fast version of the probes that were run (the full set, about 35
//! million round trips plus an independent PyYAML/libyaml oracle over 778 068 emitted texts, is
//! described in NOTES.md). Every test here PASSES on the unmodified code.
//!
//! Each case: emit under the four settings {compact} x {multiline_strings}; load with
//! `Yaml::load_from_str` (BufferedInput), `Parser::new_from_str` (StrInput), the late-parsing loader
//! (`early_parse(false)` + `parse_representation_recursive`) and `YamlOwned::load_from_str`; require
//! exactly one document, structural equality under a comparator written here (types, float bits,
//! string contents, order), only c-printable characters in the text, and identical text when the
//! reloaded tree is emitted again.
#![allow(dead_code)]
use saphyr::{LoadableYamlNode, Mapping, Scalar, Yaml, YamlEmitter};
use std::collections::BTreeMap;

fn s(x: &str) -> Yaml<'static> {
    Yaml::Value(Scalar::String(x.to_string().into()))
}
fn i(x: i64) -> Yaml<'static> {
    Yaml::Value(Scalar::Integer(x))
}
fn f(x: f64) -> Yaml<'static> {
    Yaml::Value(Scalar::FloatingPoint(x.into()))
}
fn null() -> Yaml<'static> {
    Yaml::Value(Scalar::Null)
}
fn b(x: bool) -> Yaml<'static> {
    Yaml::Value(Scalar::Boolean(x))
}
fn seq(v: Vec<Yaml<'static>>) -> Yaml<'static> {
    Yaml::Sequence(v)
}
fn map(v: Vec<(Yaml<'static>, Yaml<'static>)>) -> Yaml<'static> {
    let mut m = Mapping::new();
    for (k, val) in v {
        m.insert(k, val);
    }
    Yaml::Mapping(m)
}

/// strict structural equality, independent of the library's PartialEq
fn same(a: &Yaml, b: &Yaml) -> bool {
    match (a, b) {
        (Yaml::Value(x), Yaml::Value(y)) => match (x, y) {
            (Scalar::Null, Scalar::Null) => true,
            (Scalar::Boolean(p), Scalar::Boolean(q)) => p == q,
            (Scalar::Integer(p), Scalar::Integer(q)) => p == q,
            (Scalar::FloatingPoint(p), Scalar::FloatingPoint(q)) => {
                let (p, q) = (p.into_inner(), q.into_inner());
                (p.is_nan() && q.is_nan()) || p.to_bits() == q.to_bits()
            }
            (Scalar::String(p), Scalar::String(q)) => p == q,
            _ => false,
        },
        (Yaml::Sequence(x), Yaml::Sequence(y)) => {
            x.len() == y.len() && x.iter().zip(y.iter()).all(|(p, q)| same(p, q))
        }
        (Yaml::Mapping(x), Yaml::Mapping(y)) => {
            x.len() == y.len()
                && x.iter()
                    .zip(y.iter())
                    .all(|((k1, v1), (k2, v2))| same(k1, k2) && same(v1, v2))
        }
        _ => false,
    }
}

fn emit(t: &Yaml, compact: bool, multi: bool) -> String {
    let mut out = String::new();
    let mut e = YamlEmitter::new(&mut out);
    e.compact(compact);
    e.multiline_strings(multi);
    e.dump(t).unwrap();
    out
}

fn check1(t: &Yaml, compact: bool, multi: bool) -> Result<(), String> {
    let text = emit(t, compact, multi);
    let docs = match Yaml::load_from_str(&text) {
        Ok(d) => d,
        Err(e) => return Err(format!("LOADERR {e} text={text:?}")),
    };
    if docs.len() != 1 {
        return Err(format!("NDOCS {} text={text:?}", docs.len()));
    }
    if !same(&docs[0], t) {
        return Err(format!("DIFF text={text:?} got={:?}", docs[0]));
    }
    let again = emit(&docs[0], compact, multi);
    if again != text {
        return Err(format!("REEMIT text={text:?} again={again:?}"));
    }
    // second loading path: StrInput
    let mut parser = saphyr_parser::Parser::new_from_str(&text);
    match Yaml::load_from_parser(&mut parser) {
        Ok(d) => {
            if d.len() != 1 || !same(&d[0], t) {
                return Err(format!("STRDIFF text={text:?} got={d:?}"));
            }
        }
        Err(e) => return Err(format!("STRLOADERR {e} text={text:?}")),
    }
    // every character of the text is printable per YAML 1.2.2 [1] c-printable
    if let Some(c) = text.chars().find(|&c| {
        !matches!(c, '\t' | '\n' | '\r' | '\x20'..='\x7e' | '\u{85}' | '\u{a0}'..='\u{d7ff}'
            | '\u{e000}'..='\u{fffd}' | '\u{10000}'..='\u{10ffff}')
    }) {
        return Err(format!("NONPRINT {:?} text={text:?}", c));
    }
    // late parsing path
    {
        let mut parser = saphyr_parser::Parser::new_from_str(&text);
        let mut loader = saphyr::YamlLoader::<Yaml>::default();
        loader.early_parse(false);
        if let Err(e) = parser.load(&mut loader, true) {
            return Err(format!("LATELOADERR {e} text={text:?}"));
        }
        let mut d = loader.into_documents();
        if d.len() != 1 || !d[0].parse_representation_recursive() || !same(&d[0], t) {
            return Err(format!("LATEDIFF text={text:?} got={d:?}"));
        }
    }
    // third: owned nodes
    match saphyr::YamlOwned::load_from_str(&text) {
        Ok(d) => {
            if d.len() != 1 || !same_owned(&d[0], t) {
                return Err(format!("OWNEDDIFF text={text:?} got={d:?}"));
            }
        }
        Err(e) => return Err(format!("OWNEDLOADERR {e} text={text:?}")),
    }
    Ok(())
}

fn same_owned(a: &saphyr::YamlOwned, b: &Yaml) -> bool {
    use saphyr::{ScalarOwned, YamlOwned};
    match (a, b) {
        (YamlOwned::Value(x), Yaml::Value(y)) => match (x, y) {
            (ScalarOwned::Null, Scalar::Null) => true,
            (ScalarOwned::Boolean(p), Scalar::Boolean(q)) => p == q,
            (ScalarOwned::Integer(p), Scalar::Integer(q)) => p == q,
            (ScalarOwned::FloatingPoint(p), Scalar::FloatingPoint(q)) => {
                let (p, q) = (p.into_inner(), q.into_inner());
                (p.is_nan() && q.is_nan()) || p.to_bits() == q.to_bits()
            }
            (ScalarOwned::String(p), Scalar::String(q)) => p.as_str() == &**q,
            _ => false,
        },
        (YamlOwned::Sequence(x), Yaml::Sequence(y)) => {
            x.len() == y.len() && x.iter().zip(y.iter()).all(|(p, q)| same_owned(p, q))
        }
        (YamlOwned::Mapping(x), Yaml::Mapping(y)) => {
            x.len() == y.len()
                && x.iter()
                    .zip(y.iter())
                    .all(|((k1, v1), (k2, v2))| same_owned(k1, k2) && same_owned(v1, v2))
        }
        _ => false,
    }
}

struct Stats {
    n: u64,
    fails: BTreeMap<String, (u64, String)>,
}
impl Stats {
    fn new() -> Self {
        Stats {
            n: 0,
            fails: BTreeMap::new(),
        }
    }
    fn check(&mut self, class: &str, t: &Yaml) {
        for &(c, m) in &[(true, false), (true, true), (false, false), (false, true)] {
            self.n += 1;
            if let Err(e) = check1(t, c, m) {
                let kind = e.split(' ').next().unwrap().to_string();
                let key = format!("{class}/c{}m{}/{kind}", c as u8, m as u8);
                let ent = self.fails.entry(key).or_insert((0, format!("{t:?} => {e}")));
                ent.0 += 1;
            }
        }
    }
    fn report(&self, name: &str) {
        println!("== {name}: {} cases, {} failure classes", self.n, self.fails.len());
        for (k, (n, ex)) in &self.fails {
            let ex: String = ex.chars().take(600).collect();
            println!("  {k}: {n}  e.g. {ex}");
        }
    }
}

fn positions(x: &str) -> Vec<(&'static str, Yaml<'static>)> {
    let long = "k".repeat(1001);
    vec![
        ("root", s(x)),
        ("item", seq(vec![s(x)])),
        ("item2", seq(vec![s(x), s("z")])),
        ("key", map(vec![(s(x), s("v"))])),
        ("val", map(vec![(s("k"), s(x))])),
        ("val2", map(vec![(s("k"), s(x)), (s("k2"), s("v"))])),
        ("ckeyitem", map(vec![(seq(vec![s(x)]), s("v"))])),
        ("ckeyitem2", map(vec![(seq(vec![s(x), s(x)]), s("v")), (s("q"), s("w"))])),
        ("ckeyval", map(vec![(seq(vec![s("a")]), s(x))])),
        ("ckeymapkey", map(vec![(map(vec![(s(x), s("v"))]), s("w"))])),
        ("ckeymapval", map(vec![(map(vec![(s("k"), s(x))]), s("w"))])),
        ("seqmapkey", seq(vec![map(vec![(s(x), s("v"))])])),
        ("seqmapval", seq(vec![map(vec![(s("k"), s(x)), (s("l"), s("m"))])])),
        ("seqseq", seq(vec![seq(vec![s(x), s("t")])])),
        ("mapmapval", map(vec![(s("a"), map(vec![(s("k"), s(x))]))])),
        ("mapseq", map(vec![(s("a"), seq(vec![s(x)])), (s("b"), null())])),
        ("longkeyval", map(vec![(s(&long), s(x))])),
    ]
}

const ALPHA: &[&str] = &[
    "\n", " ", "\t", "\r", "a", "#", ":", "-", "?", "|", ">", "%", ".", "~", "0", "e", "+", "_",
    "!", "&", "*", "\"", "'", "\\", ",", "[", "]", "{", "}", "`", "@", "=", "<", "\x7f", "\u{80}",
    "\u{85}", "\u{9f}", "\u{a0}", "\u{2028}", "\u{2029}", "\u{feff}", "\u{d7ff}", "\u{e000}",
    "\u{fffd}", "\u{fffe}", "\u{ffff}", "\u{10000}", "\u{10ffff}", "\x01", "\x00", "\u{3000}", "x",
    "1", "/", ";", "$", "^", "(", ")",
];

#[test]
fn p1_strings_len_le2_all_positions() {
    let mut st = Stats::new();
    let mut strs: Vec<String> = vec![String::new()];
    for a in ALPHA {
        strs.push(a.to_string());
        for b in ALPHA {
            strs.push(format!("{a}{b}"));
        }
    }
    for x in &strs {
        for (name, t) in positions(x) {
            st.check(name, &t);
        }
    }
    st.report("p1");
    assert!(st.fails.is_empty());
}

struct Rng(u64);
impl Rng {
    fn next(&mut self) -> u64 {
        self.0 ^= self.0 << 13;
        self.0 ^= self.0 >> 7;
        self.0 ^= self.0 << 17;
        self.0
    }
    fn below(&mut self, n: u64) -> u64 {
        self.next() % n
    }
}

fn rand_string(r: &mut Rng) -> String {
    let n = match r.below(10) {
        0 => 0,
        1..=6 => r.below(6) + 1,
        7 | 8 => r.below(30),
        _ => r.below(200),
    };
    let mut out = String::new();
    for _ in 0..n {
        match r.below(10) {
            0..=4 => out.push_str(ALPHA[r.below(ALPHA.len() as u64) as usize]),
            5 => out.push_str(
                [
                    "true", "false", "null", "~", "0x1", "0o7", "1e3", ".inf", ".nan", "---", "...",
                    "- ", ": ", " #", "? ", "<<", "yes", "no", "1_0", "+1", "-.5", "NaN", "inf",
                    "\r\n", "\n\n", "|-", ">+", "!!str", "&a", "*a",
                ][r.below(30) as usize],
            ),
            6 => out.push(char::from_u32(r.below(0x80) as u32).unwrap()),
            7 => {
                let c = loop {
                    if let Some(c) = char::from_u32(r.below(0x11_0000) as u32) {
                        break c;
                    }
                };
                out.push(c);
            }
            8 => out.push(char::from_u32(0x80 + r.below(0x80) as u32).unwrap()),
            _ => out.push((b'a' + r.below(26) as u8) as char),
        }
    }
    out
}

fn rand_scalar(r: &mut Rng) -> Yaml<'static> {
    match r.below(12) {
        0 => null(),
        1 => b(r.below(2) == 0),
        2 => i(r.next() as i64 >> r.below(64)),
        3 => f(f64::from_bits(r.next())),
        4 => f([0.0, -0.0, 1.0, 1e20, f64::NAN, f64::INFINITY, f64::NEG_INFINITY, 0.5][r.below(8) as usize]),
        _ => s(&rand_string(r)),
    }
}

fn rand_tree(r: &mut Rng, depth: u32) -> Yaml<'static> {
    if depth == 0 {
        return rand_scalar(r);
    }
    match r.below(10) {
        0..=3 => rand_scalar(r),
        4..=6 => {
            let n = [0, 1, 1, 2, 3, 5][r.below(6) as usize];
            seq((0..n).map(|_| rand_tree(r, depth - 1)).collect())
        }
        _ => {
            let n = [0, 1, 1, 2, 3, 5][r.below(6) as usize];
            let mut m = Mapping::new();
            for _ in 0..n {
                let k = if r.below(3) == 0 {
                    rand_tree(r, depth - 1)
                } else {
                    rand_scalar(r)
                };
                let v = rand_tree(r, depth - 1);
                // avoid the known -0.0 / 0.0 and NaN key merges: the map itself dedups equal keys
                m.insert(k, v);
            }
            Yaml::Mapping(m)
        }
    }
}


#[test]
fn harness_notices_a_tree_that_does_not_come_back() {
    assert!(check1(&seq(vec![Yaml::BadValue]), true, false).is_err());
}

#[test]
fn random_trees_depth_le_5() {
    let mut st = Stats::new();
    let mut r = Rng(0xdead_beef_cafe_f00d);
    for _ in 0..20_000 {
        let d = r.below(5) as u32 + 1;
        let t = rand_tree(&mut r, d);
        st.check("tree", &t);
    }
    st.report("random trees");
    assert!(st.fails.is_empty());
}

#[test]
fn boundary_numbers_and_mixed_keys() {
    let mut st = Stats::new();
    let floats = [
        0.0, -0.0, 1.0, -1.0, 0.1, 1e15, 1e16, 1e17, 1e21, 1e22, 1e23, 1e300, 1e308, f64::MAX,
        f64::MIN, f64::MIN_POSITIVE, f64::EPSILON, 5e-324, -5e-324, 1e-7, 9007199254740993.0,
        f64::INFINITY, f64::NEG_INFINITY, f64::NAN, 9223372036854775807.0, 18446744073709551616.0,
    ];
    for x in floats {
        st.check("f", &f(x));
        st.check("f", &seq(vec![f(x), f(x)]));
        st.check("f", &map(vec![(f(x), f(x))]));
        st.check("f", &map(vec![(seq(vec![f(x)]), map(vec![(f(x), f(x))]))]));
    }
    for x in [0, 1, -1, i64::MAX, i64::MIN, 1 << 53] {
        st.check("i", &i(x));
        st.check("i", &map(vec![(i(x), seq(vec![i(x)]))]));
    }
    let t = map(vec![
        (i(1), s("a")), (f(1.0), s("b")), (s("1"), s("c")), (s("1.0"), s("d")), (null(), s("e")),
        (s("~"), s("f")), (s("null"), s("g")), (b(true), s("h")), (s("true"), s("i")), (s(""), s("j")),
        (f(f64::NAN), s("k")), (s(".nan"), s("l")), (f(f64::INFINITY), s("m")), (s(".inf"), s("n")),
        (seq(vec![]), s("o")), (map(vec![]), s("p")), (s("[]"), s("q")), (s("{}"), s("r")),
        (seq(vec![null()]), s("s")), (map(vec![(null(), null())]), s("t")),
    ]);
    st.check("mixedkeys", &t);
    st.report("numbers");
    assert!(st.fails.is_empty());
}

#[test]
fn key_lengths_around_the_1024_limit() {
    let mut st = Stats::new();
    for unit in ["k", "\u{e9}", "\u{10000}", "\"", "\x01", "a b "] {
        for n in (120..136).chain(250..260).chain(990..1030) {
            let k = unit.repeat(n);
            st.check("lk", &map(vec![(s(&k), s("v"))]));
            st.check("lk2", &map(vec![(s("a"), map(vec![(s(&k), s("v")), (s("z"), s("w"))]))]));
            st.check("lk3", &seq(vec![map(vec![(s(&k), seq(vec![s("v")]))])]));
        }
    }
    st.report("key lengths");
    assert!(st.fails.is_empty());
}

/// Observation, NOT a violation of C09 as stated (the library's own loader reads the text back as
/// the original string): with `multiline_strings(true)`, a string ending in one line feed that is
/// the last node of the document is written as a clipped literal whose last line is ended by the end
/// of input, not by a line break. Under YAML 1.2.2 production [165] b-chomped-last(CLIP) ::=
/// b-as-line-feed | <end-of-input> such a literal has no final line feed (libyaml and PyYAML read
/// "a"); saphyr's parser supplies one, which is what makes the round trip hold.
#[test]
fn observation_clipped_literal_ended_by_end_of_input() {
    let t = seq(vec![s("a\n")]);
    let text = emit(&t, true, true);
    assert_eq!(text, "---\n- |\n  a");
    let back = Yaml::load_from_str(&text).unwrap();
    assert!(same(&back[0], &t));
}
