// Property C13 (every JSON text loads with its JSON meaning): no violation found.
// This file is the generator + independent oracle that was used for the probing; it passes on the
// unmodified library. `C13_CASES=<n>` scales the random runs (default 20000 per test), the
// exhaustive whitespace enumeration is `#[ignore]`d because of its run time.
#![allow(dead_code)]
use saphyr::{LoadableYamlNode, Scalar, Yaml};
use saphyr_parser::Parser;

#[derive(Clone, Debug)]
pub enum J {
    Null,
    Bool(bool),
    Num(String),
    Str(String),
    Arr(Vec<J>),
    Obj(Vec<(String, J)>),
}

pub struct Rng(u64);
impl Rng {
    pub fn new(seed: u64) -> Self {
        Rng(seed.wrapping_mul(0x9E3779B97F4A7C15) ^ 0xD1B54A32D192ED03)
    }
    pub fn next(&mut self) -> u64 {
        // splitmix64
        self.0 = self.0.wrapping_add(0x9E3779B97F4A7C15);
        let mut z = self.0;
        z = (z ^ (z >> 30)).wrapping_mul(0xBF58476D1CE4E5B9);
        z = (z ^ (z >> 27)).wrapping_mul(0x94D049BB133111EB);
        z ^ (z >> 31)
    }
    pub fn below(&mut self, n: usize) -> usize {
        (self.next() % (n as u64)) as usize
    }
    pub fn chance(&mut self, num: usize, den: usize) -> bool {
        self.below(den) < num
    }
    pub fn pick<'a, T>(&mut self, xs: &'a [T]) -> &'a T {
        &xs[self.below(xs.len())]
    }
}

const HOSTILE: &[&str] = &[
    "", " ", "  ", "a", "a b", " a", "a ", "---", "...", "--- a", "... ", "null", "~", "true", "false",
    "Null", "NULL", "True", "0", "1", "-1", "0x10", "0o7", "+1", "1e3", ".inf", "-.inf", ".nan", "1.5",
    "- a", "-", "?", "? a", ":", ": ", "a: b", "a:b", " #c", "#c", "a #c", "&a", "*a", "!t", "!!str x",
    "|", ">", "|-", "%YAML 1.2", "@", "`", "'", "''", "\"", "\"\"", "\\", "\\\\", "\\n", "\\u0041", "/",
    "[", "]", "{", "}", ",", "[]", "{}", "[a]", "{a: b}", "a,b", "a, b", "\n", "\r", "\r\n", "\t", "\n\n",
    "a\nb", "a\n b", " \n ", "a\tb", "\u{0}", "\u{1}", "\u{7}", "\u{8}", "\u{b}", "\u{c}", "\u{1b}", "\u{1f}",
    "\u{7f}", "\u{80}", "\u{85}", "\u{9f}", "\u{a0}", "\u{2028}", "\u{2029}", "\u{feff}", "\u{fffe}",
    "\u{ffff}", "\u{fffd}", "\u{e000}", "\u{d7ff}", "\u{10000}", "\u{10ffff}", "\u{1f600}", "é", "日本語",
    "a\u{85}b", "a\u{2028}b", "\u{feff}a", "a\u{feff}", "<<", "=", "key", "value", "x y z", "   a   b   ",
    "a  ", "  a", "\\ ", "\\\n", "\\N", "\\_", "\\L", "\\P", "\\x41", "\\U00000041", "\\e", "\\0", "\\a", "\\v",
];

const HOSTILE_CHARS: &[char] = &[
    ' ', ' ', ' ', 'a', 'b', 'z', '0', '1', '-', '.', ':', ',', '[', ']', '{', '}', '#', '&', '*', '!', '|', '>',
    '\'', '"', '%', '@', '`', '?', '\\', '/', '~', '<', '=', '\n', '\r', '\t', '\u{0}', '\u{1}', '\u{8}',
    '\u{c}', '\u{1b}', '\u{1f}', '\u{7f}', '\u{80}', '\u{85}', '\u{a0}', '\u{2028}', '\u{2029}', '\u{feff}',
    '\u{fffe}', '\u{ffff}', '\u{10ffff}', '\u{1f600}', 'é', '日', 'n', 'u', 't', 'x', 'N', '_', 'L', 'P', 'U',
];

pub fn gen_string(r: &mut Rng) -> String {
    match r.below(10) {
        0..=2 => (*r.pick(HOSTILE)).to_string(),
        3..=5 => {
            let n = r.below(12);
            (0..n).map(|_| *r.pick(HOSTILE_CHARS)).collect()
        }
        6 => {
            // concatenation of hostile pieces
            let n = 1 + r.below(3);
            (0..n).map(|_| *r.pick(HOSTILE)).collect::<Vec<_>>().join("")
        }
        7 => {
            let n = r.below(6);
            (0..n).map(|_| (b'a' + r.below(26) as u8) as char).collect()
        }
        8 => {
            // boundary lengths
            let lens = [14, 15, 16, 17, 30, 31, 32, 33, 126, 127, 128, 129, 130, 255, 256, 1022, 1023, 1024, 1025, 1026, 2050];
            let n = *r.pick(&lens);
            if r.chance(1, 2) {
                "k".repeat(n)
            } else {
                (0..n).map(|_| *r.pick(HOSTILE_CHARS)).collect()
            }
        }
        _ => {
            // random unicode scalar
            let n = r.below(5);
            (0..n)
                .map(|_| loop {
                    let c = r.below(0x110000) as u32;
                    if let Some(c) = char::from_u32(c) {
                        break c;
                    }
                })
                .collect()
        }
    }
}

const NUMS: &[&str] = &[
    "0", "-0", "1", "-1", "10", "123", "-123", "9223372036854775807", "-9223372036854775808",
    "9223372036854775808", "-9223372036854775809", "18446744073709551615", "18446744073709551616",
    "123456789012345678901234567890", "0.0", "-0.0", "0.5", "1.0", "1.5", "-1.5", "3.141592653589793",
    "1e0", "1E0", "1e5", "1E5", "1e+5", "1E+5", "1e-5", "1E-5", "0e0", "0E0", "0e+0", "0e-0", "-0e0", "-0E-0",
    "1.5e10", "1.5E+10", "1.5e-10", "2.2250738585072014e-308", "1.7976931348623157e308", "5e-324", "4.9e-324",
    "1e308", "1e-308", "1e-400", "0.1", "0.2", "0.30000000000000004", "100", "1000000", "1e1", "1e01", "1e001",
    "1e+01", "1E-01", "0.000001", "1234567.890123", "-1e5", "-1E+5", "9007199254740993", "0.1e1", "12e3", "10e10",
    "1.0e0", "1.00", "0.00", "-0.00", "0e5", "0.0e5", "1e22", "1e23", "8.5e-1",
];

pub fn gen_num(r: &mut Rng) -> String {
    if r.chance(2, 3) {
        return (*r.pick(NUMS)).to_string();
    }
    let mut s = String::new();
    if r.chance(1, 3) {
        s.push('-');
    }
    if r.chance(1, 5) {
        s.push('0');
    } else {
        s.push((b'1' + r.below(9) as u8) as char);
        for _ in 0..r.below(20) {
            s.push((b'0' + r.below(10) as u8) as char);
        }
    }
    if r.chance(1, 3) {
        s.push('.');
        for _ in 0..1 + r.below(8) {
            s.push((b'0' + r.below(10) as u8) as char);
        }
    }
    if r.chance(1, 3) {
        s.push(*r.pick(&['e', 'E']));
        match r.below(3) {
            0 => s.push('+'),
            1 => s.push('-'),
            _ => {}
        }
        for _ in 0..1 + r.below(3) {
            s.push((b'0' + r.below(10) as u8) as char);
        }
    }
    s
}

pub fn gen_value(r: &mut Rng, depth: usize) -> J {
    let leaf_only = depth == 0;
    let k = if leaf_only { r.below(6) } else { r.below(10) };
    match k {
        0 => J::Null,
        1 => J::Bool(r.chance(1, 2)),
        2 => J::Num(gen_num(r)),
        3..=5 => J::Str(gen_string(r)),
        6 | 7 => {
            let n = if r.chance(1, 4) { 0 } else { r.below(5) };
            J::Arr((0..n).map(|_| gen_value(r, depth - 1)).collect())
        }
        _ => {
            let n = if r.chance(1, 4) { 0 } else { r.below(5) };
            let mut kv: Vec<(String, J)> = Vec::new();
            for _ in 0..n {
                let k = gen_string(r);
                if kv.iter().any(|(k2, _)| *k2 == k) {
                    continue;
                }
                kv.push((k, gen_value(r, depth - 1)));
            }
            J::Obj(kv)
        }
    }
}

// ---------- serialisation ----------

#[derive(Clone, Copy, PartialEq, Debug)]
pub enum Ws {
    Compact,
    Pretty(usize),
    PrettyTab,
    Random,
    RandomHeavy,
    SpaceAfterColon,
}

const WS_CHOICES: &[&str] = &[
    "", "", "", " ", " ", "\t", "\n", "\r", "\r\n", "  ", " \t", "\t ", "\t\t", " \n", "\n ", "\n\t", "\t\n", "\n\n",
    " \r\n ", "\r\r", "\n\r", "\r\n\t", " \t\n\t ", "\n  ", "\n    ", "\r  ", "\t\r\t",
];

fn ws(r: &mut Rng, mode: Ws, out: &mut String) {
    match mode {
        Ws::Random => out.push_str(*r.pick(WS_CHOICES)),
        Ws::RandomHeavy => {
            if r.chance(1, 40) {
                let n = *r.pick(&[15usize, 16, 17, 127, 128, 129, 1023, 1024, 1025]);
                let c = *r.pick(&[" ", "\t", "\n", "\r", "\r\n"]);
                for _ in 0..n {
                    out.push_str(c);
                }
            } else {
                for _ in 0..r.below(4) {
                    out.push_str(*r.pick(WS_CHOICES));
                }
            }
        }
        _ => {}
    }
}

fn newline_indent(mode: Ws, level: usize, nl: &str, out: &mut String) {
    match mode {
        Ws::Pretty(n) => {
            out.push_str(nl);
            for _ in 0..n * level {
                out.push(' ');
            }
        }
        Ws::PrettyTab => {
            out.push_str(nl);
            for _ in 0..level {
                out.push('\t');
            }
        }
        _ => {}
    }
}

pub fn ser_string(r: &mut Rng, s: &str, out: &mut String) {
    // escape policy for this string: 0 = minimal, 1 = random, 2 = escape all BMP
    let policy = r.below(4);
    out.push('"');
    for c in s.chars() {
        let cp = c as u32;
        let must = cp < 0x20 || c == '"' || c == '\\';
        let short = match c {
            '"' => Some("\\\""),
            '\\' => Some("\\\\"),
            '/' => Some("\\/"),
            '\u{8}' => Some("\\b"),
            '\u{c}' => Some("\\f"),
            '\n' => Some("\\n"),
            '\r' => Some("\\r"),
            '\t' => Some("\\t"),
            _ => None,
        };
        let esc = must
            || match policy {
                0 => false,
                1 | 3 => r.chance(1, 3),
                _ => true,
            };
        if !esc || (cp > 0xFFFF) {
            out.push(c);
            continue;
        }
        if let Some(sh) = short {
            if policy != 2 || must && r.chance(1, 2) || r.chance(1, 2) {
                out.push_str(sh);
                continue;
            }
        }
        // \uXXXX with random hex case
        let hex = if r.chance(1, 2) { format!("{cp:04x}") } else { format!("{cp:04X}") };
        out.push_str("\\u");
        out.push_str(&hex);
    }
    out.push('"');
}

pub fn ser(r: &mut Rng, j: &J, mode: Ws, level: usize, nl: &str, out: &mut String) {
    match j {
        J::Null => out.push_str("null"),
        J::Bool(true) => out.push_str("true"),
        J::Bool(false) => out.push_str("false"),
        J::Num(n) => out.push_str(n),
        J::Str(s) => ser_string(r, s, out),
        J::Arr(v) => {
            out.push('[');
            ws(r, mode, out);
            for (i, x) in v.iter().enumerate() {
                if i > 0 {
                    out.push(',');
                    ws(r, mode, out);
                }
                newline_indent(mode, level + 1, nl, out);
                ser(r, x, mode, level + 1, nl, out);
                ws(r, mode, out);
            }
            if !v.is_empty() {
                newline_indent(mode, level, nl, out);
            }
            out.push(']');
        }
        J::Obj(v) => {
            out.push('{');
            ws(r, mode, out);
            for (i, (k, x)) in v.iter().enumerate() {
                if i > 0 {
                    out.push(',');
                    ws(r, mode, out);
                }
                newline_indent(mode, level + 1, nl, out);
                ser_string(r, k, out);
                ws(r, mode, out);
                out.push(':');
                if matches!(mode, Ws::Pretty(_) | Ws::PrettyTab | Ws::SpaceAfterColon) {
                    out.push(' ');
                }
                ws(r, mode, out);
                ser(r, x, mode, level + 1, nl, out);
                ws(r, mode, out);
            }
            if !v.is_empty() {
                newline_indent(mode, level, nl, out);
            }
            out.push('}');
        }
    }
}

pub fn serialise(r: &mut Rng, j: &J, mode: Ws) -> String {
    let mut out = String::new();
    let nl = *r.pick(&["\n", "\n", "\r\n", "\r"]);
    ws(r, mode, &mut out);
    ser(r, j, mode, 0, nl, &mut out);
    ws(r, mode, &mut out);
    if matches!(mode, Ws::Pretty(_) | Ws::PrettyTab) && r.chance(1, 2) {
        out.push_str(nl);
    }
    out
}

// ---------- oracle ----------

pub fn expected_num(n: &str) -> Scalar<'static> {
    let is_int = n.strip_prefix('-').unwrap_or(n).bytes().all(|b| b.is_ascii_digit());
    if is_int {
        if let Ok(i) = n.parse::<i64>() {
            return Scalar::Integer(i);
        }
    }
    let f: f64 = n.parse().expect("rust parses every JSON number");
    Scalar::FloatingPoint(f.into())
}

pub fn check(j: &J, y: &Yaml, path: &str) -> Result<(), String> {
    match (j, y) {
        (J::Null, Yaml::Value(Scalar::Null)) => Ok(()),
        (J::Bool(b), Yaml::Value(Scalar::Boolean(c))) if b == c => Ok(()),
        (J::Num(n), Yaml::Value(s)) => {
            let e = expected_num(n);
            let same = match (&e, s) {
                (Scalar::Integer(a), Scalar::Integer(b)) => a == b,
                (Scalar::FloatingPoint(a), Scalar::FloatingPoint(b)) => {
                    a.0.to_bits() == b.0.to_bits() || (a.0 == 0.0 && b.0 == 0.0)
                }
                // integer-valued either way is the same value
                (Scalar::Integer(a), Scalar::FloatingPoint(b)) => (*a as f64) == b.0,
                (Scalar::FloatingPoint(a), Scalar::Integer(b)) => a.0 == (*b as f64),
                _ => false,
            };
            if same {
                Ok(())
            } else {
                Err(format!("{path}: number {n}: expected {e:?}, got {s:?}"))
            }
        }
        (J::Str(a), Yaml::Value(Scalar::String(b))) => {
            if a.as_str() == b.as_ref() {
                Ok(())
            } else {
                Err(format!("{path}: string: expected {a:?}, got {b:?}"))
            }
        }
        (J::Arr(v), Yaml::Sequence(w)) => {
            if v.len() != w.len() {
                return Err(format!("{path}: array len {} vs {}", v.len(), w.len()));
            }
            for (i, (a, b)) in v.iter().zip(w.iter()).enumerate() {
                check(a, b, &format!("{path}[{i}]"))?;
            }
            Ok(())
        }
        (J::Obj(v), Yaml::Mapping(m)) => {
            if v.len() != m.len() {
                return Err(format!("{path}: object len {} vs {}", v.len(), m.len()));
            }
            for (i, ((k, a), (yk, b))) in v.iter().zip(m.iter()).enumerate() {
                match yk {
                    Yaml::Value(Scalar::String(s)) if s.as_ref() == k.as_str() => {}
                    _ => return Err(format!("{path}: key #{i}: expected {k:?}, got {yk:?}")),
                }
                check(a, b, &format!("{path}.{k:?}"))?;
            }
            Ok(())
        }
        _ => Err(format!("{path}: expected {j:?}, got {y:?}")),
    }
}

pub fn check_text(j: &J, text: &str) -> Result<(), String> {
    // Path 1: load_from_str (BufferedInput over chars)
    let docs = Yaml::load_from_str(text).map_err(|e| format!("load_from_str error: {e}"))?;
    if docs.len() != 1 {
        return Err(format!("load_from_str: {} documents", docs.len()));
    }
    check(j, &docs[0], "$")?;
    // Path 2: StrInput
    let mut p = Parser::new_from_str(text);
    let docs2 = Yaml::load_from_parser(&mut p).map_err(|e| format!("new_from_str error: {e}"))?;
    if docs2.len() != 1 {
        return Err(format!("new_from_str: {} documents", docs2.len()));
    }
    check(j, &docs2[0], "$")?;
    if docs != docs2 {
        return Err("the two input paths differ".into());
    }
    Ok(())
}

fn run(seed0: u64, cases: usize, modes: &[Ws], max_depth: usize) -> (usize, Vec<String>) {
    let mut failures = Vec::new();
    let mut ran = 0usize;
    for i in 0..cases {
        let mut r = Rng::new(seed0 + i as u64);
        let depth = r.below(max_depth + 1);
        let j = gen_value(&mut r, depth);
        let mode = *r.pick(modes);
        let text = serialise(&mut r, &j, mode);
        if text.contains('\0') {
            continue;
        }
        ran += 1;
        if let Err(e) = check_text(&j, &text) {
            if failures.len() < 40 {
                failures.push(format!("seed {} mode {:?}\n  text: {:?}\n  err: {}", seed0 + i as u64, mode, text, e));
            } else {
                failures.push(String::new());
            }
        }
    }
    (ran, failures)
}

fn cases() -> usize {
    std::env::var("C13_CASES").ok().and_then(|s| s.parse().ok()).unwrap_or(20000)
}

#[test]
fn fuzz_random_ws() {
    let (ran, f) = run(1_000_000, cases(), &[Ws::Random, Ws::RandomHeavy], 5);
    eprintln!("random ws: ran {ran}, failures {}", f.len());
    for x in f.iter().filter(|s| !s.is_empty()).take(40) {
        eprintln!("{x}");
    }
    assert!(f.is_empty());
}

#[test]
fn fuzz_pretty_compact() {
    let (ran, f) = run(
        5_000_000,
        cases(),
        &[Ws::Compact, Ws::Pretty(0), Ws::Pretty(1), Ws::Pretty(2), Ws::Pretty(4), Ws::PrettyTab, Ws::SpaceAfterColon],
        5,
    );
    eprintln!("pretty/compact: ran {ran}, failures {}", f.len());
    for x in f.iter().filter(|s| !s.is_empty()).take(40) {
        eprintln!("{x}");
    }
    assert!(f.is_empty());
}

#[test]
fn show_samples() {
    for i in 0..12 {
        let mut r = Rng::new(77 + i);
        let j = gen_value(&mut r, 3);
        let mode = *r.pick(&[Ws::Random, Ws::RandomHeavy, Ws::Pretty(2), Ws::PrettyTab]);
        let text = serialise(&mut r, &j, mode);
        if text.len() < 300 {
            eprintln!("{mode:?}: {text:?}");
        }
    }
    // the oracle does reject wrong data
    assert!(check_text(&J::Arr(vec![J::Num("1".into())]), "[2]").is_err());
    assert!(check_text(&J::Str("a".into()), "\"a \"").is_err());
    assert!(check_text(&J::Obj(vec![("a".into(), J::Null), ("b".into(), J::Null)]), "{\"b\":null,\"a\":null}").is_err());
}

// ---------- targeted probes ----------

fn nest(open: &str, close: &str, depth: usize, inner: &str) -> String {
    let mut s = String::new();
    for _ in 0..depth {
        s.push_str(open);
    }
    s.push_str(inner);
    for _ in 0..depth {
        s.push_str(close);
    }
    s
}

fn nest_j(kind: u8, depth: usize, inner: J) -> J {
    let mut j = inner;
    for i in 0..depth {
        let k = if kind == 2 { (i % 2) as u8 } else { kind };
        j = if k == 0 { J::Arr(vec![j]) } else { J::Obj(vec![("k".into(), j)]) };
    }
    j
}

#[test]
fn depth_probe() {
    for depth in [1usize, 2, 10, 100, 200, 253, 254, 255, 256, 257, 300] {
        let a = nest("[", "]", depth, "1");
        let ra = check_text(&nest_j(0, depth, J::Num("1".into())), &a);
        let o = nest("{\"k\":", "}", depth, "1");
        let ro = check_text(&nest_j(1, depth, J::Num("1".into())), &o);
        // mixed, innermost first is i=0 => array
        let mut m = String::from("1");
        for i in 0..depth {
            m = if i % 2 == 0 { format!("[{m}]") } else { format!("{{\"k\":{m}}}") };
        }
        let rm = check_text(&nest_j(2, depth, J::Num("1".into())), &m);
        // pretty printed mixed
        let mut r = Rng::new(depth as u64);
        let pj = nest_j(2, depth, J::Arr(vec![]));
        let pt = serialise(&mut r, &pj, Ws::Pretty(1));
        let rp = check_text(&pj, &pt);
        let pt2 = serialise(&mut r, &pj, Ws::RandomHeavy);
        let rp2 = check_text(&pj, &pt2);
        eprintln!("depth {depth}: arr {:?} obj {:?} mixed {:?} pretty {:?} rnd {:?}", ra.is_ok(), ro.is_ok(), rm.is_ok(), rp.is_ok(), rp2.is_ok());
        for r in [&ra, &ro, &rm, &rp, &rp2] {
            if let Err(e) = r {
                eprintln!("   {}", &e[..e.len().min(200)]);
            }
        }
        // flow-depth limit of the scanner is 255 (u8 counter): everything nested less deeply loads.
        if depth <= 254 {
            assert!(ra.is_ok() && ro.is_ok() && rm.is_ok() && rp.is_ok() && rp2.is_ok());
        }
        if depth == 255 {
            assert!(ra.is_ok() && ro.is_ok() && rm.is_ok());
        }
    }
}

#[test]
fn long_numbers_probe() {
    let mut bad = 0;
    let mut ran = 0;
    for len in 1..420usize {
        for form in 0..6 {
            let digits: String = (0..len).map(|i| (b'1' + (i % 9) as u8) as char).collect();
            let n = match form {
                0 => digits.clone(),
                1 => format!("-{digits}"),
                2 => format!("0.{digits}"),
                3 => format!("{digits}.5"),
                4 => format!("{digits}e-{}", len),
                _ => format!("1.{digits}E+2"),
            };
            for (pre, post) in [("[", "]"), ("[", ",1]"), ("{\"a\":", "}"), ("", ""), ("", "\n"), ("[ ", " ]"), ("[\n", "\n]"), ("{\"a\":\t", "\t}"), ("[0,", "]")] {
                let text = format!("{pre}{n}{post}");
                let num = J::Num(n.clone());
                let j = match pre.trim() {
                    "[" if post.contains(",1") => J::Arr(vec![num, J::Num("1".into())]),
                    "[" => J::Arr(vec![num]),
                    "[0," => J::Arr(vec![J::Num("0".into()), num]),
                    "" => num,
                    _ => J::Obj(vec![("a".into(), num)]),
                };
                ran += 1;
                if let Err(e) = check_text(&j, &text) {
                    bad += 1;
                    if bad < 10 {
                        eprintln!("{text:?}: {e}");
                    }
                }
            }
        }
    }
    eprintln!("long numbers: ran {ran}, bad {bad}");
    assert_eq!(bad, 0);
}

#[test]
fn wide_probe() {
    // wide array / object, compact and one-per-line
    for n in [1000usize, 100_000] {
        let items: Vec<J> = (0..n).map(|i| J::Num(i.to_string())).collect();
        let j = J::Arr(items);
        let mut r = Rng::new(3);
        for mode in [Ws::Compact, Ws::Pretty(0), Ws::Pretty(2), Ws::PrettyTab] {
            let t = serialise(&mut r, &j, mode);
            check_text(&j, &t).unwrap_or_else(|e| panic!("wide arr {n} {mode:?}: {}", &e[..e.len().min(300)]));
        }
        let kv: Vec<(String, J)> = (0..n).map(|i| (format!("k{i}"), J::Str(format!("v{i}")))).collect();
        let j = J::Obj(kv);
        for mode in [Ws::Compact, Ws::Pretty(0), Ws::Pretty(2), Ws::PrettyTab] {
            let t = serialise(&mut r, &j, mode);
            check_text(&j, &t).unwrap_or_else(|e| panic!("wide obj {n} {mode:?}: {}", &e[..e.len().min(300)]));
        }
    }
    // long whitespace runs around every token
    for wsch in [" ", "\t", "\n", "\r", "\r\n"] {
        for n in [15usize, 16, 17, 127, 128, 129, 1023, 1024, 1025, 5000] {
            let w = wsch.repeat(n);
            let t = format!("{w}{{{w}\"a\"{w}:{w}[{w}1{w},{w}\"b\"{w},{w}null{w}]{w},{w}\"c\"{w}:{w}{{{w}}}{w}}}{w}");
            let j = J::Obj(vec![
                ("a".into(), J::Arr(vec![J::Num("1".into()), J::Str("b".into()), J::Null])),
                ("c".into(), J::Obj(vec![])),
            ]);
            check_text(&j, &t).unwrap_or_else(|e| panic!("ws {wsch:?} x {n}: {}", &e[..e.len().min(300)]));
        }
    }
}

#[test]
fn duplicate_keys_probe() {
    for t in ["{\"a\":1,\"a\":2}", "{\"a\":1,\"b\":3,\"a\":2}", "{\"a\":{\"x\":1},\"a\":[1]}"] {
        eprintln!("{t} -> {:?}", Yaml::load_from_str(t));
    }
}

// ---------- alternative entry points ----------
use saphyr::{MarkedYaml, MarkedYamlOwned, YamlData, YamlDataOwned, YamlDecoder, YamlLoader, YamlOwned};

fn marked_to_yaml<'a>(m: &MarkedYaml<'a>) -> Yaml<'a> {
    match &m.data {
        YamlData::Representation(a, b, c) => Yaml::Representation(a.clone(), *b, c.clone()),
        YamlData::Value(s) => Yaml::Value(s.clone()),
        YamlData::Sequence(v) => Yaml::Sequence(v.iter().map(marked_to_yaml).collect()),
        YamlData::Mapping(m) => Yaml::Mapping(m.iter().map(|(k, v)| (marked_to_yaml(k), marked_to_yaml(v))).collect()),
        YamlData::Alias(a) => Yaml::Alias(*a),
        YamlData::BadValue => Yaml::BadValue,
    }
}

fn alt_paths(text: &str) -> Result<(), String> {
    let base = Yaml::load_from_str(text).map_err(|e| e.to_string())?;
    let dbg = format!("{base:?}");
    // owned
    let owned = YamlOwned::load_from_str(text).map_err(|e| format!("owned: {e}"))?;
    if format!("{owned:?}") != dbg {
        return Err("YamlOwned differs".into());
    }
    // iterator
    let it = Yaml::load_from_iter(text.chars()).map_err(|e| format!("iter: {e}"))?;
    if it != base {
        return Err("load_from_iter differs".into());
    }
    // marked
    let marked = MarkedYaml::load_from_str(text).map_err(|e| format!("marked: {e}"))?;
    let conv: Vec<Yaml> = marked.iter().map(marked_to_yaml).collect();
    if conv != base {
        return Err("MarkedYaml differs".into());
    }
    let mo = MarkedYamlOwned::load_from_str(text).map_err(|e| format!("marked owned: {e}"))?;
    if mo.len() != 1 {
        return Err("MarkedYamlOwned doc count".into());
    }
    let _ = &mo[0].data as &YamlDataOwned<MarkedYamlOwned>;
    // lazy
    let mut p = Parser::new_from_str(text);
    let mut loader: YamlLoader<Yaml> = YamlLoader::default();
    loader.early_parse(false);
    p.load(&mut loader, true).map_err(|e| format!("lazy: {e}"))?;
    let mut lazy = loader.into_documents();
    for d in &mut lazy {
        if !d.parse_representation_recursive() {
            return Err("lazy: parse_representation_recursive false".into());
        }
    }
    if lazy != base {
        return Err(format!("lazy differs: {lazy:?} vs {base:?}"));
    }
    // decoder
    let mut binding = YamlDecoder::read(text.as_bytes());
    let dec = binding.decode().map_err(|e| format!("decoder: {e}"))?;
    if dec != base {
        return Err("decoder differs".into());
    }
    Ok(())
}

#[test]
fn fuzz_alt_paths() {
    let n = cases();
    let mut bad = 0;
    let mut ran = 0;
    for i in 0..n {
        let mut r = Rng::new(9_000_000 + i as u64);
        let depth = r.below(5);
        let j = gen_value(&mut r, depth);
        let mode = *r.pick(&[Ws::Random, Ws::RandomHeavy, Ws::Compact, Ws::Pretty(2), Ws::PrettyTab, Ws::Pretty(0)]);
        let text = serialise(&mut r, &j, mode);
        if text.contains('\0') {
            continue;
        }
        ran += 1;
        if let Err(e) = check_text(&j, &text).and_then(|()| alt_paths(&text)) {
            bad += 1;
            if bad < 20 {
                eprintln!("seed {}: {text:?}\n   {e}", 9_000_000 + i);
            }
        }
    }
    eprintln!("alt paths: ran {ran}, bad {bad}");
    assert_eq!(bad, 0);
}

// ---------- mini JSON parser (oracle for hand-written texts) ----------
struct JP<'a> {
    s: &'a [u8],
    i: usize,
}
impl JP<'_> {
    fn ws(&mut self) {
        while self.i < self.s.len() && matches!(self.s[self.i], b' ' | b'\t' | b'\n' | b'\r') {
            self.i += 1;
        }
    }
    fn string(&mut self) -> String {
        assert_eq!(self.s[self.i], b'"');
        self.i += 1;
        let mut out: Vec<u8> = vec![];
        loop {
            let b = self.s[self.i];
            self.i += 1;
            match b {
                b'"' => break,
                b'\\' => {
                    let e = self.s[self.i];
                    self.i += 1;
                    let c = match e {
                        b'"' => '"',
                        b'\\' => '\\',
                        b'/' => '/',
                        b'b' => '\u{8}',
                        b'f' => '\u{c}',
                        b'n' => '\n',
                        b'r' => '\r',
                        b't' => '\t',
                        b'u' => {
                            let h = std::str::from_utf8(&self.s[self.i..self.i + 4]).unwrap();
                            self.i += 4;
                            char::from_u32(u32::from_str_radix(h, 16).unwrap()).unwrap()
                        }
                        _ => panic!("bad escape"),
                    };
                    let mut buf = [0u8; 4];
                    out.extend_from_slice(c.encode_utf8(&mut buf).as_bytes());
                }
                b => out.push(b),
            }
        }
        String::from_utf8(out).unwrap()
    }
    fn value(&mut self) -> J {
        self.ws();
        let v = match self.s[self.i] {
            b'"' => J::Str(self.string()),
            b'[' => {
                self.i += 1;
                let mut v = vec![];
                self.ws();
                if self.s[self.i] == b']' {
                    self.i += 1;
                } else {
                    loop {
                        v.push(self.value());
                        self.ws();
                        let c = self.s[self.i];
                        self.i += 1;
                        if c == b']' {
                            break;
                        }
                        assert_eq!(c, b',');
                    }
                }
                J::Arr(v)
            }
            b'{' => {
                self.i += 1;
                let mut v = vec![];
                self.ws();
                if self.s[self.i] == b'}' {
                    self.i += 1;
                } else {
                    loop {
                        self.ws();
                        let k = self.string();
                        self.ws();
                        assert_eq!(self.s[self.i], b':');
                        self.i += 1;
                        let x = self.value();
                        v.push((k, x));
                        self.ws();
                        let c = self.s[self.i];
                        self.i += 1;
                        if c == b'}' {
                            break;
                        }
                        assert_eq!(c, b',');
                    }
                }
                J::Obj(v)
            }
            _ => {
                let st = self.i;
                while self.i < self.s.len() && !matches!(self.s[self.i], b' ' | b'\t' | b'\n' | b'\r' | b',' | b']' | b'}') {
                    self.i += 1;
                }
                match std::str::from_utf8(&self.s[st..self.i]).unwrap() {
                    "null" => J::Null,
                    "true" => J::Bool(true),
                    "false" => J::Bool(false),
                    n => J::Num(n.to_string()),
                }
            }
        };
        self.ws();
        v
    }
}
fn parse_json(s: &str) -> J {
    let mut p = JP { s: s.as_bytes(), i: 0 };
    let v = p.value();
    assert_eq!(p.i, s.len());
    v
}

// Takes ~15 minutes in release mode (170 million texts): run with `--ignored`.
#[test]
#[ignore]
fn exhaustive_small_ws() {
    let templates: &[&str] = &[
        "1", "-1.5e3", "null", "\"a\"", "\"\"", "[ ]", "{ }", "[ 1 ]", "[ \"a\" ]", "[ -1 , true ]", "[ \"a\" , \"b\" ]",
        "{ \"a\" : 1 }", "{ \"a\" : \"b\" }", "{ \"a\" : [ ] }", "{ \"a\" : { } }", "{ \"\" : null }", "{ \"a\" : -1 }",
        "{ \"a\" : 1 , \"b\" : 2 }", "[ { \"a\" : 1 } ]", "[ [ ] , { } ]", "{ \"a\" : [ 1 ] }", "{ \"a\" : { \"b\" : 1 } }",
        "[ { \"a\" : [ \"b\" ] } , 1 ]", "[ \"a\" , { \"b\" : \"c\" } ]", "[ [ \"a\" ] , \"b\" ]", "{ \"a\" : \"b\" , \"c\" : \"d\" }",
        "[ { } , \"a\" ]", "{ \"a\" : [ ] , \"b\" : { } }", "[ null , [ null ] ]", "{ \"a_b\" : \"c:_d\" }", "[ \"-_a\" , \"_#\" ]",
        "{ \"---\" : \"...\" }", "[ 1 , 2 , 3 ]", "[ [ [ ] ] ]", "{ \"a\" : { \"b\" : { } } }",
    ];
    let mut total = 0usize;
    let mut bad = 0usize;
    for t in templates {
        if let Ok(f) = std::env::var("C13_TEMPLATE_FILTER") {
            if !t.contains(&f) {
                continue;
            }
        }
        let t = &t.replace('_', "\u{1}");
        let toks: Vec<String> = t.split(' ').map(|x| x.replace('\u{1}', " ")).collect();
        let t = &t.replace('\u{1}', " ");
        let gaps = toks.len() + 1;
        let alpha: &[&str] = if gaps <= 8 {
            &["", " ", "\t", "\n", "\r", "\r\n", " \t ", "\n\t"]
        } else if gaps <= 10 {
            &["", " ", "\t", "\n", "\r"]
        } else if gaps <= 13 {
            &["", "\t", "\n"]
        } else {
            &["", "\n"]
        };
        let j = parse_json(t);
        let n = alpha.len();
        let count = n.pow(gaps as u32);
        for mut code in 0..count {
            let mut text = String::new();
            for g in 0..gaps {
                text.push_str(alpha[code % n]);
                code /= n;
                if g < toks.len() {
                    text.push_str(&toks[g]);
                }
            }
            total += 1;
            if let Err(e) = check_text(&j, &text) {
                bad += 1;
                if bad < 30 {
                    eprintln!("{text:?}: {e}");
                }
            }
        }
    }
    eprintln!("exhaustive small ws: ran {total}, bad {bad}");
    assert_eq!(bad, 0);
}

#[test]
fn fuzz_deeper_and_big() {
    let (ran, f) = run(77_000_000, cases(), &[Ws::Random, Ws::RandomHeavy, Ws::Compact, Ws::Pretty(0), Ws::Pretty(3), Ws::PrettyTab], 9);
    eprintln!("deeper: ran {ran}, failures {}", f.len());
    for x in f.iter().filter(|s| !s.is_empty()).take(10) {
        eprintln!("{}", &x[..x.len().min(600)]);
    }
    assert!(f.is_empty());
    // long keys inside nested sequences / mappings, one line and multi line
    for n in [1023usize, 1024, 1025, 2000, 100_000] {
        let k = "k".repeat(n);
        for t in [
            format!("[{{\"{k}\":1}}]"),
            format!("[{{\"{k}\"\n:\n1}}]"),
            format!("{{\"a\":[{{\"{k}\":[{{\"{k}\":1}}]}}]}}"),
            format!("{{\n\"a\":\n[\n{{\n\"{k}\"\n:\n[\n{{\n\"{k}\"\n:\n1\n}}\n]\n}}\n]\n}}"),
            format!("[\"{k}\",{{\"{k}\":\"{k}\"}}]"),
            format!("\"{k}\""),
            format!("\"{k}\"\n"),
        ] {
            let j = parse_json(&t);
            check_text(&j, &t).unwrap_or_else(|e| panic!("long key {n}: {}", &e[..e.len().min(200)]));
        }
    }
    // multi-megabyte string with every kind of escape
    let mut r = Rng::new(5);
    let big: String = (0..1_000_000).map(|_| *r.pick(HOSTILE_CHARS)).collect();
    let j = J::Obj(vec![(big.clone(), J::Str(big))]);
    let t = serialise(&mut r, &j, Ws::Random);
    assert!(!t.contains('\0'));
    check_text(&j, &t).unwrap_or_else(|e| panic!("big: {}", &e[..e.len().min(200)]));
}
