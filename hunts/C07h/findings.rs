//! C07 findings: each test asserts what the property requires and FAILS on the unmodified code.
//!
//! Property clause used by F1/F2/F3: "each scalar becomes the value chosen by its text, style and
//! tag" (the choice being the YAML 1.2.2 core schema, 10.3.2, which the library follows for
//! everything else). Clause used by F4: "each alias is replaced by a copy of the completed node that
//! carried the anchor (BadValue for a reference to a node that is still open ...)".

use saphyr::{LoadableYamlNode, Scalar, Yaml, YamlLoader};
use saphyr_parser::Parser;

fn null() -> Yaml<'static> {
    Yaml::Value(Scalar::Null)
}
fn int(i: i64) -> Yaml<'static> {
    Yaml::Value(Scalar::Integer(i))
}
fn boolean(b: bool) -> Yaml<'static> {
    Yaml::Value(Scalar::Boolean(b))
}
fn one(s: &str) -> Yaml<'_> {
    let mut d = Yaml::load_from_str(s).unwrap();
    assert_eq!(d.len(), 1, "{s:?}");
    d.remove(0)
}

/// F1: an empty plain scalar is null (`a:` loads as null), and an anchor is neither text, style
/// nor tag: `a: &x` must load exactly like `a:`. The library yields the *string* "" for the
/// anchored node and for every alias of it. (yaml-test-suite 6KGN: json is {"a": null, "b": null}.)
#[test]
fn f1_anchored_empty_node_is_null() {
    // reference: without the anchor
    assert_eq!(one("a:\n")["a"], null());
    assert_eq!(one("-\n")[0], null());

    let d = one("a: &x\nb: *x\n");
    assert_eq!(d["a"], null(), "value of `a: &x`");
    assert_eq!(d["b"], null(), "alias of the empty anchored node");

    assert_eq!(one("&x"), null(), "document `&x`");
    assert_eq!(one("--- &x\n...\n"), null());
    assert_eq!(one("- &x\n- b\n")[0], null(), "sequence entry `- &x`");
    assert_eq!(one("[&x , b]")[0], null(), "flow entry `&x`");
    // as a key: `? &k` is the null key, the same key as `?` / `~`
    let d = one("? &k\n: v\n");
    let (k, _) = d.as_mapping().unwrap().iter().next().unwrap();
    assert_eq!(*k, null(), "key `? &k`");
}

/// F1b: same root cause seen through the tag: `!!null` on an empty node is the null value
/// (10.3.2: the empty string matches the null regular expression), not BadValue.
#[test]
fn f1b_null_tag_on_empty_node_is_null() {
    assert_eq!(one("!!null"), null());
    assert_eq!(one("- !!null\n- b\n")[0], null());
    assert_eq!(one("a: !!null\n")["a"], null());
}

/// F2: core schema spellings. 10.3.2: null is `null | Null | NULL | ~`, bool is
/// `true | True | TRUE | false | False | FALSE`. The library resolves `NULL` but not `Null`, and
/// neither `True`/`TRUE` nor `False`/`FALSE`.
#[test]
fn f2_core_schema_bool_and_null_spellings() {
    assert_eq!(one("NULL"), null()); // this one works
    assert_eq!(one("Null"), null());
    assert_eq!(one("True"), boolean(true));
    assert_eq!(one("TRUE"), boolean(true));
    assert_eq!(one("False"), boolean(false));
    assert_eq!(one("FALSE"), boolean(false));
    assert_eq!(one("[True, Null]"), Yaml::Sequence(vec![boolean(true), null()]));
}

/// F3: an explicit core tag on a plain scalar whose text is a valid value of that tag must give
/// that value; the library gives BadValue although it resolves the very same text correctly when
/// the tag is absent (`0x1F` -> 31, `0o17` -> 15, `NULL` -> null).
#[test]
fn f3_explicit_core_tag_on_valid_text() {
    assert_eq!(one("0x1F"), int(31)); // untagged: works
    assert_eq!(one("!!int 0x1F"), int(31));
    assert_eq!(one("0o17"), int(15)); // untagged: works
    assert_eq!(one("!!int 0o17"), int(15));
    assert_eq!(one("NULL"), null()); // untagged: works
    assert_eq!(one("!!null NULL"), null());
    assert_eq!(one("!!null Null"), null());
    assert_eq!(one("!!bool True"), boolean(true));
    assert_eq!(one("!!bool FALSE"), boolean(false));
}

/// F4 (call sequence): one `YamlLoader` fed by two parsers one after the other. Anchor ids restart
/// at 1 in every parser and the loader never forgets an anchor, so the alias in the second stream,
/// which refers to a node that is still open and must become BadValue, is replaced by the node
/// anchored in the *first* stream.
#[test]
fn f4_loader_reused_across_parsers_resolves_alias_to_foreign_node() {
    let mut loader: YamlLoader<Yaml> = YamlLoader::default();
    Parser::new_from_str("&a x").load(&mut loader, true).unwrap();
    Parser::new_from_str("&b [*b]").load(&mut loader, true).unwrap();
    let docs = loader.into_documents();
    assert_eq!(docs.len(), 2);
    assert_eq!(docs[0], Yaml::Value(Scalar::String("x".into())));
    // what a fresh loader gives for the second stream, and what the property requires
    let alone = one("&b [*b]");
    assert_eq!(alone, Yaml::Sequence(vec![Yaml::BadValue]));
    assert_eq!(docs[1], alone, "the second stream must load as it does on its own");
}
