//! Property C09 (emit then load returns the same tree; the emitted text is one well-formed
//! document) -- findings of probe C09h.
//!
//! Drop into saphyr/tests/ and run `cargo test --offline -p saphyr --test findings`.

use saphyr::{LoadableYamlNode, Scalar, Yaml, YamlEmitter};

fn s(v: &str) -> Yaml<'static> {
    Yaml::Value(Scalar::String(v.to_string().into()))
}

fn emit(t: &Yaml, compact: bool, multiline: bool) -> String {
    let mut out = String::new();
    let mut e = YamlEmitter::new(&mut out);
    e.compact(compact);
    e.multiline_strings(multiline);
    e.dump(t).unwrap();
    out
}

/// YAML 1.2.2 production [27] nb-char: c-printable [1] minus line breaks minus the byte order
/// mark. It is the only thing the text of a literal block scalar line may be made of
/// (productions [171] l-nb-literal-text, [172] b-nb-literal-next).
fn nb_char(c: char) -> bool {
    matches!(c,
        '\t' | '\x20'..='\x7e' | '\u{85}' | '\u{a0}'..='\u{d7ff}'
        | '\u{e000}'..='\u{fffd}' | '\u{10000}'..='\u{10ffff}')
        && c != '\u{feff}'
}

/// F1. With `multiline_strings(true)`, a string that has a line break and contains U+FEFF, U+FFFE
/// or U+FFFF is written in the literal style with that character raw in the output. U+FFFE and
/// U+FFFF are not in c-printable at all ("must not appear in a YAML stream"), U+FEFF is excluded
/// from nb-char, so the emitted text is not a well-formed YAML document. The same strings are
/// escaped (`"\ufeff"`, ...) under `multiline_strings(false)`, in key position, and at the root.
///
/// Cause: saphyr/src/char_traits.rs `is_valid_literal_block_scalar` tests
/// `'\u{00a0}'..='\u{d7fff}'` (five hex digits, a typo for `\u{d7ff}`), which swallows
/// U+E000..U+FFFF including the three non-characters (its own doc comment says U+FEFF is to be
/// excluded), and the literal branch of `emit_node` is taken before `need_quotes`/`escape_str`.
#[test]
fn c09h_f1_literal_style_writes_non_printable_characters_raw() {
    let mut failures = Vec::new();
    for c in ['\u{feff}', '\u{fffe}', '\u{ffff}'] {
        for text in [format!("a\n{c}"), format!("{c}\nb"), format!("x{c}y\n")] {
            let trees = [
                Yaml::Sequence(vec![s(&text)]),
                {
                    let mut m = saphyr::Mapping::new();
                    m.insert(s("k"), s(&text));
                    Yaml::Mapping(m)
                },
            ];
            for tree in &trees {
                for compact in [true, false] {
                    let out = emit(tree, compact, true);
                    // Whatever it looks like, the tree does come back (the parser does not
                    // check for printable characters) ...
                    let back = Yaml::load_from_str(&out).unwrap();
                    assert_eq!(back.len(), 1);
                    assert_eq!(&back[0], tree);
                    // ... but the text itself is not a well-formed YAML document.
                    if let Some(bad) = out.chars().find(|ch| *ch != '\n' && !nb_char(*ch)) {
                        failures.push(format!(
                            "compact={compact} multiline_strings=true string {text:?}: output {out:?} contains raw U+{:04X}",
                            bad as u32
                        ));
                    }
                    // The other setting gets it right.
                    let quoted = emit(tree, compact, false);
                    assert!(quoted.chars().all(|ch| ch == '\n' || nb_char(ch)), "{quoted:?}");
                }
            }
        }
    }
    assert!(
        failures.is_empty(),
        "the emitted text is not a well-formed document ({} cases):\n{}",
        failures.len(),
        failures.join("\n")
    );
}
