//! Property C16 -- findings. Each test asserts what the property requires and FAILS on the
//! unmodified library. See NOTES.md for the details and the confidence attached to each.
#![allow(clippy::pedantic)]

use saphyr::{LoadableYamlNode, Scalar, Yaml};
use saphyr_parser::{Event, Parser, ScanError, Tag};

/// The tag of the first tagged node of `src`, or the error the parser ran into.
fn first_tag(src: &str) -> Result<Option<Tag>, ScanError> {
    for ev in Parser::new_from_str(src) {
        match ev?.0 {
            Event::Scalar(_, _, _, Some(tag))
            | Event::SequenceStart(_, Some(tag))
            | Event::MappingStart(_, Some(tag)) => return Ok(Some(tag)),
            _ => {}
        }
    }
    Ok(None)
}

/// F1. `Tag`'s `Display` -- the only rendering of a tag the library offers -- inserts a `!`
/// between the resolved prefix and the suffix: `!!str` is shown as `tag:yaml.org,2002:!str`.
///
/// Clause: "A node tag is reported as the prefix bound to its handle followed by its
/// percent-decoded suffix".
#[test]
fn c16_f1_tag_display_is_prefix_followed_by_suffix() {
    let tag = first_tag("!!str a").unwrap().unwrap();
    assert_eq!(
        (tag.handle.as_str(), tag.suffix.as_str()),
        ("tag:yaml.org,2002:", "str")
    );
    assert_eq!(tag.to_string(), "tag:yaml.org,2002:str");

    let tag = first_tag("%TAG !e! tag:example.com,2000:app/\n--- !e!foo a")
        .unwrap()
        .unwrap();
    assert_eq!(tag.to_string(), "tag:example.com,2000:app/foo");

    // A local tag is `!name`, not `!!name`.
    let tag = first_tag("!local a").unwrap().unwrap();
    assert_eq!(tag.to_string(), "!local");

    // A verbatim tag is its text.
    let tag = first_tag("!<tag:x> a").unwrap().unwrap();
    assert_eq!(tag.to_string(), "tag:x");
}

/// F2. An overlong (invalid) UTF-8 escape sequence is accepted and reported as the character it
/// does not encode: `%C1%81` is reported as `A`, `%C0%80` as NUL, `%E0%80%AF` as `/`. The bytes
/// C1 81 are not UTF-8 at all, so there is no percent-decoded suffix to report; distinct
/// spellings collapse onto one tag (`!!%C1%A9nt` is taken for `!!int`).
///
/// Clause: "followed by its percent-decoded suffix".
#[test]
fn c16_f2_overlong_percent_escapes_are_not_a_decoding() {
    for src in [
        "!%C1%81 a",
        "!%C0%80 a",
        "!%E0%80%AF a",
        "!%F0%80%80%AF a",
        "%TAG !e! tag:e/\n--- !e!%C1%81 a",
    ] {
        let got = first_tag(src);
        assert!(
            got.is_err(),
            "{src:?}: bytes that are not UTF-8 were reported as {got:?}"
        );
    }

    // Seen from the `saphyr` crate: the overlong spelling of `i` makes `!!%C1%A9nt` the core
    // `int` tag.
    let loaded = Yaml::load_from_str("!!%C1%A9nt 12");
    assert!(
        !matches!(loaded.as_deref(), Ok([Yaml::Value(Scalar::Integer(12))])),
        "`!!%C1%A9nt` was resolved as tag:yaml.org,2002:int: {loaded:?}"
    );
}

/// F3 (lower confidence, depends on how "verbatim" is read). A verbatim tag is not taken
/// verbatim: its percent escapes are expanded, so `!<tag:%41>` is reported as `tag:A` and
/// `!<%21>` as `!`, which is the report of the non-specific tag.
///
/// Clause: "'!<...>' is taken verbatim" (YAML 1.2.2, 6.9.1: "the YAML processor must deliver the
/// verbatim tag as-is to the application").
#[test]
fn c16_f3_verbatim_tag_is_taken_verbatim() {
    let tag = first_tag("!<tag:%41> a").unwrap().unwrap();
    assert_eq!(format!("{}{}", tag.handle, tag.suffix), "tag:%41");

    let verbatim = first_tag("!<%21> a").unwrap().unwrap();
    let non_specific = first_tag("! a").unwrap().unwrap();
    assert_ne!(verbatim, non_specific);
}
