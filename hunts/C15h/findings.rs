// Property C15 -- documents in a stream are parsed independently of each other.
//
// No violation of the property was found on the unmodified library. This file is a compact,
// self-contained version of the probing harness (the full one, with the model renderer, the
// exhaustive enumerations, the API-sequence and padding probes, is `probe_full.rs` next to
// NOTES.md). The tests below PASS; they document what was checked:
//
//   for accepted streams A (ending with a line break) and B, and a marker line M
//   (`...` + optional blanks/comment + LF / CRLF / CR):
//       events(A + M + B) == StreamStart, docs(A), renumber(docs(B)), StreamEnd
//   on four paths (iterator / `load`, `&str` / `chars()` input), and
//       Yaml::load_from_str(A + M + B) == load(A) ++ load(B).
#![allow(dead_code)]
#![allow(clippy::all, clippy::pedantic)]

use std::collections::HashSet;
use std::panic::{catch_unwind, AssertUnwindSafe};

use saphyr::{LoadableYamlNode, Yaml};
use saphyr_parser::{Event, EventReceiver, Parser, ScanError};

type Ev = Event<'static>;

fn own(ev: Event<'_>) -> Ev {
    match ev {
        Event::Nothing => Event::Nothing,
        Event::StreamStart => Event::StreamStart,
        Event::StreamEnd => Event::StreamEnd,
        Event::DocumentStart(b) => Event::DocumentStart(b),
        Event::DocumentEnd => Event::DocumentEnd,
        Event::Alias(i) => Event::Alias(i),
        Event::Scalar(v, s, a, t) => Event::Scalar(v.into_owned().into(), s, a, t),
        Event::SequenceStart(a, t) => Event::SequenceStart(a, t),
        Event::SequenceEnd => Event::SequenceEnd,
        Event::MappingStart(a, t) => Event::MappingStart(a, t),
        Event::MappingEnd => Event::MappingEnd,
    }
}

#[derive(Clone, Copy, PartialEq, Eq, Debug)]
enum Path {
    StrIter,
    CharIter,
    LoadStr,
    LoadChars,
}

const PATHS: [Path; 4] = [Path::StrIter, Path::CharIter, Path::LoadStr, Path::LoadChars];

struct Sink(Vec<Ev>);
impl<'a> EventReceiver<'a> for Sink {
    fn on_event(&mut self, ev: Event<'a>) {
        self.0.push(own(ev));
    }
}

fn drain<I: Iterator<Item = Result<(Event<'static>, saphyr_parser::Span), ScanError>>>(
    it: I,
    cap: usize,
) -> Result<Vec<Ev>, String> {
    let mut out = vec![];
    for x in it {
        match x {
            Ok((ev, _)) => {
                let end = ev == Event::StreamEnd;
                out.push(ev);
                if end {
                    return Ok(out);
                }
                if out.len() > cap {
                    return Err("too many events".into());
                }
            }
            Err(e) => return Err(format!("{e}")),
        }
    }
    Err("iterator ended without StreamEnd".into())
}

/// Events of a stream via one of the paths. `Err` carries the error text (or "PANIC").
fn events(s: &str, path: Path) -> Result<Vec<Ev>, String> {
    let cap = s.len() * 4 + 64;
    let r = catch_unwind(AssertUnwindSafe(|| match path {
        Path::StrIter => {
            let p = Parser::new_from_str(s);
            drain(p.map(|r| r.map(|(e, sp)| (own(e), sp))), cap)
        }
        Path::CharIter => {
            let p = Parser::new_from_iter(s.chars());
            drain(p.map(|r| r.map(|(e, sp)| (own(e), sp))), cap)
        }
        Path::LoadStr => {
            let mut p = Parser::new_from_str(s);
            let mut sink = Sink(vec![]);
            p.load(&mut sink, true).map_err(|e| format!("{e}"))?;
            Ok(sink.0)
        }
        Path::LoadChars => {
            let mut p = Parser::new_from_iter(s.chars());
            let mut sink = Sink(vec![]);
            p.load(&mut sink, true).map_err(|e| format!("{e}"))?;
            Ok(sink.0)
        }
    }));
    match r {
        Ok(x) => x,
        Err(_) => Err("PANIC".into()),
    }
}

fn max_anchor(evs: &[Ev]) -> usize {
    evs.iter()
        .map(|e| match e {
            Event::Scalar(_, _, a, _) | Event::SequenceStart(a, _) | Event::MappingStart(a, _) => *a,
            _ => 0,
        })
        .max()
        .unwrap_or(0)
}

fn shift(ev: &Ev, off: usize) -> Ev {
    let f = |a: usize| if a == 0 { 0 } else { a + off };
    match ev {
        Event::Alias(i) => Event::Alias(i + off),
        Event::Scalar(v, s, a, t) => Event::Scalar(v.clone(), *s, f(*a), t.clone()),
        Event::SequenceStart(a, t) => Event::SequenceStart(f(*a), t.clone()),
        Event::MappingStart(a, t) => Event::MappingStart(f(*a), t.clone()),
        e => e.clone(),
    }
}

/// Expected events of the concatenation of streams with the given event lists.
fn expected(parts: &[&Vec<Ev>]) -> Vec<Ev> {
    let mut out = vec![Event::StreamStart];
    let mut off = 0;
    for p in parts {
        assert_eq!(p.first(), Some(&Event::StreamStart));
        assert_eq!(p.last(), Some(&Event::StreamEnd));
        let inner = &p[1..p.len() - 1];
        for e in inner {
            out.push(shift(e, off));
        }
        off += max_anchor(inner);
    }
    out.push(Event::StreamEnd);
    out
}

fn ends_with_break(s: &str) -> bool {
    s.ends_with('\n') || s.ends_with('\r')
}

fn load_yaml(s: &str) -> Result<Vec<Yaml<'static>>, String> {
    let r = catch_unwind(AssertUnwindSafe(|| {
        // `load_from_iter` gives `'static`-compatible nodes (owned scalars).
        Yaml::load_from_iter(s.to_owned().chars().collect::<Vec<_>>().into_iter())
            .map_err(|e| format!("{e}"))
    }));
    match r {
        Ok(x) => x,
        Err(_) => Err("PANIC".into()),
    }
}

fn load_yaml_str(s: &str) -> Result<Vec<Yaml<'_>>, String> {
    let r = catch_unwind(AssertUnwindSafe(|| {
        Yaml::load_from_str(s).map_err(|e| format!("{e}"))
    }));
    match r {
        Ok(x) => x,
        Err(_) => Err("PANIC".into()),
    }
}

/// Check the property for a list of streams joined by the given markers. Returns a description of
/// the violation, if any.
fn check_concat(parts: &[&str], markers: &[&str], deep: bool) -> Option<String> {
    assert_eq!(parts.len(), markers.len() + 1);
    for p in &parts[..parts.len() - 1] {
        assert!(ends_with_break(p));
    }
    let mut c = String::new();
    for (i, p) in parts.iter().enumerate() {
        c.push_str(p);
        if i < markers.len() {
            c.push_str(markers[i]);
        }
    }
    let paths: &[Path] = if deep { &PATHS } else { &PATHS[..2] };
    for &path in paths {
        let mut evs = vec![];
        for p in parts {
            match events(p, path) {
                Ok(e) => evs.push(e),
                Err(_) => return None, // not an accepted stream (on this path)
            }
        }
        let refs: Vec<&Vec<Ev>> = evs.iter().collect();
        let exp = expected(&refs);
        match events(&c, path) {
            Ok(got) => {
                if got != exp {
                    let i = got.iter().zip(exp.iter()).position(|(a, b)| a != b);
                    return Some(format!(
                        "{path:?}: events differ at {i:?}: got {:?} expected {:?} (lens {} / {})",
                        i.map(|i| &got[i]),
                        i.map(|i| &exp[i]),
                        got.len(),
                        exp.len()
                    ));
                }
            }
            Err(e) => return Some(format!("{path:?}: concatenation rejected: {e}")),
        }
    }
    if deep {
        // Loader level.
        let mut docs = vec![];
        for p in parts {
            match load_yaml_str(p) {
                Ok(d) => docs.extend(d),
                Err(_) => return None,
            }
        }
        match load_yaml_str(&c) {
            Ok(got) => {
                if got != docs {
                    return Some(format!("Yaml: loaded documents differ: got {got:?} expected {docs:?}"));
                }
            }
            Err(e) => return Some(format!("Yaml: concatenation rejected: {e}")),
        }
    }
    None
}

// ---------------------------------------------------------------------------------------------
// PRNG

struct Rng(u64);
impl Rng {
    fn next(&mut self) -> u64 {
        // splitmix64
        self.0 = self.0.wrapping_add(0x9E37_79B9_7F4A_7C15);
        let mut z = self.0;
        z = (z ^ (z >> 30)).wrapping_mul(0xBF58_476D_1CE4_E5B9);
        z = (z ^ (z >> 27)).wrapping_mul(0x94D0_49BB_1331_11EB);
        z ^ (z >> 31)
    }
    fn below(&mut self, n: usize) -> usize {
        (self.next() % (n as u64)) as usize
    }
    fn chance(&mut self, num: usize, den: usize) -> bool {
        self.below(den) < num
    }
    fn pick<'a, T>(&mut self, v: &'a [T]) -> &'a T {
        &v[self.below(v.len())]
    }
}

// ---------------------------------------------------------------------------------------------
// Corpus

fn visual_to_raw(yaml: &str) -> String {
    let mut yaml = yaml.to_owned();
    for (pat, replacement) in [
        ("␣", " "),
        ("»", "\t"),
        ("—", ""),
        ("←", "\r"),
        ("⇔", "\u{FEFF}"),
        ("↵", ""),
        ("∎\n", ""),
    ] {
        yaml = yaml.replace(pat, replacement);
    }
    yaml
}

fn corpus() -> Vec<String> {
    let mut out = vec![];
    let dir = "../parser/tests/yaml-test-suite/src";
    let mut entries: Vec<_> = std::fs::read_dir(dir).unwrap().map(|e| e.unwrap().path()).collect();
    entries.sort();
    for path in entries {
        let text = std::fs::read_to_string(&path).unwrap();
        let docs = Yaml::load_from_str(&text).unwrap();
        for t in docs[0].as_vec().unwrap() {
            if let Some(y) = t.as_mapping_get("yaml").and_then(|y| y.as_str()) {
                out.push(visual_to_raw(y));
            }
        }
    }
    out
}

// ---------------------------------------------------------------------------------------------
// Token soup generator

const FRAGS: &[&str] = &[
    "a", "b", "c", "x y", "- ", "-", "? ", "?", ": ", ":", "\n", "\n", "\n", " ", "  ", "   ", "\t",
    "[", "]", "{", "}", ",", ", ", "&x ", "&x", "&y ", "*x", "*y", "*x ", "!t ", "!!str ", "!!int ",
    "!e!x ", "!<tag:v> ", "! ", "|", ">", "|+", "|-", ">2", "|1", "'", "\"", "'a'", "\"b\"", "''",
    "\"\\n\"", "#", " #c", "# c", "---", "--- ", "---\n", "...", "...\n", "%YAML 1.2\n",
    "%YAML 1.1\n", "%TAG !e! tag:e:\n", "%TAG ! tag:p:\n", "%TAG !! tag:s:\n", "%FOO bar\n", "%",
    "\r", "\r\n", "\\", "é", "\u{2028}", "\u{85}", "0", "1", "~", "null", "true", "1.5", "<<", "=",
    "@", "`", "\"a\\\n\"", "key: ", "- - ", "? - ", ": - ", "[a, b]", "{a: b}", "[a: b]", "[? a]",
    "{? a}", "{a}", "[:]", "{:}", "\"q\":", "'q':", "  - ", "  a: ", " : ", "\n  ", "\n ", "\n- ",
    "\n? ", "\n: ", "|\n a\n", ">\n a\n b\n", "|+\n\n", "|\n", "&a\n", "!!t\n",
];

fn soup(rng: &mut Rng, maxfrags: usize) -> String {
    let n = 1 + rng.below(maxfrags);
    let mut s = String::new();
    for _ in 0..n {
        s.push_str(*rng.pick(FRAGS));
    }
    s
}


const MARKERS: &[&str] = &["...\n", "...\r\n", "... \n", "...\t# c\n", "...\r", "... # c\n"];

fn accepted_pool(rng: &mut Rng, corpus: &[String], want: usize) -> Vec<String> {
    let mut pool = vec![];
    let mut seen = HashSet::new();
    for c in corpus {
        if !c.contains('\0') && seen.insert(c.clone()) && events(c, Path::StrIter).is_ok() {
            pool.push(c.clone());
        }
    }
    let mut tries = 0;
    while pool.len() < want && tries < want * 300 {
        tries += 1;
        let mut s = soup(rng, 10);
        if !ends_with_break(&s) && rng.chance(2, 3) {
            s.push('\n');
        }
        if !s.contains('\0') && seen.insert(s.clone()) && events(&s, Path::StrIter).is_ok() {
            pool.push(s);
        }
    }
    pool
}

/// Pairs and chains (up to 4 streams) of accepted streams from the test-suite corpus and a
/// token-soup generator.
#[test]
fn c15_concatenation_with_document_end_marker_is_independent() {
    let mut rng = Rng(1);
    let corpus = corpus();
    let pool = accepted_pool(&mut rng, &corpus, 3000);
    let a_pool: Vec<&String> = pool.iter().filter(|s| ends_with_break(s)).collect();
    assert!(a_pool.len() > 1000);
    let mut violations = vec![];
    for i in 0..60_000 {
        let k = if i % 5 == 0 { 3 + rng.below(2) } else { 2 };
        let mut parts: Vec<&str> = (0..k - 1).map(|_| rng.pick(&a_pool).as_str()).collect();
        parts.push(rng.pick(&pool).as_str());
        let markers: Vec<&str> = (0..k - 1).map(|_| *rng.pick(MARKERS)).collect();
        if let Some(why) = check_concat(&parts, &markers, i % 3 == 0) {
            violations.push(format!("{parts:?} {markers:?}: {why}"));
        }
    }
    assert!(violations.is_empty(), "{:#?}", &violations[..violations.len().min(5)]);
}

/// Hand-picked boundary cases: what the first stream leaves behind (indentation, flow level, simple
/// keys, tag handles, anchors, block scalars with keep chomping, CR-only breaks).
#[test]
fn c15_hand_picked_boundaries() {
    let firsts = [
        "a:\n  b:\n    - c\n", "- - - a\n", "? a\n", "? - a\n: - b\n", "[a, {b: c}, [d: e]]\n", "{? a, b: [c]}\n",
        "\"a\":\n", "k: |+\n x\n\n\n", "--- |\ntop\n", "--- >-\n\n", "|\n", "a\n b\n", "a # c\n", "&x a\n", "- &x a\n- *x\n",
        "%TAG !e! tag:e:\n--- !e!t a\n", "%TAG !! tag:mine:\n--- !!str a\n", "%TAG ! tag:p:\n--- !t a\n",
        "%YAML 1.2\n---\n", "%YAML 1.1\n%FOO bar\n--- a\n", "# only a comment\n", "\n", "...\n", "---\n", "--- \n...\n",
        "a\r", "a:\r  - b\r", "a: b\r\n", "a:\n\t\n", "k: 'v'\n\n# c\n", "- !!str\n", "- &a\n", "? |\n a\n: >\n b\n",
    ];
    let seconds = [
        "", "a", "a: b", "- a\n- b\n", "  a:\n   - b\n", "[a: b]", "{a}", "{\"a\":b}", "? a", ": a", "- &x a\n- *x\n",
        "&x [*x]", "!!str a", "--- !!int 1", "!t a", "%YAML 1.2\n--- a", "%TAG !e! tag:f:\n--- !e!t a",
        "%TAG !! tag:theirs:\n--- !!str a", "--- |\ntop\n", "|\n", "...\n", "---\n---\n", "# c", "\ta", "\n\n a\n",
    ];
    for a in firsts {
        assert!(events(a, Path::StrIter).is_ok(), "{a:?}");
        for b in seconds {
            assert!(events(b, Path::StrIter).is_ok(), "{b:?}");
            for m in MARKERS {
                assert_eq!(check_concat(&[a, b], &[m], true), None, "A={a:?} M={m:?} B={b:?}");
            }
        }
    }
}
