// C04j: no violation of C04 found. This test passes on the unmodified code and documents hand-picked
// corners that were checked in addition to the random renderer/oracle probe described in NOTES.md
// (about 8.2 M rendered cases, all clean).
use saphyr_parser::{Event, Parser, ScalarStyle};

fn scalars_str(doc: &str) -> Vec<(String, ScalarStyle)> {
    Parser::new_from_str(doc)
        .map(|e| e.expect("parse error"))
        .filter_map(|(e, _)| match e {
            Event::Scalar(s, st, _, _) => Some((s.into_owned(), st)),
            _ => None,
        })
        .collect()
}
fn scalars_iter(doc: &str) -> Vec<(String, ScalarStyle)> {
    Parser::new_from_iter(doc.chars())
        .map(|e| e.expect("parse error"))
        .filter_map(|(e, _)| match e {
            Event::Scalar(s, st, _, _) => Some((s.into_owned(), st)),
            _ => None,
        })
        .collect()
}

#[test]
fn c04j_corners_hold() {
    use ScalarStyle::{DoubleQuoted as D, Plain as P, SingleQuoted as S};
    let cases: &[(&str, usize, &str, ScalarStyle)] = &[
        // `---x` / `...x` at column 0 of a continuation line are text, not document markers
        ("\"a\n---x\"\n", 0, "a ---x", D),
        ("'a\n...x'\n", 0, "a ...x", S),
        ("a\n---x\n", 0, "a ---x", P),
        // escaped breaks: join without a space, CRLF / CR, following empty lines give newlines
        ("\"\\\n\"", 0, "", D),
        ("\"a\\\r\n  b\"", 0, "ab", D),
        ("\"a\\\r\r \rb\"", 0, "a\n\nb", D),
        ("\"a \\\n \\ b\"", 0, "a  b", D),
        ("\"a\\t\n b\"", 0, "a\t b", D),
        ("\"a\\\tb\"", 0, "a\tb", D),
        // escapes of every width, boundary code points
        ("\"\\x41\\u0042\\U00000043\\U0010fFfF\\uD7FF\\ue000\\0\\N\\_\\L\\P\\/\\e\"", 0,
         "ABC\u{10ffff}\u{d7ff}\u{e000}\0\u{85}\u{a0}\u{2028}\u{2029}/\u{1b}", D),
        // folding: n+1 breaks -> n newlines, blanks around a break dropped, interior blanks kept
        ("k: 'a  \t b \t\n\n \n   c'''\n", 1, "a  \t b\n\nc'", S),
        ("k: a  \t b \t\n\n \n   c\n", 1, "a  \t b\n\nc", P),
        ("\"\n\n\"", 0, "\n", D),
        ("' \n '", 0, " ", S),
        // indicators legal inside plain scalars
        ("[a:b, -x, ?y, :z, a#b, a'\"b]\n", 4, "a#b", P),
        ("{a:b: c!&*|>%@`}\n", 1, "c!&*|>%@`", P),
        ("- -?:#a: x\n", 0, "-?:#a", P),
        // multi-line quoted key in a flow mapping, adjacent value after a JSON-like key
        ("{ \"a\n  b\" :v, 'c':\"d\\\n e\" }\n", 3, "de", D),
        // top-level plain continuation lines at column 0 that start with indicators
        ("a\n-b\n?c\n:d\n", 0, "a -b ?c :d", P),
    ];
    for (doc, idx, want, style) in cases {
        for v in [scalars_str(doc), scalars_iter(doc)] {
            assert_eq!(v[*idx], ((*want).to_string(), *style), "doc {doc:?}");
        }
    }
    // boundary lengths around the 16-character input buffer and 128 / 1024
    for n in [13usize, 14, 15, 16, 17, 126, 127, 128, 129, 1022, 1023, 1024, 1025] {
        let pad = "a".repeat(n);
        let doc = format!("\"{pad}\\U0001F600\\\n {pad}\\x41 \n\n {pad}\"");
        let want = format!("{pad}\u{1F600}{pad}A\n{pad}");
        assert_eq!(scalars_str(&doc)[0].0, want);
        assert_eq!(scalars_iter(&doc)[0].0, want);
        if n > 1000 {
            continue; // implicit keys are limited to 1024 characters
        }
        let doc = format!("{pad}#:b: x\n");
        assert_eq!(scalars_iter(&doc)[0].0, format!("{pad}#:b"), "{doc:?}");
    }
}
