//! Findings for property C01 ("Parsing always terminates: no panic, abort or hang on any input",
//! with work "bounded by a linear function of the input length").
//!
//! Drop into `saphyr/tests/`. Every test below FAILS on the unmodified library.
//!
//! * F1 (`tag_prefix_is_copied_for_every_tag_quadratic_work`, `tag_prefix_quadratic_through_loader`):
//!   solid. String input, stock API, deterministic measurements.
//! * F2 (`unbuffered_input_*`): custom `Input` that follows the *documented* trait contract to the
//!   letter (no-op `lookahead`, `buflen() == 0`). Panics, resp. spins forever.
//! * F3 (`lookahead_request_exceeds_advertised_capacity`): custom `Input` advertising a capacity
//!   below 8. The scanner asks for more characters than `bufmaxlen()`.
//!
//! F2/F3 depend on how much of the undocumented expectations of the scanner one counts as "the
//! input contract"; see NOTES.md.

use std::collections::VecDeque;
use std::sync::atomic::{AtomicUsize, Ordering};
use std::sync::Arc;

use saphyr::{LoadableYamlNode, Yaml};
use saphyr_parser::{Event, Input, Parser};

// -------------------------------------------------------------------------------------------------
// F1
// -------------------------------------------------------------------------------------------------

/// A document made of one `%TAG` directive with a prefix of `n` characters and `n / 8` tagged
/// scalars (8 characters each): about `2 n` characters in total.
fn tag_document(n: usize) -> String {
    format!(
        "%TAG !e! {}\n--- [{}]\n",
        "x".repeat(n),
        "!e!a b, ".repeat(n / 8)
    )
}

/// Pull all events; return the number of bytes of tag text the parser produced.
fn tag_bytes_produced(input: &str) -> usize {
    let mut bytes = 0;
    for ev in Parser::new_from_str(input) {
        let (ev, _) = ev.expect("the document is valid");
        if let Event::Scalar(_, _, _, Some(tag)) = ev {
            bytes += tag.handle.len() + tag.suffix.len();
        }
    }
    bytes
}

/// Property: "pulling events from the parser [...] finishes after an amount of work bounded by a
/// linear function of the input length".
///
/// The parser resolves every `!e!suffix` shorthand by copying the whole `%TAG` prefix into the
/// event (`Tag { handle: prefix.to_string(), .. }` in `Parser::resolve_tag`). With a prefix of
/// length L used k times the parser writes L*k bytes for an input of L + 8k characters: doubling the
/// input quadruples the work. (The `Yaml` loader copies each resolved tag three more times:
/// `format!("{handle}{suffix}")` in `Scalar::parse_from_cow_and_metadata`.)
///
/// Measured with `--release`: a 1.6 MB input of this shape takes 2.7 s to iterate and 9.0 s in
/// `Yaml::load_from_str` (320 GB of allocation traffic); an input of the same length with a
/// 1-character prefix takes 0.13 s.
#[test]
fn tag_prefix_is_copied_for_every_tag_quadratic_work() {
    let small = tag_document(4_000);
    let big = tag_document(8_000);
    assert!(big.len() <= 2 * small.len());

    let work_small = tag_bytes_produced(&small);
    let work_big = tag_bytes_produced(&big);
    eprintln!(
        "input {} -> {} bytes of tags; input {} -> {} bytes of tags",
        small.len(),
        work_small,
        big.len(),
        work_big
    );

    // Twice the input may cost about twice the work (a generous 3x is allowed here) ...
    assert!(
        work_big <= 3 * work_small,
        "doubling the input ({} -> {} bytes) multiplied the bytes written by {:.1}",
        small.len(),
        big.len(),
        work_big as f64 / work_small as f64
    );
    // ... and the output of a linear-time parser is linear in its input. (Generous constant.)
    assert!(
        work_big <= 64 * big.len(),
        "{} bytes of tag text produced for an input of {} bytes",
        work_big,
        big.len()
    );
}

/// Same finding through the document loader, measured as bytes requested from the allocator
/// (deterministic, unlike wall clock time): `Yaml::load_from_str` on twice the input allocates four
/// times as much.
#[test]
fn tag_prefix_quadratic_through_loader() {
    let allocated = |s: &str| {
        let before = ALLOCATED.load(Ordering::Relaxed);
        let docs = Yaml::load_from_str(s).unwrap();
        let after = ALLOCATED.load(Ordering::Relaxed);
        assert_eq!(docs.len(), 1);
        after - before
    };
    let small = tag_document(4_000);
    let big = tag_document(8_000);
    let (a_small, a_big) = (allocated(&small), allocated(&big));
    // Reference point: a document of the same length as `big` with twice as many nodes but a
    // 1-character prefix.
    let reference = format!("%TAG !e! x\n--- [{}]\n", "!e!a b, ".repeat(2_000));
    assert!(reference.len() >= big.len());
    let a_ref = allocated(&reference);
    eprintln!(
        "{} bytes -> {a_small} allocated; {} bytes -> {a_big} allocated; reference {} bytes -> {a_ref} allocated",
        small.len(),
        big.len(),
        reference.len()
    );
    assert!(
        a_big <= 3 * a_small,
        "doubling the input multiplied the allocated bytes by {:.1}",
        a_big as f64 / a_small as f64
    );
}

/// Counts the bytes requested from the allocator (used by `tag_prefix_quadratic_through_loader`).
struct CountingAllocator;
static ALLOCATED: AtomicUsize = AtomicUsize::new(0);
unsafe impl std::alloc::GlobalAlloc for CountingAllocator {
    unsafe fn alloc(&self, layout: std::alloc::Layout) -> *mut u8 {
        ALLOCATED.fetch_add(layout.size(), Ordering::Relaxed);
        unsafe { std::alloc::System.alloc(layout) }
    }
    unsafe fn dealloc(&self, ptr: *mut u8, layout: std::alloc::Layout) {
        unsafe { std::alloc::System.dealloc(ptr, layout) }
    }
    unsafe fn realloc(&self, ptr: *mut u8, layout: std::alloc::Layout, new_size: usize) -> *mut u8 {
        ALLOCATED.fetch_add(new_size, Ordering::Relaxed);
        unsafe { std::alloc::System.realloc(ptr, layout, new_size) }
    }
}
#[global_allocator]
static GLOBAL: CountingAllocator = CountingAllocator;

// -------------------------------------------------------------------------------------------------
// F2: an input that follows the documentation of `Input` literally
// -------------------------------------------------------------------------------------------------

/// Random-access input over a `Vec<char>`. There is no buffer, so, as the trait documentation
/// allows, `lookahead` is a no-op ("This method may be a no-op if buffering yields no performance
/// improvement") and `buflen` ("Return the number of buffered characters in `self`") is 0.
/// `peek`/`peek_nth` return `\0` past the end ("Otherwise, returns `\0`").
struct Unbuffered {
    chars: Vec<char>,
    pos: usize,
    /// Advertised capacity.
    cap: usize,
    /// Whether the helper predicates are overridden (as `StrInput` does) or left to the trait.
    override_helpers: bool,
}

impl Unbuffered {
    fn new(s: &str, cap: usize, override_helpers: bool) -> Self {
        Self {
            chars: s.chars().collect(),
            pos: 0,
            cap,
            override_helpers,
        }
    }
    fn at(&self, n: usize) -> char {
        self.chars.get(self.pos + n).copied().unwrap_or('\0')
    }
    fn blankz(c: char) -> bool {
        matches!(c, ' ' | '\t' | '\n' | '\r' | '\0')
    }
}

impl Input for Unbuffered {
    fn lookahead(&mut self, _count: usize) {}
    fn buflen(&self) -> usize {
        0
    }
    fn bufmaxlen(&self) -> usize {
        self.cap
    }
    fn raw_read_ch(&mut self) -> char {
        let c = self.at(0);
        self.pos += 1;
        c
    }
    fn raw_read_non_breakz_ch(&mut self) -> Option<char> {
        let c = self.at(0);
        if matches!(c, '\n' | '\r' | '\0') {
            None
        } else {
            self.pos += 1;
            Some(c)
        }
    }
    fn skip(&mut self) {
        self.pos += 1;
    }
    fn skip_n(&mut self, count: usize) {
        self.pos += count;
    }
    fn peek(&self) -> char {
        self.at(0)
    }
    fn peek_nth(&self, n: usize) -> char {
        self.at(n)
    }

    // The following are only different from the provided methods when `override_helpers` is set:
    // they then do not `assert!` on `buflen()`.
    fn next_2_are(&self, c1: char, c2: char) -> bool {
        if !self.override_helpers {
            assert!(self.buflen() >= 2); // what the provided method does
        }
        self.at(0) == c1 && self.at(1) == c2
    }
    fn next_3_are(&self, c1: char, c2: char, c3: char) -> bool {
        if !self.override_helpers {
            assert!(self.buflen() >= 3); // what the provided method does
        }
        self.at(0) == c1 && self.at(1) == c2 && self.at(2) == c3
    }
    fn next_is_document_indicator(&self) -> bool {
        if !self.override_helpers {
            assert!(self.buflen() >= 4); // what the provided method does
        }
        Self::blankz(self.at(3)) && (self.next_3_are('.', '.', '.') || self.next_3_are('-', '-', '-'))
    }
    fn next_is_document_start(&self) -> bool {
        if !self.override_helpers {
            assert!(self.buflen() >= 4); // what the provided method does
        }
        self.next_3_are('-', '-', '-') && Self::blankz(self.at(3))
    }
    fn next_is_document_end(&self) -> bool {
        if !self.override_helpers {
            assert!(self.buflen() >= 4); // what the provided method does
        }
        self.next_3_are('.', '.', '.') && Self::blankz(self.at(3))
    }
}

/// The plainest possible custom input, with *no* method overridden beyond the required ones.
struct UnbufferedPlain(Unbuffered);
impl Input for UnbufferedPlain {
    fn lookahead(&mut self, _count: usize) {}
    fn buflen(&self) -> usize {
        0
    }
    fn bufmaxlen(&self) -> usize {
        self.0.cap
    }
    fn raw_read_ch(&mut self) -> char {
        self.0.raw_read_ch()
    }
    fn raw_read_non_breakz_ch(&mut self) -> Option<char> {
        self.0.raw_read_non_breakz_ch()
    }
    fn skip(&mut self) {
        self.0.skip();
    }
    fn skip_n(&mut self, count: usize) {
        self.0.skip_n(count);
    }
    fn peek(&self) -> char {
        self.0.peek()
    }
    fn peek_nth(&self, n: usize) -> char {
        self.0.peek_nth(n)
    }
}

/// Property: "pulling events from the parser (from a string, a char iterator, or any input source
/// that honours the input contract) [...] never panics".
///
/// Actual: `assertion failed: self.buflen() >= 4` (parser/src/input.rs, provided method
/// `next_is_document_start`) on the first token of any input, here the 1-character document `a`.
#[test]
fn unbuffered_input_panics_on_any_document() {
    let r = std::panic::catch_unwind(|| {
        let parser = Parser::new(UnbufferedPlain(Unbuffered::new("a", 128, false)));
        parser.map(|e| e.is_ok()).collect::<Vec<_>>()
    });
    assert!(
        r.is_ok(),
        "parsing \"a\" through an Input with a no-op lookahead panicked"
    );
    assert_eq!(r.unwrap(), vec![true; 5]);
}

/// Property: "[...] it never panics, aborts or spins."
///
/// The same input with the helper predicates implemented directly (like `StrInput` does, so that no
/// `assert!(buflen() >= n)` is involved) parses everything the other inputs parse, except that
/// `Scanner::skip_block_scalar_indent` spins forever as soon as a block scalar is indented by
/// `bufmaxlen() - 2` columns or more: its slow path only advances `while !self.input.buf_is_empty()`.
#[test]
fn unbuffered_input_spins_in_block_scalar() {
    // Works: the indentation (1) is below `bufmaxlen() - 2`.
    let shallow = Parser::new(Unbuffered::new("|\n a\n b\n", 16, true))
        .map(|e| e.is_ok())
        .collect::<Vec<_>>();
    assert_eq!(shallow, vec![true; 5]);

    // Spins: indentation 14 = bufmaxlen() - 2.
    let deep = format!("|\n{0}a\n{0}b\n", " ".repeat(14));
    let (tx, rx) = std::sync::mpsc::channel();
    std::thread::spawn(move || {
        let n = Parser::new(Unbuffered::new(&deep, 16, true))
            .take_while(Result::is_ok)
            .count();
        let _ = tx.send(n);
    });
    let r = rx.recv_timeout(std::time::Duration::from_secs(10));
    assert_eq!(
        r.ok(),
        Some(5),
        "no result after 10 s for a 35 character document"
    );
}

// -------------------------------------------------------------------------------------------------
// F3: capacity below 8
// -------------------------------------------------------------------------------------------------

/// A buffered input like `BufferedInput`, with a configurable capacity. It records the largest
/// `lookahead` request instead of panicking on it.
struct Ring<I: Iterator<Item = char>> {
    it: I,
    buf: VecDeque<char>,
    cap: usize,
    max_request: Arc<AtomicUsize>,
}
impl<I: Iterator<Item = char>> Input for Ring<I> {
    fn lookahead(&mut self, count: usize) {
        self.max_request.fetch_max(count, Ordering::Relaxed);
        while self.buf.len() < count {
            self.buf.push_back(self.it.next().unwrap_or('\0'));
        }
    }
    fn buflen(&self) -> usize {
        self.buf.len()
    }
    fn bufmaxlen(&self) -> usize {
        self.cap
    }
    fn raw_read_ch(&mut self) -> char {
        self.it.next().unwrap_or('\0')
    }
    fn raw_read_non_breakz_ch(&mut self) -> Option<char> {
        match self.it.next() {
            Some(c) if matches!(c, '\n' | '\r' | '\0') => {
                self.buf.push_back(c);
                None
            }
            other => other,
        }
    }
    fn skip(&mut self) {
        self.buf.pop_front();
    }
    fn skip_n(&mut self, count: usize) {
        self.buf.drain(0..count);
    }
    fn peek(&self) -> char {
        self.buf[0]
    }
    fn peek_nth(&self, n: usize) -> char {
        self.buf[n]
    }
}

/// Mechanism the property relies on: "lookahead requests never exceed the input's advertised buffer
/// capacity". It holds for every capacity >= 8 I tried (8, 9, 16, 17, 128, 1024; > 10^8 cases) but
/// not below: an 8-digit escape makes the scanner call `lookahead(8)` whatever `bufmaxlen()` says,
/// and every token starts with `lookahead(4)`. An input with a fixed ring of `bufmaxlen()` slots
/// (what `BufferedInput` is, with 16) panics on that request. The `Input` documentation states no
/// minimum capacity.
#[test]
fn lookahead_request_exceeds_advertised_capacity() {
    for cap in [7usize, 6, 5, 4] {
        let max_request = Arc::new(AtomicUsize::new(0));
        let input = Ring {
            it: "\"\\U0001F600\"".chars(),
            buf: VecDeque::new(),
            cap,
            max_request: max_request.clone(),
        };
        let events = Parser::new(input).take_while(Result::is_ok).count();
        assert_eq!(events, 5);
        let asked = max_request.load(Ordering::Relaxed);
        assert!(
            asked <= cap,
            "the scanner asked an input with bufmaxlen() == {cap} to buffer {asked} characters"
        );
    }
}
