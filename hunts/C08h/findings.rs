// Probe for property C08 (scalar typing follows the YAML 1.2 core schema and never corrupts text).
// All tests pass on the unmodified tree: no violation was found. Sizes are controlled by the
// environment variables C08_MAXLEN, C08_RANDOM, C08_LMAXLEN, C08_LFULL, C08_LRANDOM, C08_DIFF.
#![allow(clippy::pedantic, dead_code)]

use std::borrow::Cow;
use std::collections::BTreeMap;
use std::sync::Mutex;

use saphyr::{
    LoadableYamlNode, MarkedYaml, MarkedYamlOwned, Scalar, ScalarOwned, ScalarStyle, Tag, Yaml,
    YamlData, YamlDataOwned, YamlLoader, YamlOwned,
};
use saphyr_parser::{Event, Parser};

// ------------------------------------------------------------------------------------------
// Independent oracle: YAML 1.2.2 section 10.3.2 (core schema tag resolution).
// ------------------------------------------------------------------------------------------

fn is_null_lit(t: &str) -> bool {
    matches!(t, "null" | "Null" | "NULL" | "~" | "")
}

fn bool_lit(t: &str) -> Option<bool> {
    match t {
        "true" | "True" | "TRUE" => Some(true),
        "false" | "False" | "FALSE" => Some(false),
        _ => None,
    }
}

#[derive(Debug, Clone, Copy, PartialEq)]
enum IntLit {
    No,
    /// Matches the integer production but is outside i64. The bool tells whether it fits in u64.
    Overflow(bool),
    Val(i64),
}

fn accumulate(digits: &str, radix: u32) -> Option<u128> {
    if digits.is_empty() {
        return None;
    }
    let mut acc: u128 = 0;
    for c in digits.chars() {
        let d = match c {
            '0'..='9' => c as u32 - '0' as u32,
            'a'..='f' => c as u32 - 'a' as u32 + 10,
            'A'..='F' => c as u32 - 'A' as u32 + 10,
            _ => return None,
        };
        if d >= radix {
            return None;
        }
        acc = acc.saturating_mul(radix as u128).saturating_add(d as u128);
    }
    Some(acc)
}

fn int_lit(t: &str) -> IntLit {
    let (neg, mag) = if let Some(r) = t.strip_prefix("0o") {
        (false, accumulate(r, 8))
    } else if let Some(r) = t.strip_prefix("0x") {
        (false, accumulate(r, 16))
    } else if let Some(r) = t.strip_prefix('-') {
        (true, accumulate(r, 10))
    } else if let Some(r) = t.strip_prefix('+') {
        (false, accumulate(r, 10))
    } else {
        (false, accumulate(t, 10))
    };
    match mag {
        None => IntLit::No,
        Some(m) => {
            if neg {
                if m <= (1u128 << 63) {
                    IntLit::Val((-(m as i128)) as i64)
                } else {
                    IntLit::Overflow(false)
                }
            } else if m <= i64::MAX as u128 {
                IntLit::Val(m as i64)
            } else {
                IntLit::Overflow(m <= u64::MAX as u128)
            }
        }
    }
}

const POW10: [f64; 23] = [
    1e0, 1e1, 1e2, 1e3, 1e4, 1e5, 1e6, 1e7, 1e8, 1e9, 1e10, 1e11, 1e12, 1e13, 1e14, 1e15, 1e16,
    1e17, 1e18, 1e19, 1e20, 1e21, 1e22,
];

/// `[-+]? ( \. [0-9]+ | [0-9]+ ( \. [0-9]* )? ) ( [eE] [-+]? [0-9]+ )?`
/// `[-+]? ( \.inf | \.Inf | \.INF )`, `\.nan | \.NaN | \.NAN`
fn float_lit(t: &str) -> Option<f64> {
    if matches!(t, ".nan" | ".NaN" | ".NAN") {
        return Some(f64::NAN);
    }
    let (neg, rest) = if let Some(r) = t.strip_prefix('-') {
        (true, r)
    } else if let Some(r) = t.strip_prefix('+') {
        (false, r)
    } else {
        (false, t)
    };
    if matches!(rest, ".inf" | ".Inf" | ".INF") {
        return Some(if neg { f64::NEG_INFINITY } else { f64::INFINITY });
    }
    let b = rest.as_bytes();
    let mut i = 0;
    let mut mant = String::new();
    let mut fraclen: i64 = 0;
    if i < b.len() && b[i] == b'.' {
        i += 1;
        let s = i;
        while i < b.len() && b[i].is_ascii_digit() {
            mant.push(b[i] as char);
            i += 1;
        }
        if i == s {
            return None;
        }
        fraclen = (i - s) as i64;
    } else {
        let s = i;
        while i < b.len() && b[i].is_ascii_digit() {
            mant.push(b[i] as char);
            i += 1;
        }
        if i == s {
            return None;
        }
        if i < b.len() && b[i] == b'.' {
            i += 1;
            let s = i;
            while i < b.len() && b[i].is_ascii_digit() {
                mant.push(b[i] as char);
                i += 1;
            }
            fraclen = (i - s) as i64;
        }
    }
    let mut exp: i64 = 0;
    if i < b.len() && (b[i] == b'e' || b[i] == b'E') {
        i += 1;
        let mut eneg = false;
        if i < b.len() && (b[i] == b'-' || b[i] == b'+') {
            eneg = b[i] == b'-';
            i += 1;
        }
        let s = i;
        while i < b.len() && b[i].is_ascii_digit() {
            exp = (exp * 10 + (b[i] - b'0') as i64).min(1_000_000);
            i += 1;
        }
        if i == s {
            return None;
        }
        if eneg {
            exp = -exp;
        }
    }
    if i != b.len() {
        return None;
    }
    // Value.
    let std_val: f64 = t.parse::<f64>().expect("oracle: std rejects a schema float");
    let sig = mant.trim_start_matches('0');
    let e10 = exp - fraclen;
    if sig.len() <= 15 && e10.abs() <= 22 {
        let m: u64 = if sig.is_empty() { 0 } else { sig.parse().unwrap() };
        let mut v = if e10 >= 0 {
            m as f64 * POW10[e10 as usize]
        } else {
            m as f64 / POW10[(-e10) as usize]
        };
        if neg {
            v = -v;
        }
        assert_eq!(v.to_bits(), std_val.to_bits(), "oracle self-check on {t:?}");
        Some(v)
    } else {
        Some(std_val)
    }
}

/// JSON number grammar.
fn is_json_number(t: &str) -> bool {
    let b = t.as_bytes();
    let mut i = 0;
    if i < b.len() && b[i] == b'-' {
        i += 1;
    }
    if i < b.len() && b[i] == b'0' {
        i += 1;
    } else if i < b.len() && (b'1'..=b'9').contains(&b[i]) {
        while i < b.len() && b[i].is_ascii_digit() {
            i += 1;
        }
    } else {
        return false;
    }
    if i < b.len() && b[i] == b'.' {
        i += 1;
        let s = i;
        while i < b.len() && b[i].is_ascii_digit() {
            i += 1;
        }
        if s == i {
            return false;
        }
    }
    if i < b.len() && (b[i] == b'e' || b[i] == b'E') {
        i += 1;
        if i < b.len() && (b[i] == b'-' || b[i] == b'+') {
            i += 1;
        }
        let s = i;
        while i < b.len() && b[i].is_ascii_digit() {
            i += 1;
        }
        if s == i {
            return false;
        }
    }
    i == b.len()
}

/// Canonical result of resolving one scalar.
#[derive(Debug, Clone, PartialEq, Eq, PartialOrd, Ord)]
enum R {
    Null,
    Bool(bool),
    Int(i64),
    Float(u64),
    Str(String),
    Bad,
    Other(String),
}

fn r_of_scalar(s: &Scalar<'_>) -> R {
    match s {
        Scalar::Null => R::Null,
        Scalar::Boolean(b) => R::Bool(*b),
        Scalar::Integer(i) => R::Int(*i),
        Scalar::FloatingPoint(f) => R::Float(canon_bits(f.into_inner())),
        Scalar::String(s) => R::Str(s.to_string()),
    }
}
fn r_of_scalar_owned(s: &ScalarOwned) -> R {
    match s {
        ScalarOwned::Null => R::Null,
        ScalarOwned::Boolean(b) => R::Bool(*b),
        ScalarOwned::Integer(i) => R::Int(*i),
        ScalarOwned::FloatingPoint(f) => R::Float(canon_bits(f.into_inner())),
        ScalarOwned::String(s) => R::Str(s.to_string()),
    }
}
fn canon_bits(f: f64) -> u64 {
    if f.is_nan() {
        f64::NAN.to_bits()
    } else {
        f.to_bits()
    }
}

#[derive(Debug, Clone, Copy, PartialEq, Eq, PartialOrd, Ord)]
enum TagKind {
    None,
    Int,
    Float,
    Bool,
    Null,
    Str,
    Foreign,
}

/// Check a result against the property. Returns a violation description, if any.
fn check(text: &str, plain: bool, tag: TagKind, got: &R) -> Option<&'static str> {
    if !plain {
        return match got {
            R::Str(s) if s == text => None,
            _ => Some("every quoted or block scalar loads as a string with identical content"),
        };
    }
    let il = int_lit(text);
    let fl = float_lit(text);
    match tag {
        TagKind::None => match got {
            R::Null => (!is_null_lit(text)).then_some("null only if core-schema null literal"),
            R::Bool(b) => (bool_lit(text) != Some(*b)).then_some("bool only if literal / exact value"),
            R::Int(i) => (il != IntLit::Val(*i)).then_some("integer only if literal / exact value"),
            R::Float(bits) => {
                if matches!(il, IntLit::Val(_)) {
                    Some("integer within 64 bits must be recognised as integer")
                } else {
                    match fl {
                        Some(f) if canon_bits(f) == *bits => None,
                        Some(_) => Some("float with exactly the denoted value"),
                        None => Some("float only if core-schema float literal"),
                    }
                }
            }
            R::Str(s) => {
                if s != text {
                    Some("anything else loads as a string with identical content")
                } else if matches!(il, IntLit::Val(_)) {
                    Some("every decimal/0x/0o integer within 64 bits is recognised")
                } else if fl.is_some() && !text.starts_with("0x") && !text.starts_with("0o") {
                    Some("every decimal or exponent float and .inf/.nan spelling is recognised")
                } else if matches!(text, "null" | "true" | "false" | "~") {
                    Some("every JSON literal is recognised")
                } else {
                    None
                }
            }
            R::Bad | R::Other(_) => Some("untagged scalar must load as a scalar value"),
        },
        TagKind::Int => match got {
            R::Bad => {
                let decimal = !text.starts_with("0x") && !text.starts_with("0o");
                (matches!(il, IntLit::Val(_)) && decimal)
                    .then_some("decimal numbers are always accepted under their own tag")
            }
            R::Int(i) => (il != IntLit::Val(*i)).then_some("!!int value must agree with untagged reading"),
            _ => Some("under !!int: exactly that type or BadValue, never another type"),
        },
        TagKind::Float => match got {
            R::Bad => {
                let own = fl.is_some() && !matches!(il, IntLit::Val(_)) && fl.unwrap().is_finite();
                own.then_some("decimal numbers are always accepted under their own tag")
            }
            R::Float(bits) => {
                let ok = match il {
                    IntLit::Val(i) => (i as f64) == f64::from_bits(*bits),
                    IntLit::Overflow(_) if text.starts_with("0x") || text.starts_with("0o") => false,
                    _ => fl.is_some_and(|f| canon_bits(f) == *bits),
                };
                (!ok).then_some("!!float value must agree with untagged reading")
            }
            _ => Some("under !!float: exactly that type or BadValue, never another type"),
        },
        TagKind::Bool => match got {
            R::Bad => matches!(text, "true" | "false").then_some("true/false always accepted under !!bool"),
            R::Bool(b) => (bool_lit(text) != Some(*b)).then_some("!!bool value must agree with untagged reading"),
            _ => Some("under !!bool: exactly that type or BadValue, never another type"),
        },
        TagKind::Null => match got {
            R::Bad => matches!(text, "null" | "~").then_some("null/~ always accepted under !!null"),
            R::Null => (!is_null_lit(text)).then_some("!!null value must agree with untagged reading"),
            _ => Some("under !!null: exactly that type or BadValue, never another type"),
        },
        TagKind::Str | TagKind::Foreign => match got {
            R::Str(s) if s == text => None,
            _ => Some("!!str and any other tag leave a string"),
        },
    }
}

// ------------------------------------------------------------------------------------------
// Reporting
// ------------------------------------------------------------------------------------------

static REPORT: Mutex<BTreeMap<String, (usize, Vec<String>)>> = Mutex::new(BTreeMap::new());

fn report(category: String, example: String) {
    let mut r = REPORT.lock().unwrap();
    let e = r.entry(category).or_insert((0, Vec::new()));
    e.0 += 1;
    if e.1.len() < 3 {
        e.1.push(example);
    }
}

fn dump_report(name: &str) -> usize {
    let r = REPORT.lock().unwrap();
    let mut total = 0;
    for (k, (n, ex)) in r.iter() {
        println!("[{name}] {n:>9} x {k}");
        for e in ex {
            println!("              {e}");
        }
        total += n;
    }
    total
}

const ALPHABET: &[u8] = b"0123456789+-._~abcdefxonultrsiABCDEFXONULTRSI";

fn core_tag(suffix: &str) -> Tag {
    Tag {
        handle: "tag:yaml.org,2002:".into(),
        suffix: suffix.into(),
    }
}

fn tag_set() -> Vec<(TagKind, Option<Tag>)> {
    vec![
        (TagKind::None, None),
        (TagKind::Int, Some(core_tag("int"))),
        (TagKind::Float, Some(core_tag("float"))),
        (TagKind::Bool, Some(core_tag("bool"))),
        (TagKind::Null, Some(core_tag("null"))),
        (TagKind::Str, Some(core_tag("str"))),
        (
            TagKind::Foreign,
            Some(Tag {
                handle: "!".into(),
                suffix: "int".into(),
            }),
        ),
        (
            TagKind::Foreign,
            Some(Tag {
                handle: "tag:example.com,2000:".into(),
                suffix: "int".into(),
            }),
        ),
        (
            TagKind::Foreign,
            Some(Tag {
                handle: "!".into(),
                suffix: String::new(),
            }),
        ),
        // Split differently: still the core tag.
        (
            TagKind::Int,
            Some(Tag {
                handle: "tag:yaml.org,".into(),
                suffix: "2002:int".into(),
            }),
        ),
        (
            TagKind::Float,
            Some(Tag {
                handle: String::new(),
                suffix: "tag:yaml.org,2002:float".into(),
            }),
        ),
    ]
}

const STYLES: [ScalarStyle; 5] = [
    ScalarStyle::Plain,
    ScalarStyle::SingleQuoted,
    ScalarStyle::DoubleQuoted,
    ScalarStyle::Literal,
    ScalarStyle::Folded,
];

fn check_direct(text: &str, tags: &[(TagKind, Option<Tag>)], all_styles: bool, count: &mut u64) {
    for (kind, tag) in tags {
        let styles: &[ScalarStyle] = if all_styles { &STYLES } else { &STYLES[..1] };
        for &style in styles {
            let got = Scalar::parse_from_cow_and_metadata(Cow::Borrowed(text), style, tag.as_ref());
            let r = got.as_ref().map_or(R::Bad, r_of_scalar);
            *count += 1;
            if let Some(clause) = check(text, style == ScalarStyle::Plain, *kind, &r) {
                report(
                    format!("direct {kind:?} {style:?}: {clause}"),
                    format!("{text:?} tag={tag:?} -> {r:?}"),
                );
            }
            if all_styles {
                // Owned Cow and ScalarOwned must agree.
                let o = Scalar::parse_from_cow_and_metadata(
                    Cow::Owned(text.to_string()),
                    style,
                    tag.as_ref(),
                );
                let ro = o.as_ref().map_or(R::Bad, r_of_scalar);
                let so = ScalarOwned::parse_from_cow_and_metadata(Cow::Borrowed(text), style, tag.as_ref());
                let rso = so.as_ref().map_or(R::Bad, r_of_scalar_owned);
                *count += 2;
                if ro != r || rso != r {
                    report(
                        "direct: borrowed and owned scalars resolve identically".into(),
                        format!("{text:?} {style:?} {tag:?}: {r:?} / {ro:?} / {rso:?}"),
                    );
                }
            }
        }
    }
    if all_styles {
        let a = r_of_scalar(&Scalar::parse_from_cow(Cow::Borrowed(text)));
        let b = r_of_scalar_owned(&ScalarOwned::parse_from_cow(Cow::Owned(text.to_string())));
        let c = match Yaml::value_from_str(text) {
            Yaml::Value(s) => r_of_scalar(&s),
            o => R::Other(format!("{o:?}")),
        };
        let d = match Yaml::scalar_from_string(text.to_string()) {
            Yaml::Value(s) => r_of_scalar(&s),
            o => R::Other(format!("{o:?}")),
        };
        let e = match MarkedYamlOwned::value_from_str(text).data {
            YamlDataOwned::Value(s) => r_of_scalar_owned(&s),
            o => R::Other(format!("{o:?}")),
        };
        *count += 5;
        if !(a == b && b == c && c == d && d == e) {
            report(
                "direct: entry points disagree".into(),
                format!("{text:?}: {a:?} {b:?} {c:?} {d:?} {e:?}"),
            );
        }
        if let Some(clause) = check(text, true, TagKind::None, &a) {
            report(format!("direct parse_from_cow: {clause}"), format!("{text:?} -> {a:?}"));
        }
    }
}

fn for_each_text(len: usize, first: u8, f: &mut dyn FnMut(&str)) {
    // all strings of exactly `len` starting with `first`
    let n = ALPHABET.len();
    let mut idx = vec![0usize; len];
    let mut buf = vec![first; len];
    loop {
        for k in 1..len {
            buf[k] = ALPHABET[idx[k]];
        }
        f(std::str::from_utf8(&buf).unwrap());
        // increment
        let mut k = len;
        loop {
            if k == 1 {
                return;
            }
            k -= 1;
            idx[k] += 1;
            if idx[k] < n {
                break;
            }
            idx[k] = 0;
        }
        if len == 1 {
            return;
        }
    }
}

#[test]
fn direct_exhaustive() {
    let max_len: usize = std::env::var("C08_MAXLEN").ok().and_then(|s| s.parse().ok()).unwrap_or(4);
    let total = std::sync::atomic::AtomicU64::new(0);
    std::thread::scope(|s| {
        for chunk in ALPHABET.chunks(3) {
            let total = &total;
            s.spawn(move || {
                let tags = tag_set();
                let mut count = 0u64;
                for &first in chunk {
                    for len in 1..=max_len {
                        for_each_text(len, first, &mut |t| {
                            check_direct(t, &tags, len <= 3, &mut count);
                        });
                    }
                }
                total.fetch_add(count, std::sync::atomic::Ordering::Relaxed);
            });
        }
    });
    let tags = tag_set();
    let mut c = 0;
    check_direct("", &tags, true, &mut c);
    println!("direct_exhaustive: {} checks", total.into_inner() + c);
    let n = dump_report("direct_exhaustive");
    println!("direct_exhaustive: {n} violations");
    assert_eq!(n, 0);
}

// xorshift
struct Rng(u64);
impl Rng {
    fn next(&mut self) -> u64 {
        self.0 ^= self.0 << 13;
        self.0 ^= self.0 >> 7;
        self.0 ^= self.0 << 17;
        self.0
    }
    fn below(&mut self, n: usize) -> usize {
        (self.next() % n as u64) as usize
    }
}

/// Structured random texts that are near schema literals.
fn random_text(rng: &mut Rng) -> String {
    let mut s = String::new();
    match rng.below(10) {
        0 => {
            // boundary decimal integers
            let base: i128 = [1i128 << 63, -(1i128 << 63), 1i128 << 64, (1i128 << 63) - 1, 1i128 << 31, 1i128 << 32, 1i128 << 53][rng.below(7)];
            let v = base + rng.below(5) as i128 - 2;
            if rng.below(4) == 0 && v >= 0 {
                s.push('+');
            }
            for _ in 0..rng.below(3) {
                if v >= 0 { s.push('0'); }
            }
            s.push_str(&v.to_string());
        }
        1 => {
            // boundary hex / octal
            let base: u128 = [1u128 << 63, 1u128 << 64, (1u128 << 63) - 1, 1u128 << 32, u64::MAX as u128][rng.below(5)];
            let v = base + rng.below(5) as u128 - 2;
            if rng.below(6) == 0 { s.push(['+', '-'][rng.below(2)]); }
            if rng.below(2) == 0 {
                s.push_str("0x");
                for _ in 0..rng.below(3) { s.push('0'); }
                if rng.below(2) == 0 { s.push_str(&format!("{v:x}")); } else { s.push_str(&format!("{v:X}")); }
            } else {
                s.push_str("0o");
                for _ in 0..rng.below(3) { s.push('0'); }
                s.push_str(&format!("{v:o}"));
            }
        }
        2 | 3 => {
            // float-shaped
            if rng.below(3) == 0 { s.push(['+', '-'][rng.below(2)]); }
            for _ in 0..rng.below(20) { s.push((b'0' + rng.below(10) as u8) as char); }
            if rng.below(3) != 0 { s.push('.'); }
            for _ in 0..rng.below(20) { s.push((b'0' + rng.below(10) as u8) as char); }
            if rng.below(2) == 0 {
                s.push(['e', 'E'][rng.below(2)]);
                if rng.below(2) == 0 { s.push(['+', '-'][rng.below(2)]); }
                for _ in 0..rng.below(5) { s.push((b'0' + rng.below(10) as u8) as char); }
            }
        }
        4 => {
            // word-shaped
            let words = ["null", "Null", "NULL", "nULL", "true", "True", "TRUE", "tRUE", "false", "False", "FALSE", "inf", "Inf", "INF", "infinity", "Infinity", "INFINITY", "nan", "NaN", "NAN", "Nan", ".inf", ".Inf", ".INF", ".iNF", ".nan", ".NaN", ".NAN", ".Nan", ".infinity", "~", "yes", "no", "on", "off", "y", "n", "0b101", "1_000", "0x_1", "1e", "e1", "0X1F", "0O17", "017", "1:30"];
            if rng.below(3) == 0 { s.push(['+', '-'][rng.below(2)]); }
            if rng.below(8) == 0 { s.push(['+', '-'][rng.below(2)]); }
            s.push_str(words[rng.below(words.len())]);
            if rng.below(6) == 0 { s.push(ALPHABET[rng.below(ALPHABET.len())] as char); }
        }
        _ => {
            let len = 6 + rng.below(20);
            // biased towards digits
            for _ in 0..len {
                if rng.below(2) == 0 {
                    s.push((b'0' + rng.below(10) as u8) as char);
                } else {
                    s.push(ALPHABET[rng.below(ALPHABET.len())] as char);
                }
            }
        }
    }
    if s.is_empty() {
        s.push('0');
    }
    s
}

#[test]
fn direct_random() {
    let n: usize = std::env::var("C08_RANDOM").ok().and_then(|s| s.parse().ok()).unwrap_or(200_000);
    let mut rng = Rng(0x9E3779B97F4A7C15);
    let tags = tag_set();
    let mut count = 0;
    for _ in 0..n {
        let t = random_text(&mut rng);
        check_direct(&t, &tags, true, &mut count);
    }
    println!("direct_random: {count} checks");
    let v = dump_report("direct_random");
    println!("direct_random: {v} violations");
    assert_eq!(v, 0);
}

// ------------------------------------------------------------------------------------------
// Through the loader
// ------------------------------------------------------------------------------------------

#[derive(Debug, Clone, Copy, PartialEq)]
enum Path {
    Root,
    Doc1Root,
    Seq(usize),
    SeqSeq0,
    ValK,
    SeqValK,
    Key0,
    SeqKey0,
}

trait Node: Sized {
    fn seq(&self, i: usize) -> Option<&Self>;
    fn first_pair(&self) -> Option<(&Self, &Self)>;
    fn r(&self) -> R;
}

macro_rules! impl_node_plain {
    ($ty:ty, $scalar:path) => {
        impl Node for $ty {
            fn seq(&self, i: usize) -> Option<&Self> {
                self.as_sequence().and_then(|s| s.get(i))
            }
            fn first_pair(&self) -> Option<(&Self, &Self)> {
                self.as_mapping().and_then(|m| m.iter().next())
            }
            fn r(&self) -> R {
                match self {
                    Self::Value(s) => $scalar(s),
                    Self::BadValue => R::Bad,
                    o => R::Other(format!("{o:?}")),
                }
            }
        }
    };
}
impl_node_plain!(Yaml<'_>, r_of_scalar);
impl_node_plain!(YamlOwned, r_of_scalar_owned);

impl Node for MarkedYaml<'_> {
    fn seq(&self, i: usize) -> Option<&Self> {
        self.data.as_sequence().and_then(|s| s.get(i))
    }
    fn first_pair(&self) -> Option<(&Self, &Self)> {
        self.data.as_mapping().and_then(|m| m.iter().next())
    }
    fn r(&self) -> R {
        match &self.data {
            YamlData::Value(s) => r_of_scalar(s),
            YamlData::BadValue => R::Bad,
            o => R::Other(format!("{o:?}")),
        }
    }
}
impl Node for MarkedYamlOwned {
    fn seq(&self, i: usize) -> Option<&Self> {
        self.data.as_sequence().and_then(|s| s.get(i))
    }
    fn first_pair(&self) -> Option<(&Self, &Self)> {
        self.data.as_mapping().and_then(|m| m.iter().next())
    }
    fn r(&self) -> R {
        match &self.data {
            YamlDataOwned::Value(s) => r_of_scalar_owned(s),
            YamlDataOwned::BadValue => R::Bad,
            o => R::Other(format!("{o:?}")),
        }
    }
}

fn nav<N: Node>(docs: &[N], path: Path) -> Option<R> {
    let d0 = docs.first()?;
    Some(match path {
        Path::Root => d0.r(),
        Path::Doc1Root => docs.get(1)?.r(),
        Path::Seq(i) => d0.seq(i)?.r(),
        Path::SeqSeq0 => d0.seq(0)?.seq(0)?.r(),
        Path::ValK => d0.first_pair()?.1.r(),
        Path::SeqValK => d0.seq(0)?.first_pair()?.1.r(),
        Path::Key0 => d0.first_pair()?.0.r(),
        Path::SeqKey0 => d0.seq(0)?.first_pair()?.0.r(),
    })
}

struct Ctx {
    name: &'static str,
    pre: &'static str,
    post: &'static str,
    path: Path,
    /// allowed for block scalars
    block_ok: bool,
    /// Node starts at column 0 of a line.
    col0: bool,
    flow: bool,
}

const fn ctx(name: &'static str, pre: &'static str, post: &'static str, path: Path, block_ok: bool, col0: bool, flow: bool) -> Ctx {
    Ctx { name, pre, post, path, block_ok, col0, flow }
}

const CONTEXTS: &[Ctx] = &[
    ctx("root", "", "", Path::Root, true, true, false),
    ctx("root-nl", "", "\n", Path::Root, true, true, false),
    ctx("root-crlf", "", "\r\n", Path::Root, true, true, false),
    ctx("doc", "--- ", "\n", Path::Root, true, false, false),
    ctx("doc-end", "--- ", "\n...\n", Path::Root, true, false, false),
    ctx("doc-nl", "---\n", "\n", Path::Root, true, true, false),
    ctx("doc2", "Z\n--- ", "\n", Path::Doc1Root, true, false, false),
    ctx("seq", "- ", "\n", Path::Seq(0), true, false, false),
    ctx("seq-eof", "- ", "", Path::Seq(0), true, false, false),
    ctx("seq-crlf", "- ", "\r\n", Path::Seq(0), true, false, false),
    ctx("seq-cr", "- ", "\r", Path::Seq(0), true, false, false),
    ctx("seq-sp", "-    ", "   \n", Path::Seq(0), false, false, false),
    ctx("seq-tab", "-\t", "\t\n", Path::Seq(0), false, false, false),
    ctx("seq-comment", "- ", " # c\n", Path::Seq(0), false, false, false),
    ctx("seq-second", "- Z\n- ", "\n- Z\n", Path::Seq(1), true, false, false),
    ctx("seq-nl", "-\n  ", "\n", Path::Seq(0), true, false, false),
    ctx("seqseq", "- - ", "\n", Path::SeqSeq0, true, false, false),
    ctx("val", "K: ", "\n", Path::ValK, true, false, false),
    ctx("val-eof", "K: ", "", Path::ValK, true, false, false),
    ctx("val-sp", "K:    ", "  \n", Path::ValK, false, false, false),
    ctx("val-comment", "K: ", " #c\r\nV: Z\n", Path::ValK, false, false, false),
    ctx("val-nl", "K:\n  ", "\n", Path::ValK, true, false, false),
    ctx("val-nl-tab", "K:\n  ", "\t\n", Path::ValK, false, false, false),
    ctx("seqval", "- K: ", "\n", Path::SeqValK, true, false, false),
    ctx("key", "", ": V\n", Path::Key0, false, true, false),
    ctx("key-sp", "", "  : V\n", Path::Key0, false, true, false),
    ctx("qkey", "? ", "\n: V\n", Path::Key0, true, false, false),
    ctx("qkey-only", "? ", "\n", Path::Key0, true, false, false),
    ctx("seqkey", "- ", ": V\n", Path::SeqKey0, false, false, false),
    ctx("fseq", "[", "]", Path::Seq(0), false, false, true),
    ctx("fseq-sp", "[ ", " ]\n", Path::Seq(0), false, false, true),
    ctx("fseq-first", "[", ", Z]", Path::Seq(0), false, false, true),
    ctx("fseq-first2", "[", ",Z]", Path::Seq(0), false, false, true),
    ctx("fseq-last", "[Z, ", "]", Path::Seq(1), false, false, true),
    ctx("fseq-trailing", "[", ",]", Path::Seq(0), false, false, true),
    ctx("fseq-nl", "[\n  ", "\n]\n", Path::Seq(0), false, false, true),
    ctx("fmap-val", "{K: ", "}", Path::ValK, false, false, true),
    ctx("fmap-val-sp", "{ K: ", " }", Path::ValK, false, false, true),
    ctx("fmap-val-more", "{K: ", ", V: Z}", Path::ValK, false, false, true),
    ctx("fmap-jsonkey", "{\"K\":", "}", Path::ValK, false, false, true),
    ctx("fmap-key", "{", ": V}", Path::Key0, false, false, true),
    ctx("fmap-key-only", "{", "}", Path::Key0, false, false, true),
    ctx("fmap-qkey", "{? ", " : V}", Path::Key0, false, false, true),
    ctx("fseq-pair-key", "[", ": V]", Path::SeqKey0, false, false, true),
    ctx("fseq-pair-val", "[K: ", "]", Path::SeqValK, false, false, true),
    ctx("seq-fseq", "- [", "]\n", Path::SeqSeq0, false, false, true),
    ctx("val-in-fseq-in-map", "K: [", "]\n", Path::ValK, false, false, true), // path adjusted below
    ctx("comment-first", "# c\n- ", "\n", Path::Seq(0), true, false, false),
    ctx("yaml-directive", "%YAML 1.2\n--- ", "\n", Path::Root, true, false, false),
];

struct TagForm {
    name: &'static str,
    directive: &'static str,
    prefix: &'static str,
    kind: TagKind,
}

const fn tf(name: &'static str, directive: &'static str, prefix: &'static str, kind: TagKind) -> TagForm {
    TagForm { name, directive, prefix, kind }
}

const TAGFORMS: &[TagForm] = &[
    tf("none", "", "", TagKind::None),
    tf("anchor", "", "&a ", TagKind::None),
    tf("!!int", "", "!!int ", TagKind::Int),
    tf("!!float", "", "!!float ", TagKind::Float),
    tf("!!bool", "", "!!bool ", TagKind::Bool),
    tf("!!null", "", "!!null ", TagKind::Null),
    tf("!!str", "", "!!str ", TagKind::Str),
    tf("verbatim-int", "", "!<tag:yaml.org,2002:int> ", TagKind::Int),
    tf("verbatim-float", "", "!<tag:yaml.org,2002:float> ", TagKind::Float),
    tf("verbatim-str", "", "!<tag:yaml.org,2002:str> ", TagKind::Str),
    tf("named-handle-int", "%TAG !y! tag:yaml.org,2002:\n", "!y!int ", TagKind::Int),
    tf("split-handle-bool", "%TAG !y! tag:yaml.org,\n", "!y!2002:bool ", TagKind::Bool),
    tf("primary-handle-null", "%TAG ! tag:yaml.org,2002:\n", "!null ", TagKind::Null),
    tf("anchor-tag", "", "&a !!int ", TagKind::Int),
    tf("tag-anchor", "", "!!float &a ", TagKind::Float),
    tf("local", "", "!int ", TagKind::Foreign),
    tf("nonspecific", "", "! ", TagKind::Foreign),
    tf("!!foo", "", "!!foo ", TagKind::Foreign),
    tf("!!Int", "", "!!Int ", TagKind::Foreign),
    tf("!!integer", "", "!!integer ", TagKind::Foreign),
    tf("verbatim-foreign", "", "!<tag:example.com,2000:int> ", TagKind::Foreign),
    tf("verbatim-local", "", "!<!int> ", TagKind::Foreign),
    tf("redefined-secondary", "%TAG !! tag:example.com,2000:\n", "!!int ", TagKind::Foreign),
    tf("named-foreign", "%TAG !e! tag:example.com,2000:\n", "!e!float ", TagKind::Foreign),
];

#[derive(Debug, Clone, Copy, PartialEq)]
enum Sty {
    Plain,
    Single,
    Double,
    Literal,
    Folded,
}
const STYS: [Sty; 5] = [Sty::Plain, Sty::Single, Sty::Double, Sty::Literal, Sty::Folded];

fn build_doc(text: &str, c: &Ctx, tf: &TagForm, sty: Sty) -> Option<String> {
    let mut node = String::from(tf.prefix);
    match sty {
        Sty::Plain => node.push_str(text),
        Sty::Single => {
            node.push('\'');
            node.push_str(text);
            node.push('\'');
        }
        Sty::Double => {
            node.push('"');
            node.push_str(text);
            node.push('"');
        }
        Sty::Literal | Sty::Folded => {
            if !c.block_ok {
                return None;
            }
            node.push_str(if sty == Sty::Literal { "|-\n" } else { ">-\n" });
            node.push_str("      ");
            node.push_str(text);
        }
    }
    let mut pre = String::new();
    let mut cpre = c.pre;
    if !tf.directive.is_empty() {
        // a directive needs an explicit document start; only usable when the context has no
        // prelude of its own document markers
        if c.pre.starts_with("---") || c.pre.starts_with('%') || c.pre.starts_with("Z\n---") || c.pre.starts_with('\u{feff}') || c.pre.starts_with('#') {
            return None;
        }
        pre.push_str(tf.directive);
        pre.push_str("---\n");
    }
    if c.col0 && node.starts_with(' ') {
        cpre = c.pre;
    }
    Some(format!("{pre}{cpre}{node}{}", c.post))
}

/// Whether `text` as a plain scalar in this context is expected to be delivered as a single plain
/// scalar with this text (independent judgement, only for texts over ALPHABET).
fn plain_ok(text: &str, c: &Ctx, tf: &TagForm) -> bool {
    if text == "-" && !c.flow {
        return false; // block sequence entry indicator
    }
    if text == "-" && c.flow {
        return false; // "-" alone in flow: invalid ("-" must be followed by a safe char)
    }
    if c.col0 && tf.prefix.is_empty() && (text == "---" || text == "...") {
        return false;
    }
    true
}

fn events_of(doc: &str) -> Result<Vec<Event<'_>>, String> {
    let mut out = Vec::new();
    for ev in Parser::new_from_str(doc) {
        match ev {
            Ok((e, _)) => out.push(e),
            Err(e) => return Err(e.to_string()),
        }
    }
    Ok(out)
}

fn expected_full_tag(tf: &TagForm) -> Option<String> {
    Some(
        match tf.name {
            "none" | "anchor" => return None,
            "!!int" | "verbatim-int" | "named-handle-int" | "anchor-tag" => "tag:yaml.org,2002:int",
            "!!float" | "verbatim-float" | "tag-anchor" => "tag:yaml.org,2002:float",
            "!!bool" | "split-handle-bool" => "tag:yaml.org,2002:bool",
            "!!null" | "primary-handle-null" => "tag:yaml.org,2002:null",
            "!!str" | "verbatim-str" => "tag:yaml.org,2002:str",
            "local" | "verbatim-local" => "!int",
            "nonspecific" => "!",
            "!!foo" => "tag:yaml.org,2002:foo",
            "!!Int" => "tag:yaml.org,2002:Int",
            "!!integer" => "tag:yaml.org,2002:integer",
            "verbatim-foreign" | "redefined-secondary" => "tag:example.com,2000:int",
            "named-foreign" => "tag:example.com,2000:float",
            _ => unreachable!(),
        }
        .to_string(),
    )
}

fn check_loaded(text: &str, c: &Ctx, tf: &TagForm, sty: Sty, count: &mut u64) {
    let Some(doc) = build_doc(text, c, tf, sty) else { return };
    let path = if c.name == "val-in-fseq-in-map" { None } else { Some(c.path) };
    let label = || format!("ctx={} tag={} sty={sty:?}", c.name, tf.name);
    // An implicit key is limited to 1024 characters (YAML 1.2.2 section 7.4.2 / 8.2.2).
    let implicit_key = matches!(c.name, "key" | "key-sp" | "seqkey" | "fseq-pair-key" | "fmap-key" | "padded-key");
    let expect_ok = (sty != Sty::Plain || plain_ok(text, c, tf)) && !(implicit_key && text.len() > 900);
    *count += 1;

    // 1. event level
    let evs = events_of(&doc);
    let evs = match evs {
        Ok(e) => e,
        Err(e) => {
            if expect_ok {
                report(format!("PARSER rejects: {} ({e})", label()), format!("{doc:?}"));
            }
            return;
        }
    };
    let scalars: Vec<_> = evs
        .iter()
        .filter_map(|e| match e {
            Event::Scalar(v, s, _, t) if !matches!(&**v, "K" | "V" | "Z") || v == text => Some((v.to_string(), *s, t.clone())),
            _ => None,
        })
        .collect();
    let want_style = match sty {
        Sty::Plain => ScalarStyle::Plain,
        Sty::Single => ScalarStyle::SingleQuoted,
        Sty::Double => ScalarStyle::DoubleQuoted,
        Sty::Literal => ScalarStyle::Literal,
        Sty::Folded => ScalarStyle::Folded,
    };
    // Filter out the "~" the parser synthesises for empty nodes (qkey-only / fmap-key-only).
    let ours: Vec<_> = scalars.iter().filter(|(v, s, _)| v == text && *s == want_style).collect();
    if ours.is_empty() {
        if expect_ok {
            report(format!("PARSER does not deliver the text: {}", label()), format!("{doc:?} -> {scalars:?}"));
        }
        return;
    }
    if expect_ok {
        let full = ours[0].2.as_ref().map(|t| format!("{}{}", t.handle, t.suffix));
        if full != expected_full_tag(tf) {
            report(format!("PARSER tag differs: {}", label()), format!("{doc:?} -> {:?}", ours[0].2));
        }
    } else {
        return;
    }

    // 2. loaders
    let Some(path) = path else {
        // K: [x] -> value is seq
        let docs = Yaml::load_from_str(&doc).unwrap();
        let r = docs[0].first_pair().and_then(|p| p.1.seq(0)).map(Node::r);
        match r {
            Some(r) => {
                if let Some(clause) = check(text, sty == Sty::Plain, tf.kind, &r) {
                    report(format!("LOADED {}: {clause}", label()), format!("{doc:?} -> {r:?}"));
                }
            }
            None => report(format!("NAV failed {}", label()), format!("{doc:?} -> {docs:?}")),
        }
        return;
    };
    let a = Yaml::load_from_str(&doc).map(|d| nav(&d, path));
    let b = {
        let mut p = Parser::new_from_str(&doc);
        Yaml::load_from_parser(&mut p).map(|d| nav(&d, path))
    };
    let cc = YamlOwned::load_from_str(&doc).map(|d| nav(&d, path));
    let d = MarkedYaml::load_from_str(&doc).map(|d| nav(&d, path));
    let e = MarkedYamlOwned::load_from_str(&doc).map(|d| nav(&d, path));
    let f = {
        let mut p = Parser::new_from_str(&doc);
        let mut l: YamlLoader<'_, Yaml<'_>> = YamlLoader::default();
        l.early_parse(false);
        p.load(&mut l, true).map(|()| {
            let mut docs = l.into_documents();
            for d in &mut docs {
                d.parse_representation_recursive();
            }
            nav(&docs, path)
        })
    };
    let g = {
        let mut p = Parser::new_from_iter(doc.chars());
        let mut l: YamlLoader<'_, YamlOwned> = YamlLoader::default();
        l.early_parse(false);
        p.load(&mut l, true).map(|()| {
            let mut docs = l.into_documents();
            for d in &mut docs {
                d.parse_representation_recursive();
            }
            nav(&docs, path)
        })
    };
    let all = [&a, &b, &cc, &d, &e, &f, &g];
    let first = match &a {
        Ok(Some(r)) => r.clone(),
        Ok(None) => {
            report(format!("NAV failed {}", label()), format!("{doc:?} -> {:?}", Yaml::load_from_str(&doc)));
            return;
        }
        Err(e) => {
            report(format!("LOAD error {}", label()), format!("{doc:?} -> {e}"));
            return;
        }
    };
    for (i, x) in all.iter().enumerate() {
        match x {
            Ok(Some(r)) if *r == first => {}
            other => report(
                format!("LOADERS disagree (borrowed and owned resolve identically) {} loader#{i}", label()),
                format!("{doc:?} -> {first:?} vs {other:?}"),
            ),
        }
    }
    REACHED.fetch_add(1, std::sync::atomic::Ordering::Relaxed);
    if let Some(clause) = check(text, sty == Sty::Plain, tf.kind, &first) {
        report(format!("LOADED {}: {clause}", label()), format!("{doc:?} -> {first:?}"));
    }
}
static REACHED: std::sync::atomic::AtomicU64 = std::sync::atomic::AtomicU64::new(0);

#[test]
fn oracle_self_test() {
    let inf = R::Float(f64::INFINITY.to_bits());
    assert!(check("inf", true, TagKind::None, &inf).is_some());
    assert!(check(".inf", true, TagKind::None, &inf).is_none());
    assert!(check("0x-1", true, TagKind::None, &R::Int(-1)).is_some());
    assert!(check("+-1", true, TagKind::None, &R::Int(-1)).is_some());
    assert!(check("12", true, TagKind::None, &R::Str("12".into())).is_some());
    assert!(check("12", true, TagKind::None, &R::Float(12f64.to_bits())).is_some());
    assert!(check("1e3", true, TagKind::None, &R::Str("1e3".into())).is_some());
    assert!(check("1e3", true, TagKind::Int, &R::Float(1e3f64.to_bits())).is_some());
    assert!(check("1e3", true, TagKind::Int, &R::Bad).is_none());
    assert!(check("12", true, TagKind::Int, &R::Bad).is_some());
    assert!(check("12", true, TagKind::Str, &R::Int(12)).is_some());
    assert!(check("12", false, TagKind::None, &R::Int(12)).is_some());
    assert!(check("nan", true, TagKind::Float, &R::Float(f64::NAN.to_bits())).is_some());
    assert!(check("True", true, TagKind::None, &R::Str("True".into())).is_none());
    assert!(check("True", true, TagKind::None, &R::Bool(true)).is_none());
    assert!(check("yes", true, TagKind::None, &R::Bool(true)).is_some());
}

fn loaded_for_text(text: &str, full: bool, count: &mut u64, rng: &mut Rng) {
    if full {
        for c in CONTEXTS {
            for tf in TAGFORMS {
                for sty in STYS {
                    check_loaded(text, c, tf, sty, count);
                }
            }
        }
    } else {
        // a random selection
        for _ in 0..6 {
            let c = &CONTEXTS[rng.below(CONTEXTS.len())];
            let tf = &TAGFORMS[rng.below(TAGFORMS.len())];
            let sty = if rng.below(2) == 0 { Sty::Plain } else { STYS[rng.below(5)] };
            check_loaded(text, c, tf, sty, count);
        }
    }
}

#[test]
fn loaded_curated() {
    // every context x tag form x style on a curated list of texts
    let texts = [
        "0", "1", "-1", "+1", "007", "12", "0x1F", "0xff", "0o17", "0o8", "0x", "0o", "-0x1", "0x-1", "+0x1", "0x+1", "1.5", "-1.5", "+1.5", "1.", ".5", "-.5", "+.5", ".", "1e3", "1E3", "1e+3", "1e-3", "1.e3", ".5e3", "1e", "e3", ".e3", "1.5e", ".inf", ".Inf", ".INF", "-.inf", "+.inf", "-.Inf", "+.INF", ".iNf", ".nan", ".NaN", ".NAN", "-.nan", "+.nan", ".Nan", "inf", "Inf", "-inf", "+inf", "nan", "NaN", "-nan", "infinity", "Infinity", "-infinity", "INFINITY", "null", "Null", "NULL", "nULL", "~", "~~", "true", "True", "TRUE", "tRUE", "false", "False", "FALSE", "yes", "no", "on", "off", "y", "n", "1_000", "0b11", "9223372036854775807", "9223372036854775808", "-9223372036854775808", "-9223372036854775809", "+9223372036854775807", "0x7FFFFFFFFFFFFFFF", "0x8000000000000000", "0xFFFFFFFFFFFFFFFF", "0x10000000000000000", "0o777777777777777777777", "0o1000000000000000000000", "0o1777777777777777777777", "1e400", "-1e400", "1e-400", "0.1", "00.1", "-0", "-0.0", "+-1", "-+1", "--1", "++1", "1-", "1+", "-", "--", "---", "----", "...", "....", "..", "a", "abc", "1a", "a1", "0xg", "0XFF", "0O7", "1e1e1", "1.2.3", "1..2", "_", "_1", "1_", "e", "E", "x", "o", ".e", ".E1",
    ];
    let mut count = 0;
    let mut rng = Rng(7);
    for t in texts {
        loaded_for_text(t, true, &mut count, &mut rng);
    }
    println!("loaded_curated: {count} documents, {} fully checked", REACHED.load(std::sync::atomic::Ordering::Relaxed));
    let v = dump_report("loaded_curated");
    println!("loaded_curated: {v} reports");
    assert_eq!(v, 0);
}

#[test]
fn loaded_exhaustive_short() {
    let max_len: usize = std::env::var("C08_LMAXLEN").ok().and_then(|s| s.parse().ok()).unwrap_or(2);
    let full_len: usize = std::env::var("C08_LFULL").ok().and_then(|s| s.parse().ok()).unwrap_or(1);
    let total = std::sync::atomic::AtomicU64::new(0);
    std::thread::scope(|s| {
        for chunk in ALPHABET.chunks(3) {
            let total = &total;
            s.spawn(move || {
                let mut count = 0u64;
                let mut rng = Rng(chunk[0] as u64 * 77 + 1);
                for &first in chunk {
                    for len in 1..=max_len {
                        for_each_text(len, first, &mut |t| {
                            loaded_for_text(t, len <= full_len, &mut count, &mut rng);
                        });
                    }
                }
                total.fetch_add(count, std::sync::atomic::Ordering::Relaxed);
            });
        }
    });
    println!("loaded_exhaustive_short: {} documents, {} fully checked", total.into_inner(), REACHED.load(std::sync::atomic::Ordering::Relaxed));
    let v = dump_report("loaded_exhaustive_short");
    println!("loaded_exhaustive_short: {v} reports");
    assert_eq!(v, 0);
}

#[test]
fn loaded_random() {
    let n: usize = std::env::var("C08_LRANDOM").ok().and_then(|s| s.parse().ok()).unwrap_or(20_000);
    let total = std::sync::atomic::AtomicU64::new(0);
    std::thread::scope(|s| {
        for th in 0..16u64 {
            let total = &total;
            s.spawn(move || {
                let mut rng = Rng(0xABCDEF12345 + th * 0x1000193);
                let mut count = 0;
                for _ in 0..n / 16 {
                    let t = random_text(&mut rng);
                    loaded_for_text(&t, false, &mut count, &mut rng);
                }
                total.fetch_add(count, std::sync::atomic::Ordering::Relaxed);
            });
        }
    });
    println!("loaded_random: {} documents, {} fully checked", total.into_inner(), REACHED.load(std::sync::atomic::Ordering::Relaxed));
    let v = dump_report("loaded_random");
    println!("loaded_random: {v} reports");
    assert_eq!(v, 0);
}

#[test]
fn direct_unicode_and_long() {
    let tags = tag_set();
    let mut count = 0;
    let lits = [
        "0", "12", "-12", "+12", "0x1F", "0o17", "1.5", "-1.5", ".5", "1.", "1e3", "1E-3", ".inf", "-.inf", "+.Inf", ".nan", ".NaN", "null", "Null", "NULL", "~", "true", "True", "TRUE", "false", "False", "FALSE", "inf", "nan", "infinity",
    ];
    let odd = [
        "\u{feff}", "\u{a0}", "\u{85}", "\u{2028}", "\u{2029}", " ", "\t", "\n", "\r", "\r\n", "\0", "\u{200b}", "\u{ff11}", "\u{663}", "\u{2212}", "\u{130}", "\u{131}", "\u{212a}", "\u{17f}", "\u{c9}", "\u{1f600}", "\u{301}", "\u{7f}", "\u{1b}", "\u{ff0b}", "\u{ff0e}", "\u{ff45}", "_", ",", "'", "\"",
    ];
    for l in lits {
        for o in odd {
            for pos in 0..=l.len() {
                let mut t = String::from(&l[..pos]);
                t.push_str(o);
                t.push_str(&l[pos..]);
                check_direct(&t, &tags, true, &mut count);
            }
            // replacement of one char
            for pos in 0..l.len() {
                let mut t = String::from(&l[..pos]);
                t.push_str(o);
                t.push_str(&l[pos + 1..]);
                check_direct(&t, &tags, true, &mut count);
            }
        }
    }
    // Unicode case-folding traps
    for t in ["fal\u{17f}e", "FAL\u{17f}E", "\u{ff54}rue", "nul\u{ff4c}", ".\u{131}nf", ".\u{130}NF", ".\u{ff49}nf", "\u{ff10}", "\u{661}\u{662}", "0x\u{ff11}", "0\u{ff58}1", "1\u{ff45}3", "\u{221e}", "-\u{221e}", "NaN", "\u{bd}", "\u{b2}", "\u{2460}", "\u{2167}"] {
        check_direct(t, &tags, true, &mut count);
    }
    for n in [14usize, 15, 16, 17, 18, 19, 20, 30, 31, 32, 33, 62, 63, 64, 65, 126, 127, 128, 129, 307, 308, 309, 310, 1022, 1023, 1024, 1025, 5000, 70000] {
        let z = "0".repeat(n);
        let nines = "9".repeat(n);
        let ones = "1".repeat(n);
        let f = "f".repeat(n);
        let sevens = "7".repeat(n);
        for t in [
            format!("{z}1"), format!("-{z}1"), format!("+{z}1"), format!("0x{z}1f"), format!("0o{z}17"), format!("{z}1.5"), format!("1.{z}1"), format!("1e{z}5"), format!("1e-{z}5"), format!("1e+{z}5"), format!("0.{z}1"), format!(".{z}1"), format!("{z}.{z}"), format!("{z}."), format!(".{z}"), format!("{z}e{z}"), nines.clone(), format!("-{nines}"), format!("+{nines}"), format!("{nines}.{nines}"), format!(".{nines}"), format!("{nines}e-{n}"), format!("1e{n}"), format!("1e-{n}"), format!("-1e{n}"), ones.clone(), format!("0x{f}"), format!("0o{sevens}"), format!("0x{z}"), format!("0o{z}"), format!("0x{z}7fffffffffffffff"), format!("0x{z}8000000000000000"), format!("0o{z}777777777777777777777"), format!("0o{z}1000000000000000000000"), format!("{z}9223372036854775807"), format!("{z}9223372036854775808"), format!("-{z}9223372036854775808"), format!("-{z}9223372036854775809"), format!("1{z}"), format!("1{z}.{z}e-{n}"),
        ] {
            check_direct(&t, &tags, true, &mut count);
        }
    }
    println!("direct_unicode_and_long: {count} checks");
    let v = dump_report("direct_unicode_and_long");
    println!("direct_unicode_and_long: {v} violations");
    assert_eq!(v, 0);
}

#[test]
fn loaded_long_and_padded() {
    let mut count = 0;
    let mut rng = Rng(99);
    // long plain scalars through every context
    for n in [13usize, 14, 15, 16, 17, 30, 31, 32, 33, 126, 127, 128, 129, 1022, 1023, 1024, 1025, 4095, 4096, 4097] {
        let z = "0".repeat(n);
        for t in [format!("{z}1"), format!("-{z}1"), format!("0x{z}1f"), format!("1.{z}1"), format!("1e-{z}5"), "9".repeat(n), format!("{z}a"), format!("0o{z}8")] {
            loaded_for_text(&t, true, &mut count, &mut rng);
        }
    }
    println!("long: {count}");
    // a fixed set of scalars at every offset 0..300 from the start of the input
    let texts = ["12", "-12", "0x1F", "0o17", "1.5e3", ".inf", "-.INF", ".nan", "null", "~", "true", "false", "inf", "0x-1", "+-1", "1_0", "9223372036854775807", "9223372036854775808", "-9223372036854775808"];
    let tfs: Vec<&TagForm> = TAGFORMS.iter().collect();
    for pad in 0..300usize {
        for (pre_t, post, path) in [("- ", "\n", Path::Seq(0)), ("K: ", "\n", Path::ValK), ("[", "]", Path::Seq(0)), ("", ": V\n", Path::Key0)] {
            let pre: &'static str = Box::leak(format!("#{}\n{pre_t}", "c".repeat(pad)).into_boxed_str());
            let c = Ctx { name: if path == Path::Key0 { "padded-key" } else { "padded" }, pre, post, path, block_ok: false, col0: false, flow: pre_t == "[" };
            for t in texts {
                for tf in &tfs {
                    if !tf.directive.is_empty() {
                        continue;
                    }
                    for sty in [Sty::Plain, Sty::Single, Sty::Double] {
                        check_loaded(t, &c, tf, sty, &mut count);
                    }
                }
            }
        }
    }
    println!("loaded_long_and_padded: {count} documents, {} fully checked", REACHED.load(std::sync::atomic::Ordering::Relaxed));
    let v = dump_report("loaded_long_and_padded");
    println!("loaded_long_and_padded: {v} reports");
    assert_eq!(v, 0);
}

fn random_node(rng: &mut Rng) -> (String, TagKind) {
    let frag_plain = ["12", "-3", "0x1F", "0o7", "1.5", ".inf", ".nan", "null", "~", "true", "false", "a", "b c", "1 2", "é", "\u{85}", "\u{2028}", "x:y", "a#b", "-", "?x", ":x", "1e3", "+.INF", "\u{1f600}", "\u{a0}", "0x", "_"];
    let esc = ["\\n", "\\t", "\\x41", "\\u00e9", "\\U0001F600", "\\\"", "\\\\", "\\/", "\\N", "\\_", "\\L", "\\P", "\\e", "\\0", "\\a", "\\b", "\\v", "\\f", "\\r", "\\ ", "\\\t", "\\\n      ", "\n      ", "\n\n      ", " ", "\t", "12", "0x1F", "true", "null", "é", "\u{85}", "\u{2028}", "\u{feff}", "'", "#", ": ", "- ", "{", "]"];
    let tags = [("", TagKind::None), ("", TagKind::None), ("", TagKind::None), ("!!int ", TagKind::Int), ("!!float ", TagKind::Float), ("!!bool ", TagKind::Bool), ("!!null ", TagKind::Null), ("!!str ", TagKind::Str), ("!x ", TagKind::Foreign), ("! ", TagKind::Foreign), ("&a ", TagKind::None), ("!!binary ", TagKind::Foreign), ("!!timestamp ", TagKind::Foreign)];
    let (tp, tk) = tags[rng.below(tags.len())];
    let mut s = String::from(tp);
    match rng.below(6) {
        0 => {
            // plain, possibly multi-line
            s.push_str(frag_plain[rng.below(frag_plain.len())]);
            for _ in 0..rng.below(3) {
                match rng.below(4) {
                    0 => s.push_str("\n      "),
                    1 => s.push_str("\n\n      "),
                    2 => s.push(' '),
                    _ => {}
                }
                s.push_str(frag_plain[rng.below(frag_plain.len())]);
            }
            if rng.below(4) == 0 {
                s.push_str(" # c");
            }
        }
        1 => {
            s.push('\'');
            for _ in 0..rng.below(5) {
                let f = esc[rng.below(esc.len())];
                if f == "'" { s.push_str("''"); } else { s.push_str(f); }
            }
            s.push('\'');
        }
        2 | 3 => {
            s.push('"');
            for _ in 0..rng.below(6) {
                let f = esc[rng.below(esc.len())];
                s.push_str(f);
            }
            s.push('"');
        }
        _ => {
            s.push(['|', '>'][rng.below(2)]);
            s.push_str(["", "-", "+", "2", "2-", "+2", "-2"][rng.below(7)]);
            if rng.below(5) == 0 { s.push_str(" # c"); }
            s.push('\n');
            let explicit = s.contains('2');
            for i in 0..1 + rng.below(4) {
                if i > 0 && rng.below(4) == 0 { s.push('\n'); continue; }
                s.push_str("   "); // 1 (seq) + 2
                if !explicit || rng.below(2) == 0 { if !explicit { s.push_str("  "); } else if rng.below(3) == 0 { s.push_str("  "); } }
                let f = frag_plain[rng.below(frag_plain.len())];
                s.push_str(f);
                if rng.below(3) == 0 { s.push_str(" \t"); }
                s.push('\n');
            }
            while s.ends_with('\n') { s.pop(); }
            for _ in 0..rng.below(3) { s.push('\n'); }
        }
    }
    (s, tk)
}

#[test]
fn differential_flat_sequences() {
    let n: usize = std::env::var("C08_DIFF").ok().and_then(|s| s.parse().ok()).unwrap_or(100_000);
    let total_nodes = std::sync::atomic::AtomicU64::new(0);
    let total_docs = std::sync::atomic::AtomicU64::new(0);
    let rejected = std::sync::atomic::AtomicU64::new(0);
    std::thread::scope(|s| {
        for th in 0..16u64 {
            let (total_nodes, total_docs, rejected) = (&total_nodes, &total_docs, &rejected);
            s.spawn(move || {
                let mut rng = Rng(0x51ED270B + th * 7919);
                for _ in 0..n / 16 {
                    let k = 1 + rng.below(6);
                    let mut doc = String::new();
                    let mut kinds = Vec::new();
                    let nl = ["\n", "\r\n", "\n"][rng.below(3)];
                    for _ in 0..k {
                        let (node, kind) = random_node(&mut rng);
                        doc.push_str("- ");
                        doc.push_str(&node.replace('\n', nl));
                        doc.push_str(nl);
                        kinds.push(kind);
                    }
                    total_docs.fetch_add(1, std::sync::atomic::Ordering::Relaxed);
                    let Ok(evs) = events_of(&doc) else {
                        rejected.fetch_add(1, std::sync::atomic::Ordering::Relaxed);
                        continue;
                    };
                    let scalars: Vec<_> = evs
                        .iter()
                        .filter_map(|e| match e {
                            Event::Scalar(v, s, _, t) => Some((v.to_string(), *s, t.clone())),
                            _ => None,
                        })
                        .collect();
                    let structural = evs.iter().filter(|e| matches!(e, Event::SequenceStart(..) | Event::MappingStart(..) | Event::Alias(_))).count();
                    if structural != 1 || scalars.len() != k {
                        // the random content created extra structure; skip
                        rejected.fetch_add(1, std::sync::atomic::Ordering::Relaxed);
                        continue;
                    }
                    let a = Yaml::load_from_str(&doc).unwrap();
                    let b = {
                        let mut p = Parser::new_from_str(&doc);
                        Yaml::load_from_parser(&mut p).unwrap()
                    };
                    let c = YamlOwned::load_from_str(&doc).unwrap();
                    let d = {
                        let mut p = Parser::new_from_str(&doc);
                        let mut l: YamlLoader<'_, YamlOwned> = YamlLoader::default();
                        l.early_parse(false);
                        p.load(&mut l, true).unwrap();
                        let mut docs = l.into_documents();
                        for d in &mut docs {
                            d.parse_representation_recursive();
                        }
                        docs
                    };
                    for (i, (text, style, tag)) in scalars.iter().enumerate() {
                        let ra = nav(&a, Path::Seq(i)).unwrap();
                        let rb = nav(&b, Path::Seq(i)).unwrap();
                        let rc = nav(&c, Path::Seq(i)).unwrap();
                        let rd = nav(&d, Path::Seq(i)).unwrap();
                        if ra != rb || ra != rc || ra != rd {
                            report("DIFF loaders disagree".into(), format!("{doc:?} #{i}: {ra:?} {rb:?} {rc:?} {rd:?}"));
                        }
                        // the kind as seen from the event's tag
                        let kind = match tag {
                            None => TagKind::None,
                            Some(t) => match format!("{}{}", t.handle, t.suffix).as_str() {
                                "tag:yaml.org,2002:int" => TagKind::Int,
                                "tag:yaml.org,2002:float" => TagKind::Float,
                                "tag:yaml.org,2002:bool" => TagKind::Bool,
                                "tag:yaml.org,2002:null" => TagKind::Null,
                                "tag:yaml.org,2002:str" => TagKind::Str,
                                _ => TagKind::Foreign,
                            },
                        };
                        if kind != kinds[i] {
                            report("DIFF tag kind differs from source".into(), format!("{doc:?} #{i}: {tag:?} vs {:?}", kinds[i]));
                        }
                        // the empty untagged node is delivered as "~"
                        if let Some(clause) = check(text, *style == ScalarStyle::Plain, kind, &ra) {
                            report(format!("DIFF {clause}"), format!("{doc:?} #{i}: ev=({text:?},{style:?},{tag:?}) -> {ra:?}"));
                        }
                        total_nodes.fetch_add(1, std::sync::atomic::Ordering::Relaxed);
                    }
                }
            });
        }
    });
    println!("differential_flat_sequences: {} docs, {} skipped, {} nodes checked", total_docs.into_inner(), rejected.into_inner(), total_nodes.into_inner());
    let v = dump_report("differential_flat_sequences");
    println!("differential_flat_sequences: {v} reports");
    assert_eq!(v, 0);
}

// ------------------------------------------------------------------------------------------
// Observations: behaviour the statement leaves open (documented, not counted as findings).
// ------------------------------------------------------------------------------------------

/// An empty node loads as Null (`- `), but an empty node that carries an anchor and no tag
/// (`- &a`) loads as `String("")`. The statement does not list the empty literal among the
/// spellings that must be recognised, and `String("")` has "identical content", so both are
/// allowed; the two readings of the same (empty) text differ, though.
#[test]
fn observation_anchored_empty_node() {
    let d = Yaml::load_from_str("- \n- &a\n- &b # c\n").unwrap();
    let r: Vec<R> = (0..3).map(|i| nav(&d, Path::Seq(i)).unwrap()).collect();
    println!("observation_anchored_empty_node: {r:?}");
    for x in &r {
        assert!(matches!(x, R::Null) || *x == R::Str(String::new()));
    }
}

/// `0x8000000000000000` ..= `0xFFFFFFFFFFFFFFFF` (and the octal equivalents) need 64 bits but do
/// not fit `i64`; they load as strings with identical content. "within 64 bits" is read as the
/// signed range that `Scalar::Integer(i64)` can hold ("boundary integers around +-2^63").
#[test]
fn observation_unsigned_64_bit_hex() {
    for t in ["0x8000000000000000", "0xFFFFFFFFFFFFFFFF", "0o1000000000000000000000", "0o1777777777777777777777"] {
        let r = r_of_scalar(&Scalar::parse_from_cow(t.into()));
        println!("observation_unsigned_64_bit_hex: {t} -> {r:?}");
        assert_eq!(r, R::Str(t.to_string()));
    }
    assert_eq!(r_of_scalar(&Scalar::parse_from_cow("0x7FFFFFFFFFFFFFFF".into())), R::Int(i64::MAX));
    assert_eq!(r_of_scalar(&Scalar::parse_from_cow("0o777777777777777777777".into())), R::Int(i64::MAX));
}

/// Under their own tag only the guaranteed spellings are accepted: `!!null NULL`, `!!bool True`,
/// `!!int 0x1F`, `!!int 0o17` and an empty `!!null` node are BadValue although the untagged
/// readings are Null / (string) / 31 / 15 / Null. The statement allows "or BadValue" here.
#[test]
fn observation_tagged_rejections() {
    let d = Yaml::load_from_str("- !!null NULL\n- !!bool True\n- !!int 0x1F\n- !!int 0o17\n- !!null\n- !!float 0x1F\n").unwrap();
    for i in 0..6 {
        assert_eq!(nav(&d, Path::Seq(i)).unwrap(), R::Bad);
    }
}
