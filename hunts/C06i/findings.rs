// C06 — ill-formed YAML must be rejected with an error, never silently accepted.
//
// Drop into saphyr/tests/. One #[test] per finding; each FAILS on the unmodified library because
// of the violation (it asserts the behaviour the property requires).
//
// Finding 1 (clause "a closing bracket that does not match the open one"):
//   `[a: b}, {c: d ]` is delivered as the complete event stream of `[{a: b}, {c: d}]`.
//   The `}` closes the *implicit* single-pair mapping the scanner opened for `a: b` inside the
//   sequence, and the `]` first emits the scanner's synthetic FlowMappingEnd for that same implicit
//   mapping, which the parser then uses to close the real `{`.
//
// Finding 2 (call sequence; clauses "an alias with no preceding anchor", "a named tag handle that
// was never declared", "a repeated %YAML directive", "directives without a following '---'"):
//   the errors raised by the parser (as opposed to the scanner) are delivered once and the
//   iterator then carries on: pulling further events after the `Err` (or `parser.flatten()`)
//   completes the stream up to `StreamEnd`, with the offending node / directive dropped.
//   (Weaker than finding 1: an error IS yielded; what is violated is "instead of a complete
//   event stream". `Parser::load` and `Yaml::load_from_str` stop at the error and are fine.)

use saphyr::{LoadableYamlNode, MarkedYaml, Yaml};
use saphyr_parser::{BufferedInput, Event, EventReceiver, Parser, StrInput};

struct Sink(Vec<String>);
impl<'a> EventReceiver<'a> for Sink {
    fn on_event(&mut self, ev: Event<'a>) {
        self.0.push(format!("{ev:?}"));
    }
}

/// The API paths that deliver a complete result (no error) for `s`.
fn accepting_paths(s: &str) -> Vec<&'static str> {
    let mut acc = vec![];
    if Parser::new(StrInput::new(s)).all(|e| e.is_ok()) {
        acc.push("Parser<StrInput> iteration");
    }
    if Parser::new(BufferedInput::new(s.chars())).all(|e| e.is_ok()) {
        acc.push("Parser<BufferedInput> iteration");
    }
    let mut sink = Sink(vec![]);
    if Parser::new_from_str(s).load(&mut sink, true).is_ok() {
        acc.push("Parser::load(_, true)");
    }
    if Yaml::load_from_str(s).is_ok() {
        acc.push("Yaml::load_from_str");
    }
    if MarkedYaml::load_from_str(s).is_ok() {
        acc.push("MarkedYaml::load_from_str");
    }
    acc
}

#[test]
fn c06_mismatched_flow_brackets_are_rejected() {
    // Controls: well-formed neighbours are accepted, singly damaged ones are rejected.
    for ok in ["[a: b, {c: d }]", "[{a: b}, {c: d }]", "[a: b]", "[:,{}]"] {
        assert!(!accepting_paths(ok).is_empty(), "control {ok:?} should load");
    }
    for bad in ["[a: b}", "[a: b}]", "[a: b], {c: d ]", "[a: b}, {c: d }", "{c: d ]", "[a}"] {
        assert!(accepting_paths(bad).is_empty(), "control {bad:?} should be an error");
    }

    // The finding: `[` is closed by `}` and `{` is closed by `]`.
    let ill_formed = [
        "[a: b}, {c: d ]",
        "[:},{]",
        "[\"a\":b},{c]",
        "[a: b}\n,\n{c: d\n]\n",
        "k: [a: b}, {c: d ]\n",
        "- [a: b}, {c: d ]\n- x\n",
        "{ k: [a: b}, {c: d ] }",
        "--- [a: b}, {c: d ]\n--- ok\n",
        "[a: b}, [c], {d ]",
        "[\"q\": !t  },{ ? ] ",
    ];
    let mut accepted = vec![];
    for s in ill_formed {
        let acc = accepting_paths(s);
        if !acc.is_empty() {
            accepted.push(format!("{s:?} accepted by {acc:?}"));
        }
    }
    assert!(
        accepted.is_empty(),
        "closing brackets that do not match the open ones were accepted:\n{}",
        accepted.join("\n")
    );
}

/// Events obtained by a consumer that keeps pulling after an `Err` (what `parser.flatten()` or
/// `filter_map(Result::ok)` does), bounded so that a repeating error terminates.
fn events_ignoring_errors(s: &str) -> (usize, Vec<String>) {
    let mut p = Parser::new_from_str(s);
    let mut errors = 0;
    let mut events = vec![];
    while let Some(item) = p.next_event() {
        match item {
            Ok((ev, _)) => events.push(format!("{ev:?}")),
            Err(_) => {
                errors += 1;
                if errors > 100 {
                    break;
                }
            }
        }
    }
    (errors, events)
}

#[test]
fn c06_no_complete_event_stream_once_an_error_was_raised() {
    // Control: scanner-level errors stick (the error repeats, `StreamEnd` never comes).
    for s in ["\"\\q\"", "[a}", "a\n... x\n", "\"abc"] {
        let (errors, events) = events_ignoring_errors(s);
        assert!(errors > 0);
        assert_ne!(events.last().map(String::as_str), Some("StreamEnd"), "{s:?}");
    }

    let ill_formed = [
        // an alias with no preceding anchor
        "[*x, b]",
        "a: *x\nb: c\n",
        "&x a\n---\n*x\n",
        // a named tag handle that was never declared
        "[!zz!t a, b]",
        "%TAG !e! tag:e,2000:\n--- !e!t a\n--- !e!t b\n",
        // a repeated %YAML directive
        "%YAML 1.2\n%YAML 1.2\n---\na\n",
        // directives without a following '---'
        "%YAML 1.2\na: b\n",
        "a\n...\n%YAML 1.2\n",
    ];
    let mut completed = vec![];
    for s in ill_formed {
        let (errors, events) = events_ignoring_errors(s);
        assert!(errors > 0, "{s:?} must raise an error");
        if events.last().map(String::as_str) == Some("StreamEnd") {
            completed.push(format!("{s:?}: {errors} error(s), then the stream is completed: {}", events.join(" ")));
        }
    }
    assert!(
        completed.is_empty(),
        "an error was yielded, yet a complete event stream was delivered as well:\n{}",
        completed.join("\n")
    );
}
