//! Property C11 -- nesting depth cannot crash the process.
//!
//! Every case runs in a child process (this test binary re-executed with `C11_CHILD=<case>`), on a
//! thread with the default 8 MiB stack, because the violation is an abort (stack overflow) that an
//! in-process assertion cannot observe. A test fails when the child dies instead of printing a
//! result line.
//!
//! The loaded trees are always taken apart iteratively, so the (known) recursive `Drop` of a deep
//! tree is never what brings a child down. Each test also runs a control input of the same depth
//! that must survive, which shows that the harness and the plain load path are fine.
//!
//! Overlap with what is known: the recursion that overflows in tests 1 and 2 is the derived
//! `Clone` / `Hash` / `Eq` / `Drop` of the tree. What is new is the call sequence: the caller only
//! calls `load_from_str` -- the loader itself clones, hashes, compares and drops deep subtrees.
//! Test 3 is a hand-written recursion (`parse_representation_recursive`).

use saphyr::{LoadableYamlNode, Yaml, YamlLoader};
use saphyr_parser::Parser;
use std::process::Command;

fn seq_inline(d: usize, tail: &str) -> String {
    let mut s = String::with_capacity(2 * d + tail.len());
    for _ in 0..d {
        s.push_str("- ");
    }
    s.push_str(tail);
    s
}

/// Take a tree apart without recursion.
fn dismantle(y: Yaml) {
    let mut work = vec![y];
    while let Some(y) = work.pop() {
        match y {
            Yaml::Sequence(v) => work.extend(v),
            Yaml::Mapping(m) => {
                for (k, v) in m {
                    work.push(k);
                    work.push(v);
                }
            }
            _ => {}
        }
    }
}

fn load_and_dismantle(src: &str) -> String {
    match Yaml::load_from_str(src) {
        Ok(docs) => {
            let n = docs.len();
            for d in docs {
                dismantle(d);
            }
            format!("ok {n} docs")
        }
        Err(e) => format!("error value: {e}"),
    }
}

fn input(case: &str) -> String {
    match case {
        // 1: an anchor on the root of a sequence nested 10 000 deep (20 KB of input)
        "anchor_on_deep_node" => format!("--- &a\n{}", seq_inline(10_000, "x\n")),
        // control: same depth, the anchor sits on the innermost scalar
        "anchor_on_leaf" => seq_inline(10_000, "&a x\n"),
        // 2: a mapping with twice the same key, the key being a sequence nested 50 000 deep
        "deep_key_twice" => {
            let k = seq_inline(50_000, "x\n");
            format!("? {k}: v\n? {k}: w\n")
        }
        // control: the same sequence as a mapping *value*
        "deep_value" => format!("k:\n  {}", seq_inline(50_000, "x\n")),
        // 3 and its control
        "lazy_deep" | "lazy_deep_control" => seq_inline(20_000, "x\n"),
        _ => panic!("unknown case {case}"),
    }
}

fn run_case(case: &str) -> String {
    let src = input(case);
    match case {
        "lazy_deep" | "lazy_deep_control" => {
            let mut parser = Parser::new_from_str(&src);
            let mut loader: YamlLoader<Yaml> = YamlLoader::default();
            loader.early_parse(false);
            if let Err(e) = parser.load(&mut loader, true) {
                return format!("error value: {e}");
            }
            let docs = loader.into_documents();
            let n = docs.len();
            for mut d in docs {
                if case == "lazy_deep" {
                    d.parse_representation_recursive();
                }
                dismantle(d);
            }
            format!("ok {n} docs")
        }
        _ => load_and_dismantle(&src),
    }
}

/// Child entry point; does nothing in a normal test run.
#[test]
fn c11_child() {
    let Ok(case) = std::env::var("C11_CHILD") else {
        return;
    };
    let h = std::thread::Builder::new()
        .stack_size(8 << 20)
        .spawn(move || run_case(&case))
        .unwrap();
    match h.join() {
        Ok(s) => println!("C11-RESULT {s}"),
        Err(_) => println!("C11-RESULT panic"),
    }
}

/// Run `case` in a child process. `Ok(result line)` if the child terminated normally.
fn in_child(case: &str) -> Result<String, String> {
    let out = Command::new(std::env::current_exe().unwrap())
        .args(["--exact", "c11_child", "--nocapture", "--test-threads=1"])
        .env("C11_CHILD", case)
        .output()
        .unwrap();
    let stdout = String::from_utf8_lossy(&out.stdout);
    let stderr = String::from_utf8_lossy(&out.stderr);
    let line = stdout
        .lines()
        .find_map(|l| l.find("C11-RESULT ").map(|i| l[i + 11..].to_string()));
    match line {
        Some(l) if out.status.success() && l != "panic" => Ok(l),
        Some(l) => Err(format!("{l}; {:?}", out.status)),
        None => Err(format!(
            "child died ({:?}): {}",
            out.status,
            stderr.lines().rev().find(|l| !l.trim().is_empty()).unwrap_or("")
        )),
    }
}

/// "parsing, loading and releasing the result either succeed or fail with an error value";
/// "a few kilobytes of untrusted YAML cannot abort the host program".
///
/// `Yaml::load_from_str("--- &a\n- - - ... - x\n")` with 10 000 levels (20 KB): the loader clones
/// the finished node into its anchor map (`insert_new_node`, saphyr/src/loader.rs:266-268) with
/// the recursive derived `Clone`; the process aborts with a stack overflow inside
/// `load_from_str`. Threshold on 8 MiB: ~7 000 levels (debug), ~7 800 (release) -- below the depth
/// at which the known recursive `Drop` gives out (~43 000 / ~37 000).
#[test]
fn load_with_anchor_on_a_deep_node_does_not_abort() {
    let control = in_child("anchor_on_leaf");
    assert!(control.is_ok(), "control (anchor on the innermost scalar): {control:?}");
    let r = in_child("anchor_on_deep_node");
    assert!(r.is_ok(), "load_from_str aborted the process: {r:?}");
}

/// Same clauses. A sequence nested 50 000 deep used twice as a mapping key: inserting into the
/// mapping hashes the key, compares it with the equal key already present and drops the
/// duplicate (`hash.insert(key.into(), node.0)`, saphyr/src/loader.rs:279-282), all recursive;
/// the process aborts inside `load_from_str`. Threshold on 8 MiB: ~18 000 levels (debug),
/// ~37 400 (release). (A single deep key, hashed only: ~20 000 in debug; survives 100 000 in
/// release.)
#[test]
fn load_with_a_deep_collection_as_mapping_key_does_not_abort() {
    let control = in_child("deep_value");
    assert!(control.is_ok(), "control (same sequence as a value): {control:?}");
    let r = in_child("deep_key_twice");
    assert!(r.is_ok(), "load_from_str aborted the process: {r:?}");
}

/// "Stack consumption does not grow without limit with the nesting depth of the input".
///
/// Lazy loading (`YamlLoader::early_parse(false)`) followed by
/// `Yaml::parse_representation_recursive()` on a sequence nested 20 000 deep: the function
/// recurses once per level (saphyr/src/macros.rs:282-330) and overflows the stack. Threshold on
/// 8 MiB: ~6 000 levels (debug), ~13 400 (release).
#[test]
fn parse_representation_recursive_on_a_deep_tree_does_not_abort() {
    let control = in_child("lazy_deep_control");
    assert!(control.is_ok(), "control (lazy load without the call): {control:?}");
    let r = in_child("lazy_deep");
    assert!(r.is_ok(), "parse_representation_recursive aborted the process: {r:?}");
}
