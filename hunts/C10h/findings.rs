// Property C10 -- "All input back-ends behave identically".
//
// NO FINDING: no input was found for which the unmodified library violates the property.
// This file documents the probing. Every #[test] below PASSES on the unmodified code; each is a
// differential check that would fail on a violation of the clause
//   "Parsing the same characters from a string slice, from a character iterator, or from any
//    input source that honours the input contract (whatever its buffer capacity) gives the same
//    events, the same spans and, on failure, the same error message at the same position."
//
// Back-ends compared on every case (reference: `StrInput`):
//   * `BufferedInput` (through `Parser::new_from_iter` and through `Parser::new`),
//   * `CapInput`: a strict buffered input written from the documentation of the `Input` trait,
//     capacities 8, 16, 17, 64, 128, 1024 (sweep test: 8..=40, 60..=68, 124..=132, 255..257,
//     4096), in both variants the contract allows for `raw_read_non_breakz_ch` (the breakz is put
//     into the buffer / is left unconsumed). It panics on any use the contract does not allow.
//   * `GenericStr`: a string-like input that implements only the required methods, so that every
//     other method is the char-level default of the trait (this is the direct check of the
//     `StrInput` byte-level overrides), with the same capacities.
//
// Default iteration counts are small so that the file runs in seconds; set C10_ITERS (cases per
// generator), C10_SEED and C10_MAXLEN (exhaustive enumeration length) for the big runs recorded in
// NOTES.md (e.g. C10_ITERS=1000000 C10_MAXLEN=4, release profile).
#![allow(dead_code)]


use std::collections::VecDeque;
use std::panic::{catch_unwind, AssertUnwindSafe};

use saphyr_parser::input::SkipTabs;
use saphyr_parser::{
    BufferedInput, Event, Input, Parser, ScanError, Span, SpannedEventReceiver, StrInput,
};

fn is_breakz(c: char) -> bool {
    c == '\n' || c == '\r' || c == '\0'
}

/// A buffered input written from the documentation of the `Input` trait only. `cap` is the buffer
/// capacity that is reported by `bufmaxlen`. It is strict: any use that the contract does not
/// allow (peeking at something that was not looked ahead, asking for more than the capacity)
/// panics.
pub struct CapInput {
    src: Vec<char>,
    pos: usize,
    buf: VecDeque<char>,
    cap: usize,
    /// What to do with a breakz met by `raw_read_non_breakz_ch`: put it into the buffer (true) or
    /// leave it unconsumed (false). The contract allows both.
    push_break: bool,
}

impl CapInput {
    pub fn new(s: &str, cap: usize, push_break: bool) -> Self {
        Self {
            src: s.chars().collect(),
            pos: 0,
            buf: VecDeque::new(),
            cap,
            push_break,
        }
    }
    fn next_src(&mut self) -> Option<char> {
        let c = self.src.get(self.pos).copied();
        if c.is_some() {
            self.pos += 1;
        }
        c
    }
}

impl Input for CapInput {
    fn lookahead(&mut self, count: usize) {
        assert!(
            count <= self.cap,
            "CONTRACT: lookahead({count}) exceeds bufmaxlen {}",
            self.cap
        );
        while self.buf.len() < count {
            let c = self.next_src().unwrap_or('\0');
            self.buf.push_back(c);
        }
    }
    fn buflen(&self) -> usize {
        self.buf.len()
    }
    fn bufmaxlen(&self) -> usize {
        self.cap
    }
    fn raw_read_ch(&mut self) -> char {
        assert!(self.buf.is_empty(), "CONTRACT: raw read with a non-empty buffer");
        self.next_src().unwrap_or('\0')
    }
    fn raw_read_non_breakz_ch(&mut self) -> Option<char> {
        assert!(self.buf.is_empty(), "CONTRACT: raw read with a non-empty buffer");
        match self.src.get(self.pos).copied() {
            None => None,
            Some(c) if is_breakz(c) => {
                if self.push_break {
                    self.pos += 1;
                    self.buf.push_back(c);
                }
                None
            }
            Some(c) => {
                self.pos += 1;
                Some(c)
            }
        }
    }
    fn skip(&mut self) {
        assert!(!self.buf.is_empty(), "CONTRACT: skip on empty buffer");
        self.buf.pop_front();
    }
    fn skip_n(&mut self, count: usize) {
        assert!(self.buf.len() >= count, "CONTRACT: skip_n beyond buffer");
        self.buf.drain(0..count);
    }
    fn peek(&self) -> char {
        *self.buf.front().expect("CONTRACT: peek on empty buffer")
    }
    fn peek_nth(&self, n: usize) -> char {
        *self.buf.get(n).expect("CONTRACT: peek_nth beyond buffer")
    }
}

/// A string-like input (everything is available, `lookahead` only records the request, like the
/// library's `StrInput`) that implements the required methods only: every other method is the
/// char-level default of the trait.
pub struct GenericStr {
    src: Vec<char>,
    pos: usize,
    lookahead: usize,
    cap: usize,
}

impl GenericStr {
    pub fn new(s: &str, cap: usize) -> Self {
        Self {
            src: s.chars().collect(),
            pos: 0,
            lookahead: 0,
            cap,
        }
    }
}

impl Input for GenericStr {
    fn lookahead(&mut self, count: usize) {
        self.lookahead = self.lookahead.max(count);
    }
    fn buflen(&self) -> usize {
        self.lookahead
    }
    fn bufmaxlen(&self) -> usize {
        self.cap
    }
    fn raw_read_ch(&mut self) -> char {
        let c = self.src.get(self.pos).copied();
        if c.is_some() {
            self.pos += 1;
        }
        c.unwrap_or('\0')
    }
    fn raw_read_non_breakz_ch(&mut self) -> Option<char> {
        match self.src.get(self.pos).copied() {
            Some(c) if !is_breakz(c) => {
                self.pos += 1;
                Some(c)
            }
            _ => None,
        }
    }
    fn skip(&mut self) {
        if self.pos < self.src.len() {
            self.pos += 1;
        }
    }
    fn skip_n(&mut self, count: usize) {
        self.pos = (self.pos + count).min(self.src.len());
    }
    fn peek(&self) -> char {
        self.src.get(self.pos).copied().unwrap_or('\0')
    }
    fn peek_nth(&self, n: usize) -> char {
        self.src.get(self.pos + n).copied().unwrap_or('\0')
    }
}

/// A one-character-at-a-time iterator that is NOT fused-sensitive and counts how much was pulled.
pub struct CountingIter<'a> {
    pub it: std::str::Chars<'a>,
}
impl Iterator for CountingIter<'_> {
    type Item = char;
    fn next(&mut self) -> Option<char> {
        self.it.next()
    }
}

#[derive(Debug, PartialEq, Eq, Clone)]
pub enum Outcome {
    Done(Vec<(Event<'static>, Span)>, Option<ScanError>),
    Panic(String),
}

fn own(ev: Event<'_>) -> Event<'static> {
    match ev {
        Event::Nothing => Event::Nothing,
        Event::StreamStart => Event::StreamStart,
        Event::StreamEnd => Event::StreamEnd,
        Event::DocumentStart(b) => Event::DocumentStart(b),
        Event::DocumentEnd => Event::DocumentEnd,
        Event::Alias(a) => Event::Alias(a),
        Event::Scalar(s, st, a, t) => Event::Scalar(s.into_owned().into(), st, a, t),
        Event::SequenceStart(a, t) => Event::SequenceStart(a, t),
        Event::SequenceEnd => Event::SequenceEnd,
        Event::MappingStart(a, t) => Event::MappingStart(a, t),
        Event::MappingEnd => Event::MappingEnd,
    }
}

pub fn run_iter<'a, T: Input>(p: Parser<'a, T>) -> Outcome {
    let r = catch_unwind(AssertUnwindSafe(move || {
        let mut evs = vec![];
        let mut err = None;
        let mut n = 0usize;
        for x in p {
            match x {
                Ok((e, s)) => evs.push((own(e), s)),
                Err(e) => {
                    err = Some(e);
                    break;
                }
            }
            n += 1;
            assert!(n < 2_000_000, "runaway");
        }
        (evs, err)
    }));
    match r {
        Ok((e, err)) => Outcome::Done(e, err),
        Err(p) => Outcome::Panic(panic_msg(&p)),
    }
}

struct Sink(Vec<(Event<'static>, Span)>);
impl<'a> SpannedEventReceiver<'a> for Sink {
    fn on_event(&mut self, ev: Event<'a>, span: Span) {
        self.0.push((own(ev), span));
    }
}

pub fn run_load<'a, T: Input>(mut p: Parser<'a, T>, multi: bool) -> Outcome {
    let r = catch_unwind(AssertUnwindSafe(move || {
        let mut sink = Sink(vec![]);
        let err = p.load(&mut sink, multi).err();
        (sink.0, err)
    }));
    match r {
        Ok((e, err)) => Outcome::Done(e, err),
        Err(p) => Outcome::Panic(panic_msg(&p)),
    }
}

fn panic_msg(p: &Box<dyn std::any::Any + Send>) -> String {
    if let Some(s) = p.downcast_ref::<&str>() {
        (*s).to_string()
    } else if let Some(s) = p.downcast_ref::<String>() {
        s.clone()
    } else {
        "?".into()
    }
}

pub const CAPS: [usize; 6] = [8, 16, 17, 64, 128, 1024];

/// Run every back-end on `s`. Returns the reference outcome (StrInput) and the list of
/// back-ends that differ from it.
pub fn diff_all(s: &str) -> (Outcome, Vec<(String, Outcome)>) {
    let reference = run_iter(Parser::new_from_str(s));
    let mut bad = vec![];
    let mut check = |name: String, o: Outcome| {
        if o != reference {
            bad.push((name, o));
        }
    };
    check("buffered".into(), run_iter(Parser::new_from_iter(s.chars())));
    check(
        "buffered-new".into(),
        run_iter(Parser::new(BufferedInput::new(CountingIter { it: s.chars() }))),
    );
    for cap in CAPS {
        check(
            format!("cap{cap}-push"),
            run_iter(Parser::new(CapInput::new(s, cap, true))),
        );
        check(
            format!("cap{cap}-leave"),
            run_iter(Parser::new(CapInput::new(s, cap, false))),
        );
        check(
            format!("generic{cap}"),
            run_iter(Parser::new(GenericStr::new(s, cap))),
        );
    }
    (reference, bad)
}

/// The `load` entry point, on the two library back-ends.
pub fn diff_load(s: &str) -> Vec<(String, Outcome, Outcome)> {
    let mut bad = vec![];
    for multi in [true, false] {
        let a = run_load(Parser::new_from_str(s), multi);
        let b = run_load(Parser::new_from_iter(s.chars()), multi);
        if a != b {
            bad.push((format!("load multi={multi}"), a.clone(), b));
        }
        let c = run_load(Parser::new(CapInput::new(s, 8, true)), multi);
        if a != c {
            bad.push((format!("load cap8 multi={multi}"), a, c));
        }
    }
    bad
}

pub struct Rng(pub u64);
impl Rng {
    pub fn next(&mut self) -> u64 {
        // xorshift64*
        let mut x = self.0;
        x ^= x >> 12;
        x ^= x << 25;
        x ^= x >> 27;
        self.0 = x;
        x.wrapping_mul(0x2545_F491_4F6C_DD1D)
    }
    pub fn below(&mut self, n: usize) -> usize {
        (self.next() >> 11) as usize % n
    }
    pub fn pick<T: Copy>(&mut self, v: &[T]) -> T {
        v[self.below(v.len())]
    }
    pub fn chance(&mut self, num: usize, den: usize) -> bool {
        self.below(den) < num
    }
}

pub fn quiet_panics() {
    std::panic::set_hook(Box::new(|_| {}));
}

// ---------------------------------------------------------------------------------------
// Generators and tests
// ---------------------------------------------------------------------------------------

fn iters(default: usize) -> usize {
    std::env::var("C10_ITERS")
        .ok()
        .and_then(|s| s.parse().ok())
        .unwrap_or(default)
}
fn seed() -> u64 {
    std::env::var("C10_SEED")
        .ok()
        .and_then(|s| s.parse().ok())
        .unwrap_or(0x9E37_79B9_7F4A_7C15)
}

fn report(s: &str, reference: &Outcome, bad: &[(String, Outcome)]) {
    eprintln!("=== DIVERGENCE on input {s:?}");
    eprintln!("  str: {}", short(reference));
    for (n, o) in bad {
        eprintln!("  {n}: {}", short(o));
    }
}

static REF_PANICS: std::sync::atomic::AtomicUsize = std::sync::atomic::AtomicUsize::new(0);
fn note_ref(o: &Outcome) {
    if let Outcome::Panic(m) = o {
        if REF_PANICS.fetch_add(1, std::sync::atomic::Ordering::Relaxed) < 5 {
            eprintln!("reference panic: {m}");
        }
    }
}
fn short(o: &Outcome) -> String {
    match o {
        Outcome::Panic(m) => format!("PANIC {m}"),
        Outcome::Done(evs, err) => {
            let mut s = String::new();
            for (e, sp) in evs {
                s.push_str(&format!(
                    "{e:?}@{}:{}:{}-{}:{}:{} ",
                    sp.start.index(),
                    sp.start.line(),
                    sp.start.col(),
                    sp.end.index(),
                    sp.end.line(),
                    sp.end.col()
                ));
            }
            format!("{s} ERR={err:?}")
        }
    }
}

const FRAGS: &[&str] = &[
    "-", "- ", " ", "  ", "    ", "\n", "\n", "\n", "\r\n", "\r", ":", ": ", ":", "?", "? ", "|", ">",
    "|-", ">+", "|2", "|1-", ">9", "|+2", "#", " #", " # c", "'", "\"", "\\", "\\\n", "\\x41",
    "\\u00e9", "\\U0001F600", "\\ ", "\\\t", "[", "]", "{", "}", ",", ", ", "&a", "&a ", "*a",
    "*a ", "!", "! ", "!!str ", "!!", "!<x>", "!<tag:y> ", "!e!x ", "!a%41b ", "%YAML 1.2\n",
    "%TAG !e! tag:e,2000:\n", "%TAG ! x\n", "%FOO bar\n", "%", "---", "--- ", "---\n", "...",
    "...\n", "... ", "\t", "a", "b", "key", "foo bar", "é", "\u{2028}", "\u{85}", "\u{FEFF}",
    "\u{1F600}", "日本", "0", "1", "~", "''", "\"\"", "[]", "{}", "a: b", "- a", "a:", "? a\n: b",
    "@", "`", "=", "<<", "*", "&", "-a", "--", "..", ". ", "- - ", "-\t", ":\t", "?\t", "x:y",
    "x :y", "x: y", "x\u{a0}", "\u{7f}", "\u{1}",
];

fn soup(rng: &mut Rng, with_nul: bool) -> String {
    let n = 1 + rng.below(14);
    let mut s = String::new();
    for _ in 0..n {
        match rng.below(40) {
            0 => {
                // a run of spaces of boundary length
                let l = rng.pick(&[5, 6, 7, 8, 13, 14, 15, 16, 17, 18, 61, 62, 63, 64, 65]);
                s.push_str(&" ".repeat(l));
            }
            1 => {
                let l = rng.pick(&[6, 7, 8, 9, 14, 15, 16, 17, 18, 30, 31, 32, 33, 63, 64, 65]);
                let c = rng.pick(&['a', 'é', '-', ':', '.', '#', '!', '&', '*']);
                for _ in 0..l {
                    s.push(c);
                }
            }
            2 if with_nul => s.push('\0'),
            _ => s.push_str(rng.pick(FRAGS)),
        }
    }
    s
}

#[test]
fn fuzz_soup() {
    quiet_panics();
    let mut rng = Rng(seed());
    let n = iters(20_000);
    let mut nbad = 0;
    let mut ok = 0usize;
    let mut errs = 0usize;
    for i in 0..n {
        let s = soup(&mut rng, i % 8 == 0);
        let (r, bad) = diff_all(&s);
        note_ref(&r);
        match &r {
            Outcome::Done(_, None) => ok += 1,
            _ => errs += 1,
        }
        if !bad.is_empty() {
            nbad += 1;
            if nbad <= 30 {
                report(&s, &r, &bad);
            }
        }
    }
    eprintln!("fuzz_soup: {n} cases, {ok} parse ok, {errs} errors, {nbad} divergent");
    assert_eq!(nbad, 0);
}

/// Block scalars: header variants, indentation around the capacity boundaries, line lengths
/// around the capacities, all three line-break styles, with and without final break.
fn block_scalar_case(rng: &mut Rng) -> String {
    let nl = rng.pick(&["\n", "\r\n", "\r", "\n"]);
    let mut s = String::new();
    // parent structure giving a block indent
    let parent_indent = rng.pick(&[0usize, 0, 1, 2, 4, 5, 6, 12, 13, 14, 15, 60, 61, 62, 124, 125, 126]);
    let kind = rng.below(4);
    s.push_str(&" ".repeat(parent_indent));
    match kind {
        0 => s.push_str("k: "),
        1 => s.push_str("- "),
        2 => s.push_str("? "),
        _ => {
            s.clear();
        }
    }
    let base = if kind == 3 { 0 } else { parent_indent };
    s.push_str(rng.pick(&["|", ">"]));
    let explicit = rng.chance(1, 3);
    let mut extra = 1 + rng.below(9);
    let hdr_order = rng.below(2);
    let chomp = rng.pick(&["", "", "-", "+"]);
    if explicit {
        if hdr_order == 0 {
            s.push_str(chomp);
            s.push_str(&extra.to_string());
        } else {
            s.push_str(&extra.to_string());
            s.push_str(chomp);
        }
    } else {
        s.push_str(chomp);
        extra = rng.pick(&[1usize, 2, 3, 5, 6, 7, 8, 13, 14, 15, 16, 17, 61, 62, 63, 64, 125, 126, 127, 128, 129]);
    }
    if rng.chance(1, 5) {
        s.push_str(rng.pick(&[" ", " # comment", "\t", "  #", " #"]));
    }
    if rng.chance(1, 30) {
        return s; // eof right after the header
    }
    s.push_str(nl);
    let indent = if kind == 3 && explicit { extra } else if kind == 3 { extra.saturating_sub(1) } else { base + extra };
    let lines = rng.below(6);
    for _ in 0..lines {
        match rng.below(12) {
            0 => {} // empty line
            1 => s.push_str(&" ".repeat(rng.below(indent + 3))), // spaces only
            2 => {
                // less indented content
                s.push_str(&" ".repeat(rng.below(indent + 1)));
                s.push_str("x");
            }
            3 => {
                // more indented content
                s.push_str(&" ".repeat(indent + 1 + rng.below(4)));
                s.push_str("more");
            }
            4 => {
                s.push_str(&" ".repeat(indent));
                s.push_str("\tt");
            }
            5 => {
                s.push_str(&" ".repeat(indent));
                s.push_str(rng.pick(&["---", "...", "--- x", "#c", "- a", "a: b", "\u{FEFF}", "é"]));
            }
            _ => {
                s.push_str(&" ".repeat(indent));
                let l = rng.pick(&[1usize, 2, 3, 6, 7, 8, 9, 14, 15, 16, 17, 18, 31, 32, 33, 62, 63, 64, 65, 66, 126, 127, 128, 129, 130, 200]);
                // make the line such that indent + l also hits boundaries sometimes
                let l = if rng.chance(1, 3) { l.saturating_sub(indent % 16).max(1) } else { l };
                let c = rng.pick(&['a', 'é', ' ', '日', 'z']);
                for k in 0..l {
                    s.push(if k == 0 && c == ' ' { 'q' } else { c });
                }
                if rng.chance(1, 6) {
                    s.push_str(rng.pick(&[" ", "\t", "  "]));
                }
            }
        }
        s.push_str(nl);
    }
    match rng.below(8) {
        0 => {
            // strip the final break
            for _ in 0..nl.len() {
                s.pop();
            }
        }
        1 => s.push_str(&" ".repeat(1 + rng.below(indent + 2))),
        2 => {
            s.push_str(&" ".repeat(base.min(indent.saturating_sub(1))));
            s.push_str(rng.pick(&["next: 1", "- z", "...", "---", "z"]));
            s.push_str(nl);
        }
        3 => {
            s.push_str(rng.pick(&["---", "...", "--- |\n x", "k2: v", "# c"]));
        }
        _ => {}
    }
    s
}

#[test]
fn fuzz_block_scalars() {
    quiet_panics();
    let mut rng = Rng(seed() ^ 0xB10C);
    let n = iters(20_000);
    let mut nbad = 0;
    let mut ok = 0usize;
    for _ in 0..n {
        let s = block_scalar_case(&mut rng);
        let (r, bad) = diff_all(&s);
        note_ref(&r);
        if matches!(r, Outcome::Done(_, None)) {
            ok += 1;
        }
        if !bad.is_empty() {
            nbad += 1;
            if nbad <= 30 {
                report(&s, &r, &bad);
            }
        }
    }
    eprintln!("fuzz_block_scalars: {n} cases, {ok} parse ok, {nbad} divergent");
    assert_eq!(nbad, 0);
}

/// Plain scalars whose end (": ", " #", flow indicator, break, eof) falls around chunk boundaries.
fn plain_case(rng: &mut Rng) -> String {
    let mut s = String::new();
    let flow = rng.chance(1, 3);
    let lead = rng.pick(&["", "", "- ", "k: ", "  ", "? "]);
    s.push_str(lead);
    if flow {
        s.push_str(rng.pick(&["[", "{", "[ ", "{ ", "[[", "[{"]));
    }
    let words = 1 + rng.below(4);
    for w in 0..words {
        let l = rng.pick(&[1usize, 2, 5, 6, 7, 8, 9, 13, 14, 15, 16, 17, 18, 29, 30, 31, 32, 33, 62, 63, 64, 65, 126, 127, 128, 129, 255, 256, 257]);
        let l = if rng.chance(1, 2) { l.saturating_sub(lead.len()).max(1) } else { l };
        let c = rng.pick(&['a', 'é', '-', '.', ':', '?', '#', '日', '!', '&', '*', '%', '"', '\'']);
        for k in 0..l {
            // keep the very first char of the first word a safe one sometimes
            if w == 0 && k == 0 && rng.chance(2, 3) {
                s.push('w');
            } else {
                s.push(c);
            }
        }
        s.push_str(rng.pick(&[
            ": ", ":", " #", "#", " ", "  ", "\t", "\n", "\r\n", "\r", ",", ", ", "]", "}", ":,", ":]", ": x", ":x", "\n ", "\n  ", "\n\n", " \n", "\t\n",
            "\n---\n", "\n...", "\n--- ", "\n ---", ":\n", ":\t", "-", "- ", " - ", " : ", " :", "\0",
        ]));
    }
    if flow && rng.chance(2, 3) {
        s.push_str(rng.pick(&["]", "}", "]]", "}]", " ]", "\n]"]));
    }
    if rng.chance(1, 4) {
        s.push('\n');
    }
    s
}

#[test]
fn fuzz_plain() {
    quiet_panics();
    let mut rng = Rng(seed() ^ 0x91A1);
    let n = iters(20_000);
    let mut nbad = 0;
    let mut ok = 0usize;
    for _ in 0..n {
        let s = plain_case(&mut rng);
        let (r, bad) = diff_all(&s);
        note_ref(&r);
        if matches!(r, Outcome::Done(_, None)) {
            ok += 1;
        }
        if !bad.is_empty() {
            nbad += 1;
            if nbad <= 30 {
                report(&s, &r, &bad);
            }
        }
    }
    eprintln!("fuzz_plain: {n} cases, {ok} parse ok, {nbad} divergent");
    assert_eq!(nbad, 0);
}

/// Quoted scalars, tags, anchors, directives with boundary lengths.
fn misc_case(rng: &mut Rng) -> String {
    let mut s = String::new();
    let pad = |rng: &mut Rng, s: &mut String| {
        let l = rng.pick(&[0usize, 0, 1, 2, 3, 4, 5, 6, 7, 8, 9, 10, 11, 12, 13, 14, 15, 16, 17, 60, 61, 62, 63, 64, 124, 125, 126, 127, 128]);
        let c = rng.pick(&['a', ' ', 'é']);
        for _ in 0..l {
            s.push(c);
        }
    };
    match rng.below(7) {
        0 => {
            // double quoted with escapes at boundaries
            s.push_str(rng.pick(&["", "- ", "k: ", "[", "{"]));
            s.push('"');
            for _ in 0..1 + rng.below(4) {
                pad(rng, &mut s);
                s.push_str(rng.pick(&[
                    "\\x41", "\\u00e9", "\\U0001F600", "\\U0001F60", "\\x4", "\\u00e", "\\n", "\\\n", "\\\r\n", "\\\r", "\\ ", "\\\t", "\\q", "\\", "\\U", "\\U0001F600\\U0001F600",
                    "\n", "\n\n", "\r\n", " \n ", "\t\n\t", "\n---\n", "\n... ", "\n...", "'", "''", "\\\"", "\\N\\_\\L\\P", "\\UFFFFFFFF", "\\uD800", "\\x00", "\0",
                ]));
            }
            pad(rng, &mut s);
            if rng.chance(5, 6) {
                s.push('"');
            }
            s.push_str(rng.pick(&["", "", ": v", " : v", ":v", " #c", "#c", " x", ",", "]", "}", "\n", "\t", "\t#c"]));
        }
        1 => {
            s.push_str(rng.pick(&["", "- ", "k: ", "[", "{"]));
            s.push('\'');
            for _ in 0..1 + rng.below(4) {
                pad(rng, &mut s);
                s.push_str(rng.pick(&["''", "''''", "\n", "\n\n", "\r\n", " \n ", "\t\n\t", "\n---\n", "\n--- ", "\n...", "\"", "\\", "\\\n", "\0", "#", " #", ": "]));
            }
            pad(rng, &mut s);
            if rng.chance(5, 6) {
                s.push('\'');
            }
            s.push_str(rng.pick(&["", "", ": v", " : v", ":v", " #c", "#c", " x", ",", "]", "}", "\n", "'x"]));
        }
        2 => {
            // tags
            s.push_str(rng.pick(&["", "- ", "k: ", "[", "{", "--- "]));
            s.push_str(rng.pick(&["!", "!!", "!e!", "!<", "!a", "!!a", "!e!a", "!<a", "!é", "!a!b!c"]));
            let l = rng.pick(&[0usize, 1, 5, 6, 7, 8, 13, 14, 15, 16, 17, 62, 63, 64, 126, 127, 128, 129]);
            let c = rng.pick(&['a', '-', '_', '%', 'é', '!', '.', '/', ',', '[']);
            for _ in 0..l {
                s.push(c);
            }
            s.push_str(rng.pick(&["%41", "%c3%a9", "%c3", "%4", "%", "%zz", "%e2%82%ac", "%f0%9f%98%80", "%ff", "%c3%41", "", "", ""]));
            s.push_str(rng.pick(&[">", "", "", " x", " ", "\n", ",", "]", "}", "\tx", ": v", " : v", "\0", ">x", "> x"]));
        }
        3 => {
            // anchors / aliases
            s.push_str(rng.pick(&["", "- ", "k: ", "[", "{"]));
            let c0 = rng.pick(&["&", "*"]);
            s.push_str(c0);
            let l = rng.pick(&[0usize, 1, 5, 6, 7, 8, 13, 14, 15, 16, 17, 62, 63, 64, 126, 127, 128, 129]);
            let c = rng.pick(&['a', '-', ':', 'é', '&', '*', '#', '\u{FEFF}', '日']);
            for _ in 0..l {
                s.push(c);
            }
            s.push_str(rng.pick(&["", " x", " ", "\n", ",", "]", "}", "\tx", ": v", " : v", "\0", "\n- *a", " *a"]));
        }
        4 => {
            // directives
            s.push('%');
            s.push_str(rng.pick(&["YAML", "TAG", "FOO", "", "YAMLX", "yaml", "TAG2", "Y-_", "é"]));
            s.push_str(rng.pick(&[" ", "  ", "\t", "", "\n", " \t "]));
            s.push_str(rng.pick(&["1.2", "1.1", "1.", "1", ".2", "1.23456789012", "123456789.1", "1234567890.1", "!e! tag:x", "! !x", "!! tag:y,2000:", "!e tag", "!e!", "!e!  ", "!e! %41x", "!e! %c3%a9", "!e! é", "x y z", "", "1.2.3", "1.2 3"]));
            let l = rng.pick(&[0usize, 0, 0, 1, 5, 6, 7, 8, 13, 14, 15, 16, 17, 62, 63, 64, 126, 127, 128]);
            for _ in 0..l {
                s.push('x');
            }
            s.push_str(rng.pick(&["", " ", " #c", "#c", "\t#c", " x", "\n", "\r\n", "\r", "\0"]));
            s.push_str(rng.pick(&["", "\n---\n", "\n--- !e!a x", "\n--- x", "---", "\nx", "\n%YAML 1.2\n---", "\n...", "--- a"]));
        }
        5 => {
            // document markers in odd places
            for _ in 0..1 + rng.below(5) {
                s.push_str(rng.pick(&["---", "...", "--- ", "... ", "---\t", "...\t", "---x", "...x", "--", "..", "----", "....", " ---", " ...", "---\r", "...\r\n", "---é", "...\u{85}", "---\u{a0}", "--- #c", "... #c", "...#c", "--- |", "--- >-", "--- a", "--- 'q'", "--- \"q", "--- [", "--- - a", "--- a: b"]));
                s.push_str(rng.pick(&["\n", "\n", "\r\n", "\r", "", " ", "\n\n", "\n#c\n", "\na\n", "\n a\n", "\n- b\n", "\0"]));
            }
        }
        _ => {
            // comments / whitespace / tabs around indicators
            for _ in 0..1 + rng.below(6) {
                s.push_str(rng.pick(&["- ", "-\t", "-", "? ", "?\t", "?", ": ", ":\t", ":", "a", "a:", "a: ", "a:\t", "[", "]", "{", "}", ",", "#", " #", "\t#", "#\t", "\t", " ", "  ", "\t\t", " \t", "\t ", "\n", "\n", "\r\n", "\r"]));
                if rng.chance(1, 8) {
                    pad(rng, &mut s);
                }
            }
        }
    }
    s
}

#[test]
fn fuzz_misc() {
    quiet_panics();
    let mut rng = Rng(seed() ^ 0x3157);
    let n = iters(20_000);
    let mut nbad = 0;
    let mut ok = 0usize;
    for _ in 0..n {
        let s = misc_case(&mut rng);
        let (r, bad) = diff_all(&s);
        note_ref(&r);
        if matches!(r, Outcome::Done(_, None)) {
            ok += 1;
        }
        if !bad.is_empty() {
            nbad += 1;
            if nbad <= 30 {
                report(&s, &r, &bad);
            }
        }
    }
    eprintln!("fuzz_misc: {n} cases, {ok} parse ok, {nbad} divergent");
    assert_eq!(nbad, 0);
}

/// Mixed: concatenations of the generators above and `load` entry point.
#[test]
fn fuzz_mixed_and_load() {
    quiet_panics();
    let mut rng = Rng(seed() ^ 0x7777);
    let n = iters(20_000);
    let mut nbad = 0;
    for _ in 0..n {
        let mut s = String::new();
        for _ in 0..1 + rng.below(3) {
            match rng.below(4) {
                0 => s.push_str(&soup(&mut rng, false)),
                1 => s.push_str(&block_scalar_case(&mut rng)),
                2 => s.push_str(&plain_case(&mut rng)),
                _ => s.push_str(&misc_case(&mut rng)),
            }
            s.push_str(rng.pick(&["\n", "", "\n---\n", "\n...\n", " ", "\r\n"]));
        }
        let (r, bad) = diff_all(&s);
        note_ref(&r);
        if !bad.is_empty() {
            nbad += 1;
            if nbad <= 30 {
                report(&s, &r, &bad);
            }
        }
        let lb = diff_load(&s);
        if !lb.is_empty() {
            nbad += 1;
            if nbad <= 30 {
                eprintln!("=== LOAD DIVERGENCE on {s:?}");
                for (n, a, b) in &lb {
                    eprintln!("  {n}:\n    str: {}\n    other: {}", short(a), short(b));
                }
            }
        }
    }
    eprintln!("fuzz_mixed_and_load: {n} cases, {nbad} divergent");
    assert_eq!(nbad, 0);
}

/// Capacity sweep on the block-scalar and plain generators: every capacity from 8 to 40 and
/// around 64 / 128.
#[test]
fn sweep_capacities() {
    use saphyr_parser::Parser;
    quiet_panics();
    let mut rng = Rng(seed() ^ 0x5EE9);
    let n = iters(20_000) / 4;
    let caps: Vec<usize> = (8..=40).chain(60..=68).chain(124..=132).chain([255, 256, 257, 4096]).collect();
    let mut nbad = 0;
    for i in 0..n {
        let s = match i % 3 {
            0 => block_scalar_case(&mut rng),
            1 => plain_case(&mut rng),
            _ => misc_case(&mut rng),
        };
        let reference = run_iter(Parser::new_from_str(&s));
        for &cap in &caps {
            let a = run_iter(Parser::new(CapInput::new(&s, cap, i % 2 == 0)));
            let b = run_iter(Parser::new(GenericStr::new(&s, cap)));
            if a != reference || b != reference {
                nbad += 1;
                if nbad < 20 {
                    eprintln!("=== DIVERGENCE cap {cap} on {s:?}\n str {}\n cap {}\n gen {}", short(&reference), short(&a), short(&b));
                }
            }
        }
    }
    eprintln!("sweep_capacities: {n} cases x {} capacities x 2 inputs, {nbad} divergent", caps.len());
    assert_eq!(nbad, 0);
}

/// Exhaustive enumeration of short strings over an alphabet of significant characters, bare and
/// behind prefixes that put the enumerated part on the boundaries of an 8/16-character buffer.
#[test]
fn exhaustive_short() {
    use saphyr_parser::Parser;
    quiet_panics();
    let alpha: Vec<char> = "a \n:-#|\"'[],?&*!\t\r.>{}%\\".chars().collect();
    let maxlen: usize = std::env::var("C10_MAXLEN").ok().and_then(|s| s.parse().ok()).unwrap_or(3);
    let prefixes = ["", "aaaaa", "k: |\n     ", "- >\n  aaaaaaaaaaa", "[aaaaaaaaaaaa", "\"aaaaaaaaaaaaa", "k:\n      "];
    let mut nbad = 0;
    let mut n = 0usize;
    let mut idx = vec![0usize; 0];
    loop {
        // current string
        let body: String = idx.iter().map(|&i| alpha[i]).collect();
        for p in prefixes {
            let s = format!("{p}{body}");
            let reference = run_iter(Parser::new_from_str(&s));
            let outs = [
                run_iter(Parser::new_from_iter(s.chars())),
                run_iter(Parser::new(CapInput::new(&s, 8, true))),
                run_iter(Parser::new(CapInput::new(&s, 64, false))),
                run_iter(Parser::new(GenericStr::new(&s, 8))),
            ];
            n += 1;
            if outs.iter().any(|o| *o != reference) {
                nbad += 1;
                if nbad < 20 {
                    eprintln!("=== DIVERGENCE on {s:?}\n str {}", short(&reference));
                    for o in &outs {
                        eprintln!("  {}", short(o));
                    }
                }
            }
        }
        // next
        let mut k = 0;
        loop {
            if k == idx.len() {
                idx.push(0);
                break;
            }
            idx[k] += 1;
            if idx[k] < alpha.len() {
                break;
            }
            idx[k] = 0;
            k += 1;
        }
        if idx.len() > maxlen {
            break;
        }
    }
    eprintln!("exhaustive_short: {n} cases (maxlen {maxlen}, alphabet {}), {nbad} divergent", alpha.len());
    assert_eq!(nbad, 0);
}

// ---------------------------------------------------------------------------------------
// Direct (trait-level) comparison of the `StrInput` overrides with the trait defaults and with
// `BufferedInput`, on every string of up to 4 characters over a 21-character alphabet that
// includes NUL, CR, multi-byte characters, U+0085, U+2028 and U+FEFF.
// ---------------------------------------------------------------------------------------

fn st(r: (usize, Result<SkipTabs, &'static str>)) -> String {
    match r.1 {
        Ok(s) => format!("{} ok tabs={} ws={}", r.0, s.found_tabs(), s.has_valid_yaml_ws()),
        Err(e) => format!("{} err {e}", r.0),
    }
}

fn rest<T: Input>(i: &mut T) -> String {
    // drain what is left (up to 40 chars) to compare positions
    let mut s = String::new();
    for _ in 0..40 {
        let c = i.look_ch();
        if c == '\0' {
            // could be a real NUL: skip it and continue to see whether anything follows
            s.push('\0');
            i.skip();
            continue;
        }
        s.push(c);
        i.skip();
    }
    s
}

fn observe<T: Input>(mk: &dyn Fn() -> T, nonempty: bool) -> Vec<String> {
    let mut out = vec![];
    let mut i = mk();
    i.lookahead(4);
    out.push(format!(
        "pred {} {} {} {} {} {} {} {} {} {} {} {} {} {}",
        i.next_is_document_indicator(),
        i.next_is_document_start(),
        i.next_is_document_end(),
        i.next_is_blank_or_break(),
        i.next_is_blank_or_breakz(),
        i.next_is_blank(),
        i.next_is_break(),
        i.next_is_breakz(),
        i.next_is_z(),
        i.next_is_flow(),
        i.next_is_digit(),
        i.next_is_alpha(),
        i.next_2_are('\r', '\n'),
        i.next_3_are('-', '-', '-'),
    ));
    out.push(format!("peeks {:?} {:?} {:?} {:?}", i.peek(), i.peek_nth(1), i.peek_nth(2), i.peek_nth(3)));
    if nonempty && !i.next_is_blank_or_breakz() {
        out.push(format!("plain {} {}", i.next_can_be_plain_scalar(false), i.next_can_be_plain_scalar(true)));
    }
    for (name, mode) in [("yes", SkipTabs::Yes), ("no", SkipTabs::No)] {
        let mut i = mk();
        let r = i.skip_ws_to_eol(mode);
        out.push(format!("ws_{name} {} rest {:?}", st(r), rest(&mut i)));
    }
    let mut i = mk();
    let n = i.skip_while_non_breakz();
    out.push(format!("nonbreakz {n} rest {:?}", rest(&mut i)));
    let mut i = mk();
    let n = i.skip_while_blank();
    out.push(format!("blank {n} rest {:?}", rest(&mut i)));
    let mut i = mk();
    let mut s = String::from("x");
    let n = i.fetch_while_is_alpha(&mut s);
    out.push(format!("alpha {n} {s:?} rest {:?}", rest(&mut i)));
    let mut i = mk();
    i.lookahead(2);
    i.skip_n(2);
    let mut v = vec![];
    while let Some(c) = i.raw_read_non_breakz_ch() {
        v.push(c);
        if v.len() > 50 { break; }
    }
    out.push(format!("skipn+rawread {v:?}"));
    out
}

#[test]
fn overrides_equal_defaults() {
    let alpha: Vec<char> = "a -.#:\t\n\r\0,[é\u{85}\u{2028}\u{FEFF}9_Z{".chars().collect();
    let mut idx: Vec<usize> = vec![];
    let mut n = 0usize;
    let mut nbad = 0;
    loop {
        let s: String = idx.iter().map(|&i| alpha[i]).collect();
        let a = observe(&|| StrInput::new(&s), !s.is_empty());
        let b = observe(&|| GenericStr::new(&s, 128), !s.is_empty());
        let c = observe(&|| BufferedInput::new(s.chars()), !s.is_empty());
        n += 1;
        if a != b || a != c {
            nbad += 1;
            if nbad < 20 {
                eprintln!("=== TRAIT-LEVEL DIFFERENCE on {s:?}");
                for ((x, y), z) in a.iter().zip(&b).zip(&c) {
                    if x != y || x != z {
                        eprintln!("   str: {x}\n   gen: {y}\n   buf: {z}");
                    }
                }
            }
        }
        let mut k = 0;
        loop {
            if k == idx.len() { idx.push(0); break; }
            idx[k] += 1;
            if idx[k] < alpha.len() { break; }
            idx[k] = 0;
            k += 1;
        }
        if idx.len() > 4 { break; }
    }
    eprintln!("overrides_equal_defaults: {n} strings, {nbad} with a difference");
    assert_eq!(nbad, 0);
}
