//! Property C03 — findings. Drop into `saphyr/tests/`. Every test asserts what the property
//! requires and FAILS on the unmodified library.
//!
//! F1  A `?` indicator that is followed by a line break: any later line whose leading white space
//!     contains a tab (a blank line, a comment line, or the line that carries the key after its
//!     space indentation) makes the parser fail with "tabs disallowed in this context". The same
//!     layouts after `-` and after `key:` are accepted.
//! F2  A top-level block scalar (content indentation 0) whose first content line starts with a
//!     tab is rejected ("a block scalar content cannot start with a tab"), although the same line
//!     is accepted as soon as it is not the first one.

use saphyr_parser::{Event, Parser, ScalarStyle};

#[derive(Debug, PartialEq, Eq, Clone)]
enum Ev {
    DocStart,
    DocEnd,
    SeqStart,
    SeqEnd,
    MapStart,
    MapEnd,
    Scalar(String, ScalarStyle),
}

fn events(src: &str) -> Result<Vec<Ev>, String> {
    let mut out = vec![];
    for x in Parser::new_from_str(src) {
        let (ev, _) = x.map_err(|e| e.to_string())?;
        match ev {
            Event::DocumentStart(_) => out.push(Ev::DocStart),
            Event::DocumentEnd => out.push(Ev::DocEnd),
            Event::SequenceStart(..) => out.push(Ev::SeqStart),
            Event::SequenceEnd => out.push(Ev::SeqEnd),
            Event::MappingStart(..) => out.push(Ev::MapStart),
            Event::MappingEnd => out.push(Ev::MapEnd),
            Event::Scalar(s, st, _, _) => out.push(Ev::Scalar(s.into_owned(), st)),
            _ => {}
        }
    }
    Ok(out)
}

fn plain(s: &str) -> Ev {
    Ev::Scalar(s.to_string(), ScalarStyle::Plain)
}

/// `{ <key>: <value> }` as a single block mapping document. An omitted node is delivered as `~`.
fn one_pair(key: &str, value: &str) -> Vec<Ev> {
    vec![Ev::DocStart, Ev::MapStart, plain(key), plain(value), Ev::MapEnd, Ev::DocEnd]
}

// ---------------------------------------------------------------------------------------- F1

/// `?` with an omitted key, then a blank line that consists of a tab (an `l-comment` line:
/// `s-separate-in-line b-comment`), then the value.
#[test]
fn f1_blank_line_with_tab_after_empty_explicit_key() {
    // the very same blank line is fine after `-` and after `key:`
    assert_eq!(
        events("-\n\t\n- a\n"),
        Ok(vec![Ev::DocStart, Ev::SeqStart, plain("~"), plain("a"), Ev::SeqEnd, Ev::DocEnd])
    );
    assert_eq!(events("k:\n\t\n  a\n"), Ok(one_pair("k", "a")));
    // and so is `?` followed by a blank line without tab
    assert_eq!(events("?\n \n: a\n"), Ok(one_pair("~", "a")));

    assert_eq!(events("?\n\t\n: a\n"), Ok(one_pair("~", "a")));
}

/// The blank line may also come after a comment on the `?` line, or hold spaces before the tab.
#[test]
fn f1_blank_line_with_tab_after_explicit_key_variants() {
    assert_eq!(events("? # c\n\t\n: a\n"), Ok(one_pair("~", "a")));
    assert_eq!(events("?\n \t\n: a\n"), Ok(one_pair("~", "a")));
    // nested: compact mapping in a sequence entry
    assert_eq!(
        events("- ?\n\t\n  : a\n"),
        Ok(vec![
            Ev::DocStart,
            Ev::SeqStart,
            Ev::MapStart,
            plain("~"),
            plain("a"),
            Ev::MapEnd,
            Ev::SeqEnd,
            Ev::DocEnd
        ])
    );
}

/// A comment line whose indentation is `spaces tab` after `?`.
#[test]
fn f1_comment_line_indented_with_tab_after_explicit_key() {
    assert_eq!(events("k:\n  \t# c\n  v\n"), Ok(one_pair("k", "v")));
    assert_eq!(events("?\n  \t# c\n: v\n"), Ok(one_pair("~", "v")));
}

/// The key stands on the line after `?`, correctly indented with spaces, followed by a tab as
/// additional separation (`s-flow-line-prefix(n) = s-indent(n) s-separate-in-line?`).
#[test]
fn f1_key_on_next_line_with_tab_after_indentation() {
    // accepted for the content of a sequence entry and of a mapping value
    assert_eq!(
        events("-\n  \tvalue\n"),
        Ok(vec![Ev::DocStart, Ev::SeqStart, plain("value"), Ev::SeqEnd, Ev::DocEnd])
    );
    assert_eq!(events("k:\n  \tvalue\n"), Ok(one_pair("k", "value")));

    assert_eq!(events("?\n  \tkey\n: v\n"), Ok(one_pair("key", "v")));
}

// ---------------------------------------------------------------------------------------- F2

/// Top-level literal scalar: the content indentation is 0 (first non-empty line has no leading
/// space), the line `<TAB>foo` is content.
#[test]
fn f2_top_level_block_scalar_starting_with_tab() {
    let lit = |s: &str| vec![Ev::DocStart, Ev::Scalar(s.to_string(), ScalarStyle::Literal), Ev::DocEnd];
    // accepted when the tab line is not the first line of the scalar
    assert_eq!(events("--- |\na\n\tfoo\n"), Ok(lit("a\n\tfoo\n")));
    assert_eq!(events("--- |\n\n\tfoo\n"), Ok(lit("\n\tfoo\n")));

    assert_eq!(events("--- |\n\tfoo\n"), Ok(lit("\tfoo\n")));
}

#[test]
fn f2_top_level_folded_scalar_starting_with_tab() {
    assert_eq!(
        events(">\n\tfoo\n"),
        Ok(vec![Ev::DocStart, Ev::Scalar("\tfoo\n".to_string(), ScalarStyle::Folded), Ev::DocEnd])
    );
}
