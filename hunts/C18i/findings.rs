//! Property C18 -- "For every text that starts with an ASCII character or a byte-order mark,
//! decoding its UTF-8, UTF-16LE or UTF-16BE encoding (with or without BOM) returns the same
//! documents as loading the text directly."
//!
//! All three tests below have one root cause: without a BOM the encoding is guessed from the
//! position of a zero byte among the first two bytes (`detect_utf16_endianness`), so a text that
//! has U+0000 (an ASCII character) as its first or second character is decoded with the wrong
//! encoding.  Each test FAILS on the unmodified library.
#![allow(clippy::pedantic)]

use saphyr::{LoadableYamlNode, YAMLDecodingTrap, Yaml, YamlDecoder};

fn direct(text: &str) -> String {
    format!("{:?}", Yaml::load_from_str(text).map_err(|e| e.to_string()))
}

fn decoded(bytes: &[u8], trap: YAMLDecodingTrap) -> String {
    let mut d = YamlDecoder::read(bytes);
    d.encoding_trap(trap);
    let r = d.decode();
    format!("{:?}", r.map_err(|e| e.to_string()))
}

fn traps() -> [(&'static str, YAMLDecodingTrap); 3] {
    [
        ("strict", YAMLDecodingTrap::Strict),
        ("ignore", YAMLDecodingTrap::Ignore),
        ("replace", YAMLDecodingTrap::Replace),
    ]
}

/// UTF-8 without BOM, second character is U+0000: bytes `61 00 62 63` are taken for UTF-16LE
/// and decode to "a\u{6362}"; loading the text directly gives the single document "a"
/// (NUL ends the stream).
#[test]
fn c18_utf8_text_with_nul_as_second_char_is_decoded_as_utf16le() {
    for text in ["a\0bc", "-\0- x", "a\0b"] {
        for (name, trap) in traps() {
            assert_eq!(
                decoded(text.as_bytes(), trap),
                direct(text),
                "text {text:?}, UTF-8 without BOM, trap {name}"
            );
        }
    }
}

/// UTF-8 without BOM, first character is U+0000: bytes `00 61` are taken for UTF-16BE and
/// decode to "a" (one document); loading the text directly gives no document at all.
#[test]
fn c18_utf8_text_starting_with_nul_is_decoded_as_utf16be() {
    for text in ["\0a", "\0- x"] {
        for (name, trap) in traps() {
            assert_eq!(
                decoded(text.as_bytes(), trap),
                direct(text),
                "text {text:?}, UTF-8 without BOM, trap {name}"
            );
        }
    }
}

/// UTF-16 without BOM, first character is U+0000: bytes `00 00 ...` are taken for UTF-8, so
/// every surrogate / non-ASCII code unit later in the text is "malformed" and the strict trap
/// turns a text that loads fine (to zero documents) into a decode error.
#[test]
fn c18_utf16_text_starting_with_nul_is_decoded_as_utf8() {
    let text = "\0\u{1F600}";
    let le: Vec<u8> = text.encode_utf16().flat_map(u16::to_le_bytes).collect();
    let be: Vec<u8> = text.encode_utf16().flat_map(u16::to_be_bytes).collect();
    assert_eq!(direct(text), "Ok([])");
    assert_eq!(decoded(&le, YAMLDecodingTrap::Strict), direct(text), "UTF-16LE");
    assert_eq!(decoded(&be, YAMLDecodingTrap::Strict), direct(text), "UTF-16BE");
}
