// Property C12 -- reported positions are true positions in the input.
//
// Drop into saphyr/tests/.  `cargo test --offline -p saphyr --test findings`
//
//  * f1_*  : FAIL on the unmodified library (the only violation found; it rides on the already
//            known "NUL ends the stream" behaviour, see NOTES.md).
//  * probe_*: PASS; a compact version of the oracle and of the generators that were used for the
//            (much larger) clean runs described in NOTES.md.
#![allow(clippy::all)]

use saphyr::{LoadableYamlNode, MarkedYaml, MarkedYamlOwned, YamlData, YamlDataOwned};
use saphyr_parser::{Event, Marker, Parser, ScalarStyle, ScanError, Span};

// ------------------------------------------------------------------ independent position oracle
/// (line (1-based), column (0-based)) of every char index 0..=n, from the YAML 1.2.2 definition of
/// a line break: LF, CR, or CR LF (one break).
struct Pos {
    chars: Vec<char>,
    lc: Vec<(usize, usize)>,
}
impl Pos {
    fn new(s: &str) -> Pos {
        let chars: Vec<char> = s.chars().collect();
        let n = chars.len();
        let mut lc = Vec::with_capacity(n + 1);
        let (mut line, mut col) = (1usize, 0usize);
        for i in 0..n {
            lc.push((line, col));
            match chars[i] {
                '\n' => {
                    line += 1;
                    col = 0;
                }
                '\r' if !(i + 1 < n && chars[i + 1] == '\n') => {
                    line += 1;
                    col = 0;
                }
                _ => col += 1,
            }
        }
        lc.push((line, col));
        Pos { chars, lc }
    }
    fn n(&self) -> usize {
        self.chars.len()
    }
    fn slice(&self, a: usize, b: usize) -> String {
        self.chars[a..b].iter().collect()
    }
}

fn check_marker(p: &Pos, m: &Marker, what: &str, out: &mut Vec<String>) {
    if m.index() > p.n() {
        out.push(format!("[within] {what}: index {} > len {}", m.index(), p.n()));
    } else if m.index() < p.n() && (m.line(), m.col()) != p.lc[m.index()] {
        let (l, c) = p.lc[m.index()];
        out.push(format!(
            "[line/col] {what}: index {} reported line {} col {}, counting gives line {l} col {c}",
            m.index(),
            m.line(),
            m.col()
        ));
    }
}

fn check_error(p: &Pos, e: &ScanError, what: &str, out: &mut Vec<String>) {
    check_marker(p, e.marker(), &format!("{what} error `{}`", e.info()), out);
    let shown = e.to_string();
    let want = format!("line {} column {}", e.marker().line(), e.marker().col() + 1);
    if !shown.contains(&want) {
        out.push(format!("[display] {what}: {shown:?} lacks {want:?}"));
    }
    if e.marker().index() < p.n() {
        let (l, c) = p.lc[e.marker().index()];
        let want = format!("line {} column {}", l, c + 1);
        if !shown.contains(&want) {
            out.push(format!("[display] {what}: {shown:?} lacks the true {want:?}"));
        }
    }
}

fn closing_quote(p: &Pos, start: usize) -> Option<usize> {
    let q = p.chars[start];
    let n = p.n();
    let mut i = start + 1;
    while i < n {
        match p.chars[i] {
            '\'' if q == '\'' => {
                if i + 1 < n && p.chars[i + 1] == '\'' {
                    i += 2;
                    continue;
                }
                return Some(i);
            }
            '\\' if q == '"' => {
                i += 2;
                continue;
            }
            '"' if q == '"' => return Some(i),
            _ => {}
        }
        i += 1;
    }
    None
}

type Ev = (Event<'static>, Span);

fn own(e: Event<'_>) -> Event<'static> {
    match e {
        Event::Nothing => Event::Nothing,
        Event::StreamStart => Event::StreamStart,
        Event::StreamEnd => Event::StreamEnd,
        Event::DocumentStart(b) => Event::DocumentStart(b),
        Event::DocumentEnd => Event::DocumentEnd,
        Event::Alias(a) => Event::Alias(a),
        Event::Scalar(v, s, a, t) => Event::Scalar(v.into_owned().into(), s, a, t),
        Event::SequenceStart(a, t) => Event::SequenceStart(a, t),
        Event::SequenceEnd => Event::SequenceEnd,
        Event::MappingStart(a, t) => Event::MappingStart(a, t),
        Event::MappingEnd => Event::MappingEnd,
    }
}

fn collect<'a, I: Iterator<Item = Result<(Event<'a>, Span), ScanError>>>(
    it: I,
) -> (Vec<Ev>, Option<ScanError>) {
    let mut evs = vec![];
    for x in it {
        match x {
            Ok((e, sp)) => evs.push((own(e), sp)),
            Err(e) => return (evs, Some(e)), // the iterator is not fused: stop at the first error
        }
        if evs.len() > 200_000 {
            break;
        }
    }
    (evs, None)
}

/// Every clause of C12 about events and errors, for one back-end.
fn check_events(p: &Pos, evs: &[Ev], err: &Option<ScanError>, be: &str, out: &mut Vec<String>) {
    let mut stack: Vec<Span> = vec![];
    for (i, (ev, sp)) in evs.iter().enumerate() {
        let what = format!("{be} event #{i} {ev:?}");
        check_marker(p, &sp.start, &format!("{what} start"), out);
        check_marker(p, &sp.end, &format!("{what} end"), out);
        if sp.start.index() > sp.end.index() {
            out.push(format!("[start<=end] {what}: {sp:?}"));
        }
        if matches!(
            ev,
            Event::Scalar(..) | Event::Alias(..) | Event::SequenceStart(..) | Event::MappingStart(..)
        ) {
            if let Some(parent) = stack.last() {
                if sp.start.index() < parent.start.index() {
                    out.push(format!("[nested>=parent] {what}: {sp:?} parent {parent:?}"));
                }
            }
        }
        match ev {
            Event::SequenceStart(..) | Event::MappingStart(..) => stack.push(*sp),
            Event::SequenceEnd | Event::MappingEnd => {
                let st = stack.pop().expect("balanced");
                if sp.start.index() < st.start.index() {
                    out.push(format!("[collection end>=start] {what}: {sp:?} start {st:?}"));
                }
            }
            Event::Scalar(v, style, _, _) => {
                let (a, b) = (sp.start.index(), sp.end.index());
                if a <= b && b <= p.n() {
                    let text = p.slice(a, b);
                    match style {
                        ScalarStyle::Plain => {
                            // an absent node is delivered as Scalar("~", Plain) / Scalar("", Plain)
                            // carrying the span of the following token: not a scalar of the input
                            let absent = v.is_empty() || (v == "~" && text != "~");
                            let one_line = !text.contains('\n') && !text.contains('\r');
                            if !absent
                                && (sp.start.line() == sp.end.line() || one_line)
                                && &text != v.as_ref()
                            {
                                out.push(format!("[plain covers its text] {what}: {text:?}"));
                            }
                        }
                        ScalarStyle::SingleQuoted | ScalarStyle::DoubleQuoted => {
                            let q = if *style == ScalarStyle::SingleQuoted { '\'' } else { '"' };
                            if a >= p.n() || p.chars[a] != q {
                                out.push(format!("[quoted starts at quote] {what}: {text:?}"));
                            } else if !matches!(closing_quote(p, a), Some(c) if c < b) {
                                out.push(format!("[quoted contains close] {what}: {text:?}"));
                            }
                        }
                        _ => {}
                    }
                }
            }
            _ => {}
        }
    }
    if let Some(e) = err {
        check_error(p, e, be, out);
    }
}

// reference tree: which event created which node
#[derive(Debug)]
enum RefKind {
    Leaf,
    Seq(Vec<RefNode>),
    Map(Vec<(RefNode, RefNode)>),
}
#[derive(Debug)]
struct RefNode {
    span: Span,
    kind: RefKind,
}
fn ref_docs(evs: &[Ev]) -> Vec<RefNode> {
    fn insert(stack: &mut Vec<(RefNode, Option<RefNode>)>, docs: &mut Vec<RefNode>, node: RefNode) {
        if let Some((parent, key)) = stack.last_mut() {
            match &mut parent.kind {
                RefKind::Seq(v) => v.push(node),
                RefKind::Map(m) => match key.take() {
                    None => *key = Some(node),
                    Some(k) => m.push((k, node)),
                },
                RefKind::Leaf => unreachable!(),
            }
        } else {
            docs.push(node);
        }
    }
    let mut docs = vec![];
    let mut stack: Vec<(RefNode, Option<RefNode>)> = vec![];
    for (ev, sp) in evs {
        let span = *sp;
        match ev {
            Event::Scalar(..) | Event::Alias(..) => {
                insert(&mut stack, &mut docs, RefNode { span, kind: RefKind::Leaf })
            }
            Event::SequenceStart(..) => stack.push((RefNode { span, kind: RefKind::Seq(vec![]) }, None)),
            Event::MappingStart(..) => stack.push((RefNode { span, kind: RefKind::Map(vec![]) }, None)),
            Event::SequenceEnd | Event::MappingEnd => {
                let (n, _) = stack.pop().unwrap();
                insert(&mut stack, &mut docs, n);
            }
            _ => {}
        }
    }
    docs
}
fn cmp_marked(r: &RefNode, m: &MarkedYaml<'_>, out: &mut Vec<String>) {
    if r.span != m.span {
        out.push(format!("[marked span] node {:?} event {:?}", m.span, r.span));
    }
    match (&r.kind, &m.data) {
        (RefKind::Leaf, _) => {} // scalar, or alias (a copy of the anchored node: not descended)
        (RefKind::Seq(a), YamlData::Sequence(b)) if a.len() == b.len() => {
            a.iter().zip(b).for_each(|(x, y)| cmp_marked(x, y, out));
        }
        (RefKind::Map(a), YamlData::Mapping(b)) => {
            if a.len() == b.len() {
                // (fewer entries = duplicate keys: skipped)
                for ((rk, rv), (mk, mv)) in a.iter().zip(b.iter()) {
                    cmp_marked(rk, mk, out);
                    cmp_marked(rv, mv, out);
                }
            }
        }
        _ => out.push(format!("[marked shape] {:?}", r.span)),
    }
}
fn cmp_marked_owned(r: &RefNode, m: &MarkedYamlOwned, out: &mut Vec<String>) {
    if r.span != m.span {
        out.push(format!("[marked-owned span] node {:?} event {:?}", m.span, r.span));
    }
    match (&r.kind, &m.data) {
        (RefKind::Leaf, _) => {}
        (RefKind::Seq(a), YamlDataOwned::Sequence(b)) if a.len() == b.len() => {
            a.iter().zip(b).for_each(|(x, y)| cmp_marked_owned(x, y, out));
        }
        (RefKind::Map(a), YamlDataOwned::Mapping(b)) => {
            if a.len() == b.len() {
                for ((rk, rv), (mk, mv)) in a.iter().zip(b.iter()) {
                    cmp_marked_owned(rk, mk, out);
                    cmp_marked_owned(rv, mv, out);
                }
            }
        }
        _ => out.push(format!("[marked-owned shape] {:?}", r.span)),
    }
}

/// All C12 checks for one input; returns the list of violated clauses.
fn violations(s: &str) -> Vec<String> {
    let p = Pos::new(s);
    let mut out = vec![];
    let (e1, r1) = collect(Parser::new_from_str(s));
    check_events(&p, &e1, &r1, "str", &mut out);
    let (e2, r2) = collect(Parser::new_from_iter(s.chars()));
    check_events(&p, &e2, &r2, "iter", &mut out);
    let refs = ref_docs(&e1);
    match MarkedYaml::load_from_str(s) {
        Ok(docs) => {
            if r1.is_none() && docs.len() == refs.len() {
                refs.iter().zip(&docs).for_each(|(r, m)| cmp_marked(r, m, &mut out));
            }
        }
        Err(e) => check_error(&p, &e, "MarkedYaml::load_from_str", &mut out),
    }
    match MarkedYamlOwned::load_from_str(s) {
        Ok(docs) => {
            if r1.is_none() && docs.len() == refs.len() {
                refs.iter().zip(&docs).for_each(|(r, m)| cmp_marked_owned(r, m, &mut out));
            }
        }
        Err(e) => check_error(&p, &e, "MarkedYamlOwned::load_from_str", &mut out),
    }
    out
}

// ------------------------------------------------------------------ F1 (fails on unmodified code)

/// C12: "Every position in an event span or an error lies within the input, and whenever it lies
/// before the end its line and column are exactly those obtained by counting line breaks and
/// characters up to its index."
///
/// A NUL inside the input ends the stream (known).  At that point the scanner "forces a new line"
/// (`fetch_stream_end`: `col = 0; line += 1`) without consuming anything, so every event produced
/// from there on (BlockEnd-derived MappingEnd/SequenceEnd, DocumentEnd, StreamEnd) carries
/// index = index of the NUL (which is *before the end* of the input) with line + 1 / column 0.
#[test]
fn f1_positions_at_an_interior_nul_are_not_true_positions() {
    let input = "a: b\0c\n";
    let p = Pos::new(input);
    for (be, (evs, err)) in [
        ("str", collect(Parser::new_from_str(input))),
        ("iter", collect(Parser::new_from_iter(input.chars()))),
    ] {
        assert!(err.is_none());
        let mut out = vec![];
        check_events(&p, &evs, &err, be, &mut out);
        // unmodified: MappingEnd / DocumentEnd / StreamEnd report index 4, line 2, col 0;
        // counting gives line 1, col 4 for index 4.
        assert!(out.is_empty(), "{be}: {out:#?}");
    }
}

/// Same cause, seen through an error and its printed form ("The printed form of an error shows
/// that line and the 1-based column"): the error for `[` + NUL is reported at index 1 (before the
/// end of the 3-character input) as "line 2 column 1"; index 1 is line 1, column 2.
#[test]
fn f1b_error_at_an_interior_nul_prints_a_line_that_does_not_exist_there() {
    let input = "[\0]";
    let p = Pos::new(input);
    let (_, err) = collect(Parser::new_from_str(input));
    let err = err.expect("`[` alone is an error");
    assert_eq!(err.marker().index(), 1);
    let mut out = vec![];
    check_error(&p, &err, "str", &mut out);
    assert!(out.is_empty(), "{out:#?}");
    assert!(err.to_string().ends_with("line 1 column 2"), "{err}");
}

// ------------------------------------------------------------------ probing (passes)

struct Rng(u64);
impl Rng {
    fn next(&mut self) -> u64 {
        self.0 = self.0.wrapping_add(0x9E37_79B9_7F4A_7C15);
        let mut z = self.0;
        z = (z ^ (z >> 30)).wrapping_mul(0xBF58_476D_1CE4_E5B9);
        z = (z ^ (z >> 27)).wrapping_mul(0x94D0_49BB_1331_11EB);
        z ^ (z >> 31)
    }
    fn below(&mut self, n: usize) -> usize {
        (self.next() % n as u64) as usize
    }
}

const SOUP: &[&str] = &[
    "a", "b", "key", "foo bar", "- ", "-", ": ", ":", "? ", "?", ", ", ",", "[", "]", "{", "}", " ",
    "  ", "    ", "\t", "\n", "\n", "\n", "\r\n", "\r", "#", " #c", " # \u{e9}\u{2603}\n", "'", "\"",
    "''", "\\", "\\n", "\\x41", "\\u263A", "\\\n", "\\\r\n", "|", ">", "|-", "|+", ">2", "|1-", "|\n",
    ">\n", "|2\n", "&a", "*a", "&a ", "*a ", "!", "!!", "!t", "!!str ", "!<x> ", "!e!t ",
    "%YAML 1.2\n", "%TAG !e! tag:e,2000:\n", "%FOO bar\n", "---", "--- ", "---\n", "...", "...\n",
    "\u{e9}", "\u{2603}", "\u{1F600}", "\u{85}", "\u{2028}", "\u{a0}", "~", "null", "0", "x: y",
    "- x\n", "a: b\n", "%41", "<<", "@", "`", "\n  ", "\n ", "\n    ", "\n- ", "\n  - ", "\nk: ",
    "\n  k: ", "'a'", "\"a\"", "'a\n b'", "\"a\n b\"", "[a, b]", "{a: b}", "[\n", "\n]", "? a\n: b\n",
    "-\t", ":\t", "\u{4f60}\u{597d}", "&\u{e9} ", "*\u{e9} ", "# \u{1F600}\n", " #\u{4f60}\r\n",
];

/// Random concatenations of YAML fragments (LF / CR / CRLF, multi-byte text, comments, quotes,
/// escapes, block scalar headers, anchors, tags, directives, document markers): every clause of C12
/// holds for both back-ends and for MarkedYaml / MarkedYamlOwned.
#[test]
fn probe_fragment_soup_is_clean() {
    let mut rng = Rng(0xC12);
    let mut checked = 0;
    for _ in 0..20_000 {
        let mut s = String::new();
        for _ in 0..1 + rng.below(24) {
            s.push_str(SOUP[rng.below(SOUP.len())]);
        }
        let v = violations(&s);
        assert!(v.is_empty(), "input {s:?}: {v:#?}");
        checked += 1;
    }
    assert_eq!(checked, 20_000);
}

/// All strings of up to 3 symbols over 24 syntax-relevant symbols (14 425 inputs).
/// (The full runs went to length 5 = 8.3 million inputs, see NOTES.md.)
#[test]
fn probe_exhaustive_short_inputs_are_clean() {
    let alphabet = [
        "a", " ", "\n", "\r", "\t", "-", ":", "?", "[", "]", "{", "}", ",", "#", "'", "\"", "|", ">",
        "&", "*", "!", "%", "\\", "\u{e9}",
    ];
    let k = alphabet.len();
    let mut total = 0;
    for len in 0..=3usize {
        for code in 0..k.pow(len as u32) {
            let mut s = String::new();
            let mut c = code;
            for _ in 0..len {
                s.push_str(alphabet[c % k]);
                c /= k;
            }
            let v = violations(&s);
            assert!(v.is_empty(), "input {s:?}: {v:#?}");
            total += 1;
        }
    }
    assert_eq!(total, 1 + 24 + 576 + 13_824);
}

/// Hand-picked layouts for each clause.
#[test]
fn probe_handpicked_layouts_are_clean() {
    for s in [
        "k: |\n  a\n  b\n\nx: y\n",
        "- >-\n\n   a\n\n\n",
        "[? a: [x, y], c]",
        "? \n? b\n",
        "{a: , b: c}",
        "&a\n- &b x\n",
        "a: &x [1, 2]\nb: *x\n",
        "--- |\nabc\n---\n",
        "'a'  # c\n",
        "\"a\" :\r\n  b",
        "%TAG ! tag:x\r--- !a b\r",
        "\u{4f60}\u{597d}: \"\u{1F600}\\\r\n  x\" # \u{e9}\r\n- oops",
        "a:\n- b\n-\n- &x\nc: [ *x, d: e, ? f ]\n",
        "- - - a\n    - 'b''c'\n  -\t\"d\\\"e\"\t# c\n",
        "key: |2+ # c\n    text\n\n  \n...\n",
    ] {
        let v = violations(s);
        assert!(v.is_empty(), "input {s:?}: {v:#?}");
    }
}
