// Property C17 -- pull, peek and push interfaces tell the same story.
//
// No violation was found; this file is the probe that was run and it PASSES on the unmodified
// library. It is a differential check: plain iteration (`Iterator::next` until StreamEnd or the
// first error) is the reference; against it are compared
//   * every peek/next interleaving with 0/1 peeks before each next (exhaustively, streams of up to
//     12 events) and random interleavings with 0..3 peeks (all streams), plus next/peek/load after
//     StreamEnd;
//   * `load(multi = true)` and repeated `load(multi = false)` on a fresh parser (events, spans,
//     error, one document per call);
//   * pulling up to any document boundary (with peeks), peeking 0..2 more times, then pushing;
//   * random per-document mixtures of pull, peek, load(false) and a final load(true);
//   * after the first error: peek still equals the following next and consumes nothing.
// All of this for StrInput and BufferedInput, keep_tags off and on.
//
// By default a reduced number of cases is run (fast in debug builds). `C17_FULL=1 cargo test
// --release --offline -p saphyr --test findings` runs the full counts quoted in NOTES.md.
#![allow(clippy::all, clippy::pedantic, dead_code)]

use saphyr::{LoadableYamlNode, Yaml};
use saphyr_parser::{Event, Input, Parser, ScanError, Span, SpannedEventReceiver};
use std::panic::{catch_unwind, AssertUnwindSafe};

type Ev<'a> = (Event<'a>, Span);
type Item<'a> = Result<Ev<'a>, ScanError>;

const CAP: usize = 200_000;

fn full() -> bool {
    std::env::var_os("C17_FULL").is_some()
}

struct Rec<'a> {
    evs: Vec<Ev<'a>>,
}
impl<'a> SpannedEventReceiver<'a> for Rec<'a> {
    fn on_event(&mut self, ev: Event<'a>, span: Span) {
        assert!(self.evs.len() < CAP, "push interface does not stop");
        self.evs.push((ev, span));
    }
}

struct Rng(u64);
impl Rng {
    fn next(&mut self) -> u64 {
        let mut x = self.0;
        x ^= x << 13;
        x ^= x >> 7;
        x ^= x << 17;
        self.0 = x;
        x.wrapping_mul(0x2545F4914F6CDD1D)
    }
    fn below(&mut self, n: usize) -> usize {
        (self.next() >> 11) as usize % n
    }
    fn chance(&mut self, num: usize, den: usize) -> bool {
        self.below(den) < num
    }
    fn pick<T: Copy>(&mut self, v: &[T]) -> T {
        v[self.below(v.len())]
    }
}

/// Plain iteration: the story every other interface has to tell.
fn reference<'a, T: Input>(mut p: Parser<'a, T>) -> Result<Vec<Item<'a>>, String> {
    let mut out = vec![];
    loop {
        match p.next() {
            None => break,
            Some(Ok(e)) => out.push(Ok(e)),
            Some(Err(e)) => {
                out.push(Err(e));
                break;
            }
        }
        if out.len() > CAP {
            return Err("iteration does not stop".into());
        }
    }
    // sanity of the reference itself
    match out.first() {
        Some(Ok((Event::StreamStart, _))) => {}
        other => return Err(format!("iteration does not start with StreamStart: {other:?}")),
    }
    match out.last() {
        Some(Ok((Event::StreamEnd, _))) | Some(Err(_)) => {}
        other => return Err(format!("iteration ended without StreamEnd or error: {other:?}")),
    }
    for (i, it) in out.iter().enumerate() {
        if i + 1 != out.len() && matches!(it, Ok((Event::StreamEnd, _))) {
            return Err(format!("StreamEnd in the middle at {i}"));
        }
    }
    Ok(out)
}

fn ends_with_stream_end(r: &[Item]) -> bool {
    matches!(r.last(), Some(Ok((Event::StreamEnd, _))))
}

fn peek_owned<'a, T: Input>(p: &mut Parser<'a, T>) -> Option<Item<'a>> {
    p.peek().map(|r| r.map(|x| x.clone()))
}

/// Walk `refr[from..to]` with `next`, `npeeks(i)` peeks before the i-th next.
fn walk<'a, T: Input>(
    p: &mut Parser<'a, T>,
    refr: &[Item<'a>],
    from: usize,
    to: usize,
    npeeks: &mut dyn FnMut(usize) -> usize,
) -> Result<(), String> {
    for i in from..to {
        let want = &refr[i];
        for j in 0..npeeks(i) {
            let got = peek_owned(p);
            if got.as_ref() != Some(want) {
                return Err(format!(
                    "peek #{j} before next #{i}: got {got:?}, plain iteration gives {want:?}"
                ));
            }
        }
        let got = if i % 2 == 0 { p.next() } else { p.next_event() };
        if got.as_ref() != Some(want) {
            return Err(format!(
                "next #{i}: got {got:?}, plain iteration gives {want:?}"
            ));
        }
    }
    Ok(())
}

/// After StreamEnd: nothing from anybody.
fn after_end<'a, T: Input>(p: &mut Parser<'a, T>, variant: usize) -> Result<(), String> {
    for step in 0..4 {
        let which = (variant >> step) & 3;
        match which {
            0 => {
                if let Some(x) = peek_owned(p) {
                    return Err(format!("peek after StreamEnd returned {x:?}"));
                }
            }
            1 => {
                if let Some(x) = p.next() {
                    return Err(format!("next after StreamEnd returned {x:?}"));
                }
            }
            2 => {
                let mut rec = Rec { evs: vec![] };
                let r = p.load(&mut rec, true);
                if r.is_err() || !rec.evs.is_empty() {
                    return Err(format!(
                        "load(true) after StreamEnd: {r:?} {:?}",
                        rec.evs
                    ));
                }
            }
            _ => {
                let mut rec = Rec { evs: vec![] };
                let r = p.load(&mut rec, false);
                if r.is_err() || !rec.evs.is_empty() {
                    return Err(format!(
                        "load(false) after StreamEnd: {r:?} {:?}",
                        rec.evs
                    ));
                }
            }
        }
    }
    Ok(())
}

fn history<'a, T: Input>(
    mut p: Parser<'a, T>,
    refr: &[Item<'a>],
    npeeks: &mut dyn FnMut(usize) -> usize,
    tail_variant: usize,
) -> Result<(), String> {
    walk(&mut p, refr, 0, refr.len(), npeeks)?;
    if ends_with_stream_end(refr) {
        after_end(&mut p, tail_variant)?;
    }
    Ok(())
}

fn split<'a>(refr: &[Item<'a>]) -> (Vec<Ev<'a>>, Option<ScanError>) {
    let mut evs = vec![];
    let mut err = None;
    for it in refr {
        match it {
            Ok(e) => evs.push(e.clone()),
            Err(e) => err = Some(e.clone()),
        }
    }
    (evs, err)
}

/// load(multi = true) must deliver refr[from..].
fn push_multi<'a, T: Input>(
    p: &mut Parser<'a, T>,
    refr: &[Item<'a>],
    from: usize,
    tail_variant: usize,
) -> Result<(), String> {
    let (want_evs, want_err) = split(&refr[from..]);
    let mut rec = Rec { evs: vec![] };
    let r = p.load(&mut rec, true);
    if rec.evs != want_evs {
        let d = first_diff(&rec.evs, &want_evs);
        return Err(format!("load(true) from {from}: events differ at {d}: push {:?} vs iterator {:?} (result {r:?})", rec.evs.get(d), want_evs.get(d)));
    }
    match (&r, &want_err) {
        (Ok(()), None) => {}
        (Err(a), Some(b)) if a == b => {}
        _ => {
            return Err(format!(
                "load(true) from {from}: result {r:?}, iterator error {want_err:?}"
            ))
        }
    }
    if want_err.is_none() {
        after_end(p, tail_variant)?;
    }
    Ok(())
}

fn first_diff<'a>(a: &[Ev<'a>], b: &[Ev<'a>]) -> usize {
    let mut i = 0;
    while i < a.len() && i < b.len() && a[i] == b[i] {
        i += 1;
    }
    i
}

/// What a single load(multi = false) at position `pos` (a document boundary) has to deliver.
/// Returns the end position (exclusive).
fn one_doc_chunk(refr: &[Item], pos: usize) -> usize {
    let mut i = pos;
    if i < refr.len() && matches!(refr[i], Ok((Event::StreamStart, _))) {
        i += 1;
    }
    if i >= refr.len() {
        return i;
    }
    match &refr[i] {
        Err(_) => i + 1,
        Ok((Event::StreamEnd, _)) => i + 1,
        _ => {
            while i < refr.len() {
                match &refr[i] {
                    Err(_) => return i + 1,
                    Ok((Event::DocumentEnd, _)) => return i + 1,
                    _ => i += 1,
                }
            }
            i
        }
    }
}

/// One load(multi = false) call at boundary `pos`; returns new position.
fn push_one<'a, T: Input>(
    p: &mut Parser<'a, T>,
    refr: &[Item<'a>],
    pos: usize,
) -> Result<usize, String> {
    let end = one_doc_chunk(refr, pos);
    let (want_evs, want_err) = split(&refr[pos..end]);
    let mut rec = Rec { evs: vec![] };
    let r = p.load(&mut rec, false);
    if rec.evs != want_evs {
        let d = first_diff(&rec.evs, &want_evs);
        return Err(format!("load(false) at {pos}: events differ at +{d}: push {:?} vs iterator {:?} (result {r:?}; delivered {} wanted {})", rec.evs.get(d), want_evs.get(d), rec.evs.len(), want_evs.len()));
    }
    match (&r, &want_err) {
        (Ok(()), None) => {}
        (Err(a), Some(b)) if a == b => {}
        _ => {
            return Err(format!(
                "load(false) at {pos}: result {r:?}, iterator error {want_err:?}"
            ))
        }
    }
    let docs = rec
        .evs
        .iter()
        .filter(|e| matches!(e.0, Event::DocumentStart(_)))
        .count();
    if docs > 1 {
        return Err(format!("load(false) at {pos} delivered {docs} documents"));
    }
    Ok(end)
}

fn push_single_all<'a, T: Input>(
    p: &mut Parser<'a, T>,
    refr: &[Item<'a>],
    from: usize,
    tail_variant: usize,
) -> Result<(), String> {
    let mut pos = from;
    while pos < refr.len() {
        let np = push_one(p, refr, pos)?;
        if np == pos {
            return Err("no progress".into());
        }
        pos = np;
    }
    if ends_with_stream_end(refr) {
        after_end(p, tail_variant)?;
    }
    Ok(())
}

/// Positions at which the parser is not in the middle of a document.
fn boundaries(refr: &[Item]) -> Vec<usize> {
    let mut v = vec![0];
    if refr.len() > 1 {
        v.push(1);
    }
    for (i, it) in refr.iter().enumerate() {
        if matches!(it, Ok((Event::DocumentEnd, _))) && i + 1 < refr.len() {
            v.push(i + 1);
        }
    }
    if ends_with_stream_end(refr) {
        v.push(refr.len());
    }
    v
}

fn next_boundary(b: &[usize], pos: usize, n: usize) -> usize {
    for &x in b {
        if x > pos {
            return x;
        }
    }
    n
}

/// Everything for one parser factory. Returns number of call histories run.
fn check_all<'a, T: Input, F: Fn() -> Parser<'a, T>>(
    mk: F,
    rng: &mut Rng,
    exhaustive: bool,
    nrandom: usize,
) -> Result<usize, String> {
    let refr = reference(mk())?;
    // iteration is deterministic
    let again = reference(mk())?;
    if again != refr {
        return Err("two plain iterations differ".into());
    }
    let n = refr.len();
    let mut runs = 0usize;

    // 1. peek / next interleavings
    if exhaustive && n <= 12 {
        for mask in 0u32..(1u32 << n) {
            history(
                mk(),
                &refr,
                &mut |i| ((mask >> i) & 1) as usize,
                mask as usize,
            )
            .map_err(|e| format!("mask {mask:#b}: {e}"))?;
            runs += 1;
        }
    } else {
        history(mk(), &refr, &mut |_| 0, 0x55)?;
        history(mk(), &refr, &mut |_| 1, 0x11)?;
        runs += 2;
    }
    for _ in 0..nrandom {
        let seed = rng.next();
        let mut r2 = Rng(seed | 1);
        let tv = rng.below(256);
        history(mk(), &refr, &mut |_| [0, 0, 1, 1, 2, 3][r2.below(6)], tv)
            .map_err(|e| format!("random peeks seed {seed}: {e}"))?;
        runs += 1;
    }

    // 2. push, fresh parser
    {
        let mut p = mk();
        push_multi(&mut p, &refr, 0, rng.below(256))?;
        let mut p = mk();
        push_single_all(&mut p, &refr, 0, rng.below(256))?;
        runs += 2;
    }

    // 3. pull up to a document boundary (with peeks), maybe peek, then push
    let b = boundaries(&refr);
    let tested: Vec<usize> = if b.len() > 24 && !full() {
        // reduced mode: first two, last two and twenty random boundaries
        let mut t = vec![b[0], b[1], b[b.len() - 2], b[b.len() - 1]];
        for _ in 0..20 {
            t.push(rng.pick(&b));
        }
        t
    } else {
        b.clone()
    };
    for &k in &tested {
        for extra_peek in 0..3usize {
            for multi in [true, false] {
                let mut p = mk();
                let mut r2 = Rng(rng.next() | 1);
                walk(&mut p, &refr, 0, k, &mut |_| [0, 1, 2][r2.below(3)])?;
                for _ in 0..extra_peek {
                    let got = peek_owned(&mut p);
                    if got.as_ref() != refr.get(k) {
                        return Err(format!(
                            "peek at boundary {k}: {got:?} vs {:?}",
                            refr.get(k)
                        ));
                    }
                }
                let r = if multi {
                    push_multi(&mut p, &refr, k, rng.below(256))
                } else {
                    push_single_all(&mut p, &refr, k, rng.below(256))
                };
                r.map_err(|e| format!("pull {k} events, peek x{extra_peek}, then push: {e}"))?;
                runs += 1;
            }
        }
    }

    // 4. random mixture per document: pull it, or push it with load(false), peeks in between
    for _ in 0..nrandom.max(1) {
        let mut p = mk();
        let mut pos = 0;
        let mut log = String::new();
        while pos < n {
            if rng.chance(1, 3) {
                let got = peek_owned(&mut p);
                if got.as_ref() != refr.get(pos) {
                    return Err(format!(
                        "mixture [{log}] peek at {pos}: {got:?} vs {:?}",
                        refr.get(pos)
                    ));
                }
                log.push_str("P ");
            }
            if rng.chance(1, 8) {
                log.push_str(&format!("LM@{pos} "));
                push_multi(&mut p, &refr, pos, rng.below(256)).map_err(|e| format!("mixture [{log}]: {e}"))?;
                pos = n;
            } else if rng.chance(1, 2) {
                log.push_str(&format!("L@{pos} "));
                pos = push_one(&mut p, &refr, pos).map_err(|e| format!("mixture [{log}]: {e}"))?;
            } else {
                let to = next_boundary(&b, pos, n);
                log.push_str(&format!("N{pos}..{to} "));
                let mut r2 = Rng(rng.next() | 1);
                walk(&mut p, &refr, pos, to, &mut |_| [0, 0, 1, 2][r2.below(4)])
                    .map_err(|e| format!("mixture [{log}]: {e}"))?;
                pos = to;
            }
        }
        if ends_with_stream_end(&refr) {
            after_end(&mut p, rng.below(256)).map_err(|e| format!("mixture [{log}]: {e}"))?;
        }
        runs += 1;
    }
    Ok(runs)
}

struct Stats {
    inputs: usize,
    runs: usize,
    errors_inputs: usize,
    max_events: usize,
    failures: Vec<String>,
}

impl Stats {
    fn new() -> Self {
        Stats {
            inputs: 0,
            runs: 0,
            errors_inputs: 0,
            max_events: 0,
            failures: vec![],
        }
    }
    fn finish(&self, name: &str) {
        println!(
            "[{name}] inputs {} histories {} (inputs ending in error: {}, longest stream {} events) failures {}",
            self.inputs,
            self.runs,
            self.errors_inputs,
            self.max_events,
            self.failures.len()
        );
        for f in self.failures.iter().take(40) {
            println!("FAIL {f}");
        }
        assert!(self.failures.is_empty(), "{name}: {} failures", self.failures.len());
    }
}

fn check_input(s: &str, rng: &mut Rng, exhaustive: bool, nrandom: usize, st: &mut Stats) {
    st.inputs += 1;
    if let Ok(r) = catch_unwind(AssertUnwindSafe(|| reference(Parser::new_from_str(s)))) {
        if let Ok(r) = r {
            st.max_events = st.max_events.max(r.len());
            if !ends_with_stream_end(&r) {
                st.errors_inputs += 1;
            }
        }
    }
    for kt in [false, true] {
        for input_kind in 0..2 {
            let seed = rng.next() | 1;
            let res = catch_unwind(AssertUnwindSafe(|| {
                let mut r = Rng(seed);
                if input_kind == 0 {
                    check_all(
                        || Parser::new_from_str(s).keep_tags(kt),
                        &mut r,
                        exhaustive,
                        nrandom,
                    )
                } else {
                    check_all(
                        || Parser::new_from_iter(s.chars()).keep_tags(kt),
                        &mut r,
                        exhaustive,
                        nrandom,
                    )
                }
            }));
            match res {
                Ok(Ok(n)) => st.runs += n,
                Ok(Err(e)) => st.failures.push(format!(
                    "input {s:?} keep_tags={kt} input_kind={input_kind}: {e}"
                )),
                Err(_) => st.failures.push(format!(
                    "input {s:?} keep_tags={kt} input_kind={input_kind}: PANIC"
                )),
            }
        }
    }
}

// ---------------------------------------------------------------------------------------------
// inputs
// ---------------------------------------------------------------------------------------------

fn visual_to_raw(yaml: &str) -> String {
    let mut yaml = yaml.to_owned();
    for (pat, replacement) in [
        ("␣", " "),
        ("»", "\t"),
        ("—", ""),
        ("←", "\r"),
        ("⇔", "\u{FEFF}"),
        ("↵", ""),
        ("∎\n", ""),
    ] {
        yaml = yaml.replace(pat, replacement);
    }
    yaml
}

fn suite_inputs() -> Vec<String> {
    let mut out = vec![];
    let dir = concat!(env!("CARGO_MANIFEST_DIR"), "/../parser/tests/yaml-test-suite/src");
    let mut entries: Vec<_> = std::fs::read_dir(dir).unwrap().map(|e| e.unwrap().path()).collect();
    entries.sort();
    for path in entries {
        let text = std::fs::read_to_string(&path).unwrap();
        let Ok(docs) = Yaml::load_from_str(&text) else { continue };
        let Some(tests) = docs[0].as_vec() else { continue };
        for t in tests {
            if let Some(y) = t.as_mapping_get("yaml").and_then(|y| y.as_str()) {
                out.push(visual_to_raw(y));
            }
        }
    }
    out
}

#[test]
fn c17_suite_exhaustive() {
    let inputs = suite_inputs();
    assert!(inputs.len() > 300);
    let mut rng = Rng(0x1234_5678_9abc_def1);
    let mut st = Stats::new();
    for s in &inputs {
        check_input(s, &mut rng, true, 6, &mut st);
    }
    // concatenations of suite documents: multi-document streams
    for i in 0..(if full() { inputs.len() } else { 40 }) {
        let a = &inputs[i];
        let b = &inputs[(i * 7 + 3) % inputs.len()];
        for sep in ["\n---\n", "\n...\n", "\n...\n---\n", "\n--- "] {
            let s = format!("{a}{sep}{b}");
            check_input(&s, &mut rng, false, 3, &mut st);
        }
    }
    st.finish("suite");
}

const CURATED: &[&str] = &[
    "",
    " ",
    "\n",
    "#c",
    "---",
    "...",
    "--- ---",
    "---\n---",
    "---\n...\n---\n...",
    "...\n...",
    "a",
    "a\n---\nb",
    "a\n...\nb",
    "a\n...\n---\nb\n...",
    "&a x\n---\n*a",
    "&a x\n...\n*a",
    "- &a x\n- *a\n---\n- *a",
    "--- &a x\n--- &a y\n--- [*a]",
    "--- &a x\n--- &b y\n--- &c [*c]",
    "&a [*a]",
    "*a",
    "%YAML 1.2\n---\na",
    "%YAML 1.2\n%YAML 1.2\n---\na",
    "%TAG !e! tag:e,2000:\n--- !e!x a\n--- !e!y b",
    "%TAG !e! tag:e,2000:\n--- !e!x a\n...\n%TAG !e! tag:f,2000:\n--- !e!y b",
    "%TAG !e! tag:e,2000:\n--- !e!x a\n...\n--- !e!y b\n",
    "--- !e!x a",
    "a\n%YAML 1.2\n---\nb",
    "a: b\n---\n%FOO bar",
    "%FOO\n---\na",
    "[",
    "]",
    "{",
    "}",
    "[a, b",
    "{a: b",
    "[a, b]]",
    "a: b: c",
    "a:\n\tb",
    "- a\n b",
    "a: [\n]\nb",
    "? a\n: b\n? c",
    "?",
    "? ",
    ":",
    ": a",
    "- ",
    "-",
    "- - - a",
    "- ? : x",
    "[? a: b, c: d, : e, ?]",
    "{? a, b, : c, ? : d}",
    "\"a",
    "'a",
    "\"a\\qb\"",
    "|\n a\n",
    ">\n a\n\n b\n",
    "|2\n  a",
    "|0\n a",
    "a: |\n b\nc",
    "--- |\n a\n--- >\n b\n...",
    "--- a\n... b",
    "---a",
    "--- a ---",
    "a ... b",
    "a\n... #c\n--- #c\nb",
    "\u{FEFF}a",
    "a\u{0}b",
    "a\r\n---\r\nb\r\n",
    "a\r---\rb\r",
    "!!str",
    "! a",
    "!<tag:x> a",
    "&a",
    "&a !!str",
    "!!str &a",
    "&a &b c",
    "!a !b c",
    "- &a\n- !!str\n- *a",
    "a: &x\nb: *x",
    "&x a: *x",
    "*x : a",
    "[*x]",
    "- a\n...\n- b\n...\n",
    "--- a\n--- b\n--- c\n--- d\n--- e\n--- f\n--- g\n",
    "a\n---\n[\n---\nc",
    "a\n---\n\"\n---\nc",
    "---\n--- x\n---\n",
    "--- # c\n...\n# c\n...\n",
    "%YAML 1.2\n",
    "%YAML 1.2\n...",
    "%TAG ! tag:x,2000:\n--- !a b\n--- !a c",
    "%TAG !! tag:x,2000:\n--- !!a b\n--- !!a c",
];

#[test]
fn c17_curated_exhaustive() {
    let mut rng = Rng(0x9e37_79b9_7f4a_7c15);
    let mut st = Stats::new();
    for s in CURATED {
        check_input(s, &mut rng, true, 20, &mut st);
        // the same with other line breaks
        let crlf = s.replace('\n', "\r\n");
        check_input(&crlf, &mut rng, true, 4, &mut st);
        let cr = s.replace('\n', "\r");
        check_input(&cr, &mut rng, true, 4, &mut st);
    }
    st.finish("curated");
}

/// Every string up to length 4 (5 with a smaller alphabet) over indicator characters.
#[test]
fn c17_tiny_strings_exhaustive() {
    let alpha: Vec<char> = "a-: \n[]{},&*!?#|>\"'.%\t\r".chars().collect();
    let mut rng = Rng(0xdead_beef_cafe_f00d);
    let mut st = Stats::new();
    let k = alpha.len();
    for len in 0..=(if full() { 4usize } else { 3 }) {
        let total = k.pow(len as u32);
        for mut idx in 0..total {
            let mut s = String::new();
            for _ in 0..len {
                s.push(alpha[idx % k]);
                idx /= k;
            }
            check_input(&s, &mut rng, len <= 3, 1, &mut st);
        }
    }
    st.finish("tiny");
}

#[test]
fn c17_tiny_strings_multidoc() {
    // strings over document-level tokens: all sequences up to length 6
    let toks = ["---", "...", "\n", " ", "a", "&x", "*x", "- ", ": ", "%YAML 1.2", "%TAG !e! t:", "!e!y", "[", "]", "#"];
    let mut rng = Rng(0x0bad_c0de_1234_5679);
    let mut st = Stats::new();
    let k = toks.len();
    for len in 0..=(if full() { 5usize } else { 3 }) {
        let total = k.pow(len as u32);
        for mut idx in 0..total {
            let mut s = String::new();
            for _ in 0..len {
                s.push_str(toks[idx % k]);
                idx /= k;
            }
            check_input(&s, &mut rng, len <= 3, 1, &mut st);
        }
    }
    st.finish("tiny-multidoc");
}

// --- structured random generator ---------------------------------------------------------------

fn gen_scalar(rng: &mut Rng) -> String {
    let plain = [
        "a", "b", "key", "a b", "1", "~", "null", "true", "-1", "a-b", "a:b", "a#b", "é", "日本",
        "x y z", "\u{1F600}", "-", "?x", ":x", "a\u{85}b", "a\u{2028}b",
    ];
    match rng.below(10) {
        0 => format!("\"{}\"", rng.pick(&["", "q", "a\\nb", "a b", "\\u00e9", "a\\\n  b", "x: y", "#", "\\x41"])),
        1 => format!("'{}'", rng.pick(&["", "s", "it''s", "a b", "x: y", "#"])),
        2 => {
            let n = rng.pick(&[14usize, 15, 16, 17, 127, 128, 129, 1023, 1024, 1025]);
            "k".repeat(n)
        }
        _ => rng.pick(&plain).to_string(),
    }
}

fn gen_props(rng: &mut Rng) -> String {
    let mut s = String::new();
    match rng.below(12) {
        0 => s.push_str("&a "),
        1 => s.push_str("&b "),
        2 => s.push_str("!t "),
        3 => s.push_str("!!str "),
        4 => s.push_str("!e!x "),
        5 => s.push_str("&a !t "),
        6 => s.push_str("!!map &b "),
        7 => s.push_str("!<tag:x,1:y> "),
        _ => {}
    }
    s
}

fn gen_flow(rng: &mut Rng, depth: usize, out: &mut String) {
    if rng.chance(1, 12) {
        out.push_str(rng.pick(&["*a", "*b"]));
        return;
    }
    out.push_str(&gen_props(rng));
    let c = if depth == 0 { 2 } else { rng.below(6) };
    match c {
        0 => {
            out.push('[');
            let n = rng.below(4);
            for i in 0..n {
                if i > 0 {
                    out.push_str(rng.pick(&[",", ", ", " , ", ",\n  "]));
                }
                if rng.chance(1, 5) {
                    // single pair
                    if rng.chance(1, 3) {
                        out.push_str("? ");
                    }
                    gen_flow(rng, depth - 1, out);
                    out.push_str(": ");
                    if rng.chance(3, 4) {
                        gen_flow(rng, depth - 1, out);
                    }
                } else {
                    gen_flow(rng, depth - 1, out);
                }
            }
            if n > 0 && rng.chance(1, 6) {
                out.push(',');
            }
            out.push(']');
        }
        1 => {
            out.push('{');
            let n = rng.below(4);
            for i in 0..n {
                if i > 0 {
                    out.push_str(rng.pick(&[",", ", ", " , ", ",\n  "]));
                }
                if rng.chance(1, 5) {
                    out.push_str("? ");
                }
                gen_flow(rng, depth - 1, out);
                match rng.below(4) {
                    0 => {}
                    1 => out.push_str(": "),
                    _ => {
                        out.push_str(": ");
                        gen_flow(rng, depth - 1, out);
                    }
                }
            }
            out.push('}');
        }
        _ => out.push_str(&gen_scalar(rng)),
    }
}

fn gen_block(rng: &mut Rng, depth: usize, indent: usize, out: &mut String) {
    // assumes we are positioned right after "- " / "key: " / "--- " (inline position)
    let pad = " ".repeat(indent);
    let c = if depth == 0 { 5 + rng.below(3) } else { rng.below(9) };
    match c {
        0 | 1 => {
            // block sequence on following lines
            out.push_str(&gen_props(rng));
            out.push('\n');
            let n = 1 + rng.below(3);
            for _ in 0..n {
                out.push_str(&pad);
                out.push_str("- ");
                if rng.chance(1, 8) {
                    out.push('\n');
                } else {
                    gen_block(rng, depth - 1, indent + 2, out);
                }
            }
        }
        2 | 3 => {
            out.push_str(&gen_props(rng));
            out.push('\n');
            let n = 1 + rng.below(3);
            for _ in 0..n {
                out.push_str(&pad);
                if rng.chance(1, 6) {
                    out.push_str("? ");
                    gen_block(rng, depth - 1, indent + 2, out);
                    if rng.chance(2, 3) {
                        out.push_str(&pad);
                        out.push_str(": ");
                        gen_block(rng, depth - 1, indent + 2, out);
                    }
                } else {
                    if rng.chance(1, 6) {
                        out.push_str(rng.pick(&["&a ", "!t ", "*a "]));
                    }
                    let mut k = String::new();
                    if rng.chance(1, 6) {
                        gen_flow(rng, 1, &mut k);
                        k = k.replace('\n', " ");
                    } else {
                        k = gen_scalar(rng).replace('\n', " ");
                    }
                    out.push_str(&k);
                    out.push_str(": ");
                    if rng.chance(1, 8) {
                        out.push('\n');
                    } else {
                        gen_block(rng, depth - 1, indent + 2, out);
                    }
                }
            }
        }
        4 => {
            // block scalar
            out.push_str(&gen_props(rng));
            out.push_str(rng.pick(&["|", ">", "|-", ">+", "|2", ">1-", "|+"]));
            out.push('\n');
            let n = rng.below(3);
            for _ in 0..n {
                out.push_str(&pad);
                out.push_str("  ");
                out.push_str(rng.pick(&["text", "more text", "", " indented", "# not comment"]));
                out.push('\n');
            }
        }
        5 => {
            gen_flow(rng, 2, out);
            out.push('\n');
        }
        6 => {
            out.push_str(rng.pick(&["*a", "*b"]));
            out.push('\n');
        }
        _ => {
            out.push_str(&gen_props(rng));
            out.push_str(&gen_scalar(rng));
            if rng.chance(1, 6) {
                out.push_str(" # comment");
            }
            out.push('\n');
        }
    }
}

fn gen_stream(rng: &mut Rng) -> String {
    let mut out = String::new();
    let ndocs = match rng.below(10) {
        0 => 0,
        1..=4 => 1,
        5..=7 => 2,
        8 => 3,
        _ => 4 + rng.below(8),
    };
    if rng.chance(1, 10) {
        out.push_str(rng.pick(&["# c\n", "\n", "\u{FEFF}", "  \n"]));
    }
    for d in 0..ndocs {
        let mut explicit = d > 0 || rng.chance(1, 2);
        let mut had_dir = false;
        if rng.chance(1, 6) {
            out.push_str(rng.pick(&[
                "%YAML 1.2\n",
                "%TAG !e! tag:e,2000:\n",
                "%TAG ! tag:loc,2000:\n",
                "%TAG !! tag:sec,2000:\n",
                "%FOO bar baz\n",
                "%YAML 1.2\n%TAG !e! tag:e,2000:\n",
            ]));
            explicit = true;
            had_dir = true;
        }
        let _ = had_dir;
        if explicit {
            out.push_str("---");
            match rng.below(4) {
                0 => out.push('\n'),
                _ => out.push(' '),
            }
        }
        if out.ends_with('\n') && rng.chance(1, 10) {
            // empty doc
        } else {
            let d = 1 + rng.below(3);
            gen_block(rng, d, 0, &mut out);
        }
        if !out.ends_with('\n') {
            out.push('\n');
        }
        if rng.chance(1, 3) {
            out.push_str(rng.pick(&["...\n", "... # c\n", "...\n...\n", "...\n# c\n"]));
        }
    }
    if rng.chance(1, 8) && out.ends_with('\n') {
        out.pop();
    }
    out
}

fn mutate(rng: &mut Rng, s: &str) -> String {
    let mut v: Vec<char> = s.chars().collect();
    let n = 1 + rng.below(3);
    let ins: Vec<char> = "a-: \n[]{},&*!?#|>\"'.%\t\r\u{0}\u{FEFF}é".chars().collect();
    for _ in 0..n {
        match rng.below(4) {
            0 if !v.is_empty() => {
                let i = rng.below(v.len());
                v.remove(i);
            }
            1 if !v.is_empty() => {
                let i = rng.below(v.len());
                v[i] = rng.pick(&ins);
            }
            2 if !v.is_empty() => {
                // truncate
                let i = rng.below(v.len());
                v.truncate(i);
            }
            _ => {
                let i = rng.below(v.len() + 1);
                v.insert(i, rng.pick(&ins));
            }
        }
    }
    v.into_iter().collect()
}

fn random_round(seed: u64, count: usize, name: &str) {
    let count = if full() { count } else { count / 20 };
    let mut rng = Rng(seed);
    let mut st = Stats::new();
    for i in 0..count {
        let s = gen_stream(&mut rng);
        let s = match i % 4 {
            0 | 1 => s,
            2 => mutate(&mut rng, &s),
            _ => {
                if rng.chance(1, 2) {
                    s.replace('\n', "\r\n")
                } else {
                    s.replace('\n', "\r")
                }
            }
        };
        check_input(&s, &mut rng, false, 2, &mut st);
    }
    st.finish(name);
}

#[test]
fn c17_random_a() {
    random_round(0x1111_2222_3333_4447, 60_000, "random-a");
}
#[test]
fn c17_random_b() {
    random_round(0x5555_6666_7777_888b, 60_000, "random-b");
}
#[test]
fn c17_random_c() {
    random_round(0x9999_aaaa_bbbb_cccf, 60_000, "random-c");
}
#[test]
fn c17_random_d() {
    random_round(0xdddd_eeee_ffff_0003, 60_000, "random-d");
}

/// Fragment soup: random concatenations of token-ish fragments (mostly invalid YAML).
#[test]
fn c17_fragment_soup() {
    let frags = [
        "a", "b c", "- ", ": ", "? ", "\n", "\n  ", "\n    ", " ", "[", "]", "{", "}", ",", "&x ", "*x", "!t ",
        "!!str ", "---", "...", "--- ", "\n---\n", "\n...\n", "%YAML 1.2\n", "%TAG !e! tag:e,2000:\n", "!e!y ",
        "\"q\"", "'s'", "\"", "'", "|\n", ">-\n", "#c", " #c\n", "\t", "\r\n", "\r", "é", "\u{FEFF}", ":", "-", "?",
        "\u{0}", "\u{85}", "\\", "|", ">", "%", "@", "`",
    ];
    let mut rng = Rng(0x2468_ace0_1357_9be1);
    let mut st = Stats::new();
    for _ in 0..(if full() { 120_000 } else { 5_000 }) {
        let n = 1 + rng.below(14);
        let mut s = String::new();
        for _ in 0..n {
            s.push_str(rng.pick(&frags));
        }
        check_input(&s, &mut rng, false, 1, &mut st);
    }
    st.finish("soup");
}

/// Long streams / boundary sizes.
#[test]
fn c17_long_and_boundary() {
    let mut rng = Rng(0x1357_9bdf_2468_ace1);
    let mut st = Stats::new();
    let sizes: &[usize] = if full() {
        &[14, 15, 16, 17, 18, 126, 127, 128, 129, 130, 1022, 1023, 1024, 1025, 1026, 4096]
    } else {
        &[15, 16, 17, 127, 128, 129, 1024]
    };
    for &n in sizes {
        let k = "k".repeat(n);
        let cases = vec![
            k.clone(),
            format!("{k}: v"),
            format!("{k}: v\n---\n{k}"),
            format!("[{k}: v]"),
            format!("{{{k}: v}}"),
            format!("\"{k}\": v"),
            format!("&{k} a\n--- *{k}"),
            format!("- &{k} a\n- *{k}\n"),
            format!("!{k} a"),
            format!("--- |\n {k}\n--- >\n {k}\n"),
            format!("{}a", " ".repeat(n)),
            format!("a{}# c\n---\nb", " ".repeat(n)),
            format!("#{k}\n--- a\n#{k}\n--- b"),
            format!("{}a", "\n".repeat(n)),
            format!("%TAG !e! tag:{k}\n--- !e!x a\n--- !e!x b"),
            format!("\"{k}"),
            format!("[{k}"),
        ];
        for s in cases {
            check_input(&s, &mut rng, false, 3, &mut st);
        }
        // n documents
        let mut s = String::new();
        for i in 0..n.min(1100) {
            s.push_str(&format!("--- &a{i} d{i}\n"));
            if i % 3 == 0 {
                s.push_str("...\n");
            }
        }
        check_input(&s, &mut rng, false, 3, &mut st);
        // deep
        let depth = n.min(250);
        let s = format!("{}{}", "[".repeat(depth), "]".repeat(depth));
        check_input(&s, &mut rng, false, 2, &mut st);
        let s = format!("{}x\n---\n{}", "- ".repeat(n.min(2000)), "? ".repeat(n.min(2000)));
        check_input(&s, &mut rng, false, 2, &mut st);
        let mut s = String::new();
        for i in 0..n.min(1500) {
            s.push_str(&" ".repeat(i));
            s.push_str("a:\n");
        }
        check_input(&s, &mut rng, false, 2, &mut st);
    }
    st.finish("long");
}

// --- after the first error: peek must still agree with the following next and consume nothing ---

fn post_error<'a, T: Input, F: Fn() -> Parser<'a, T>>(mk: F, rng: &mut Rng) -> Result<bool, String> {
    let refr = reference(mk())?;
    if ends_with_stream_end(&refr) {
        return Ok(false);
    }
    // twin without peeks
    let mut plain = mk();
    let mut peeky = mk();
    let n = refr.len();
    for i in 0..n + 8 {
        let np = if i + 1 < n { rng.below(2) } else { rng.below(4) };
        let mut last_peek = None;
        for _ in 0..np {
            let pk = peek_owned(&mut peeky);
            if let Some(lp) = &last_peek {
                if lp != &pk {
                    return Err(format!("step {i}: two peeks in a row differ: {lp:?} then {pk:?}"));
                }
            }
            last_peek = Some(pk);
        }
        let a = peeky.next();
        let b = plain.next();
        if let Some(pk) = last_peek {
            if pk != a {
                return Err(format!("step {i} (first error at {}): peek {pk:?} but next {a:?}", n - 1));
            }
        }
        if a != b {
            return Err(format!("step {i} (first error at {}): with peeks {a:?}, without {b:?}", n - 1));
        }
    }
    Ok(true)
}

fn post_error_input(s: &str, rng: &mut Rng, st: &mut Stats) {
    st.inputs += 1;
    for input_kind in 0..2 {
        let seed = rng.next() | 1;
        let res = catch_unwind(AssertUnwindSafe(|| {
            let mut r = Rng(seed);
            if input_kind == 0 {
                post_error(|| Parser::new_from_str(s), &mut r)
            } else {
                post_error(|| Parser::new_from_iter(s.chars()), &mut r)
            }
        }));
        match res {
            Ok(Ok(true)) => {
                st.runs += 1;
                st.errors_inputs += 1
            }
            Ok(Ok(false)) => {}
            Ok(Err(e)) => st.failures.push(format!("input {s:?} input_kind={input_kind}: {e}")),
            Err(_) => st.failures.push(format!("input {s:?} input_kind={input_kind}: PANIC")),
        }
    }
}

#[test]
fn c17_post_error() {
    let mut rng = Rng(0x7777_1234_4321_7779);
    let mut st = Stats::new();
    for s in suite_inputs() {
        post_error_input(&s, &mut rng, &mut st);
    }
    for s in CURATED {
        post_error_input(s, &mut rng, &mut st);
    }
    let alpha: Vec<char> = "a-: \n[]{},&*!?#|>\"'.%\t\r".chars().collect();
    let k = alpha.len();
    for len in 0..=(if full() { 4usize } else { 3 }) {
        let total = k.pow(len as u32);
        for mut idx in 0..total {
            let mut s = String::new();
            for _ in 0..len {
                s.push(alpha[idx % k]);
                idx /= k;
            }
            post_error_input(&s, &mut rng, &mut st);
        }
    }
    for i in 0..(if full() { 100_000 } else { 5_000 }) {
        let s = gen_stream(&mut rng);
        let s = if i % 2 == 0 { mutate(&mut rng, &s) } else { s };
        post_error_input(&s, &mut rng, &mut st);
    }
    st.finish("post-error");
}
