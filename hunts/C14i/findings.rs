// C14 -- line-break style does not change the parse.
//
// No violation was found; every test in this file PASSES on the unmodified library and documents
// the probing. Oracle: differential. For a CR-free input `s`, the event stream of `s` (events,
// scalar text, line/col of both ends of every span, error message + line/col; character indices
// are ignored) must equal that of `s.replace('\n', "\r\n")` and of `s.replace('\n', "\r")`, under
// both `Parser::new_from_str` (StrInput) and `Parser::new(BufferedInput)` (16-char look-ahead
// buffer, which panics on any read beyond what was looked ahead -- panics are caught and count as
// discrepancies). For a quarter of the cases `YamlOwned::load_from_str` is compared as well.
//
// Defaults are sized for a quick run. The full campaign reported in NOTES.md was
//   C14_N=2000000 C14_SEED=777 C14_DEPTH=4 C14_DEEP=7 cargo test --offline --release -p saphyr --test findings
// Environment: C14_N (random cases per generator), C14_SEED, C14_DEPTH / C14_DEEP (enumeration depth).
#![allow(clippy::all, clippy::pedantic)]
use saphyr::{LoadableYamlNode, Yaml, YamlOwned};
use saphyr_parser::{BufferedInput, Event, Parser, ScanError, Span};
use std::collections::BTreeMap;
use std::panic::{catch_unwind, AssertUnwindSafe};

struct Rng(u64);
impl Rng {
    fn next(&mut self) -> u64 {
        self.0 ^= self.0 << 13;
        self.0 ^= self.0 >> 7;
        self.0 ^= self.0 << 17;
        self.0
    }
    fn below(&mut self, n: usize) -> usize {
        (self.next() % (n as u64)) as usize
    }
}

type Ev = (Event<'static>, usize, usize, usize, usize);
#[derive(PartialEq, Debug, Clone)]
struct Outcome {
    events: Vec<Ev>,
    error: Option<(String, usize, usize)>,
}

fn own(ev: Event<'_>) -> Event<'static> {
    match ev {
        Event::Scalar(s, st, a, t) => Event::Scalar(s.into_owned().into(), st, a, t),
        Event::Nothing => Event::Nothing,
        Event::StreamStart => Event::StreamStart,
        Event::StreamEnd => Event::StreamEnd,
        Event::DocumentStart(b) => Event::DocumentStart(b),
        Event::DocumentEnd => Event::DocumentEnd,
        Event::Alias(a) => Event::Alias(a),
        Event::SequenceStart(a, t) => Event::SequenceStart(a, t),
        Event::SequenceEnd => Event::SequenceEnd,
        Event::MappingStart(a, t) => Event::MappingStart(a, t),
        Event::MappingEnd => Event::MappingEnd,
    }
}

fn collect<'a, I: Iterator<Item = Result<(Event<'a>, Span), ScanError>>>(it: I) -> Outcome {
    let mut events = vec![];
    let mut error = None;
    let mut n = 0;
    for x in it {
        n += 1;
        if n > 100_000 {
            error = Some(("TOO MANY EVENTS".to_string(), 0, 0));
            break;
        }
        match x {
            Ok((ev, sp)) => events.push((
                own(ev),
                sp.start.line(),
                sp.start.col(),
                sp.end.line(),
                sp.end.col(),
            )),
            Err(e) => {
                error = Some((e.info().to_string(), e.marker().line(), e.marker().col()));
                break;
            }
        }
    }
    Outcome { events, error }
}

fn run_str(s: &str) -> Result<Outcome, String> {
    catch_unwind(AssertUnwindSafe(|| collect(Parser::new_from_str(s))))
        .map_err(|e| panic_msg(&e))
}
fn run_iter(s: &str) -> Result<Outcome, String> {
    catch_unwind(AssertUnwindSafe(|| {
        collect(Parser::new(BufferedInput::new(s.chars())))
    }))
    .map_err(|e| panic_msg(&e))
}
fn panic_msg(e: &Box<dyn std::any::Any + Send>) -> String {
    if let Some(s) = e.downcast_ref::<String>() {
        s.clone()
    } else if let Some(s) = e.downcast_ref::<&str>() {
        (*s).to_string()
    } else {
        "panic".into()
    }
}

fn load(s: &str) -> Result<Result<Vec<YamlOwned>, (String, usize, usize)>, String> {
    catch_unwind(AssertUnwindSafe(|| match YamlOwned::load_from_str(s) {
        Ok(v) => Ok(v),
        Err(e) => Err((e.info().to_string(), e.marker().line(), e.marker().col())),
    }))
    .map_err(|e| panic_msg(&e))
}

fn sig(a: &Result<Outcome, String>, b: &Result<Outcome, String>) -> String {
    match (a, b) {
        (Err(p), _) => format!("PANIC-LF {p}"),
        (_, Err(p)) => format!("PANIC {p}"),
        (Ok(a), Ok(b)) => {
            // first difference
            for (i, (x, y)) in a.events.iter().zip(b.events.iter()).enumerate() {
                if x != y {
                    let _ = i;
                    let k = if x.0 != y.0 { "event" } else { "span" };
                    return format!(
                        "{k} {:?} vs {:?}",
                        std::mem::discriminant(&x.0),
                        std::mem::discriminant(&y.0)
                    );
                }
            }
            format!("err {:?} vs {:?}", a.error, b.error)
        }
    }
}

struct Stats {
    cases: usize,
    found: BTreeMap<String, (String, String)>,
    counts: BTreeMap<String, usize>,
}

fn check(input: &str, st: &mut Stats, do_load: bool) {
    if input.contains('\r') {
        return;
    }
    st.cases += 1;
    let base = run_str(input);
    let base_iter = run_iter(input);
    if base != base_iter {
        let k = format!("STR/ITER-LF {}", sig(&base, &base_iter));
        *st.counts.entry(k.clone()).or_default() += 1;
        let e = st.found.entry(k).or_insert_with(|| (input.to_string(), String::new()));
        if input.len() < e.0.len() {
            e.0 = input.to_string();
        }
    }
    let base_load = if do_load { Some(load(input)) } else { None };
    for (name, rep) in [("CRLF", "\r\n"), ("CR", "\r")] {
        let v = input.replace('\n', rep);
        for (iname, r) in [("str", run_str(&v)), ("iter", run_iter(&v))] {
            if r != base {
                let k = format!("{name}/{iname} {}", sig(&base, &r));
                *st.counts.entry(k.clone()).or_default() += 1;
                let e = st
                    .found
                    .entry(k)
                    .or_insert_with(|| (input.to_string(), format!("{:?}\n   vs\n{:?}", base, r)));
                if input.len() < e.0.len() {
                    *e = (input.to_string(), format!("{:?}\n   vs\n{:?}", base, r));
                }
            }
        }
        if let Some(bl) = &base_load {
            let l = load(&v);
            if &l != bl {
                let k = format!("{name}/load");
                *st.counts.entry(k.clone()).or_default() += 1;
                let e = st
                    .found
                    .entry(k)
                    .or_insert_with(|| (input.to_string(), format!("{:?}\n   vs\n{:?}", bl, l)));
                if input.len() < e.0.len() {
                    *e = (input.to_string(), format!("{:?}\n   vs\n{:?}", bl, l));
                }
            }
        }
    }
}

fn report(st: &Stats, label: &str) {
    eprintln!("== {label}: {} cases, {} distinct discrepancy classes", st.cases, st.found.len());
    for (k, (inp, detail)) in &st.found {
        eprintln!("--- [{}x] {k}\n    input: {inp:?}\n    {detail}", st.counts[k]);
    }
}

fn visual_to_raw(yaml: &str) -> String {
    let mut yaml = yaml.to_owned();
    for (pat, replacement) in [
        ("␣", " "),
        ("»", "\t"),
        ("—", ""),
        ("←", "\r"),
        ("⇔", "\u{FEFF}"),
        ("↵", ""),
        ("∎\n", ""),
    ] {
        yaml = yaml.replace(pat, replacement);
    }
    yaml
}

fn corpus() -> Vec<String> {
    let mut out = vec![];
    let dir = concat!(env!("CARGO_MANIFEST_DIR"), "/../parser/tests/yaml-test-suite/src");
    let mut entries: Vec<_> = std::fs::read_dir(dir).unwrap().map(|e| e.unwrap().path()).collect();
    entries.sort();
    for p in entries {
        let txt = std::fs::read_to_string(&p).unwrap();
        let Ok(docs) = Yaml::load_from_str(&txt) else { continue };
        let Some(tests) = docs[0].as_vec() else { continue };
        for t in tests {
            if let Some(y) = t.as_mapping_get("yaml").and_then(|y| y.as_str()) {
                let raw = visual_to_raw(y);
                if !raw.contains('\r') {
                    out.push(raw);
                }
            }
        }
    }
    out
}

const FRAGS: &[&str] = &[
    "\n", "\n", "\n", "\n", " ", " ", " ", "  ", "\t", "a", "b", "c", "-", "- ", "-\n", "?", "? ", "?\n", ":", ": ",
    ":\n", ",", "[", "]", "{", "}", "#", " #", "# c", "&a", "&a ", "*a", "*a ", "!", "!t ", "!!str ", "!<x> ", "|",
    "|\n", "|-\n", "|+\n", "|2\n", "|1-", ">", ">\n", ">-\n", ">+\n", ">2\n", "'", "\"", "''", "\\", "\\\n", "\\n",
    "\\x41", "\\ ", "\\\t", "---", "--- ", "---\n", "...", "...\n", "%YAML 1.2\n", "%TAG ! tag:x,2000:\n", "%FOO bar\n", "%",
    "é", "\u{85}", "\u{2028}", "\u{FEFF}", "key: v\n", "- x\n", "a: |\n  x\n", "\"a\n b\"", "'a\n\n b'", "a\n b\n",
    "\n\n", " \n", "\t\n", "\n ", "\n  ", "\n   ", "\n\t", "0", "~", "x: ", "[a, b]", "{a: b}", "<<", "@", "`", "\0", "\u{FEFF}\n", "\u{2029}", "\u{7f}", "\u{1}", "\u{10FFFF}", "\u{FFFE}",
];

fn gen_soup(r: &mut Rng) -> String {
    let n = 1 + r.below(14);
    let mut s = String::new();
    for _ in 0..n {
        s.push_str(FRAGS[r.below(FRAGS.len())]);
    }
    s
}

fn mutate(r: &mut Rng, corpus: &[String]) -> String {
    let base = &corpus[r.below(corpus.len())];
    let mut chars: Vec<char> = base.chars().collect();
    let nm = 1 + r.below(3);
    for _ in 0..nm {
        match r.below(6) {
            0 if !chars.is_empty() => {
                let i = r.below(chars.len());
                chars.remove(i);
            }
            1 => {
                let i = r.below(chars.len() + 1);
                let f: Vec<char> = FRAGS[r.below(FRAGS.len())].chars().collect();
                for (k, c) in f.into_iter().enumerate() {
                    chars.insert(i + k, c);
                }
            }
            2 if !chars.is_empty() => {
                let i = r.below(chars.len());
                let f: Vec<char> = FRAGS[r.below(FRAGS.len())].chars().collect();
                chars[i] = f[0];
            }
            3 if !chars.is_empty() => {
                // truncate
                let i = r.below(chars.len());
                chars.truncate(i);
            }
            4 => {
                // splice with another
                let other: Vec<char> = corpus[r.below(corpus.len())].chars().collect();
                let i = r.below(chars.len() + 1);
                let j = r.below(other.len() + 1);
                chars.truncate(i);
                chars.extend_from_slice(&other[j..]);
            }
            _ if !chars.is_empty() => {
                // duplicate a newline or swap newline with neighbour
                let nl: Vec<usize> = chars.iter().enumerate().filter(|(_, c)| **c == '\n').map(|(i, _)| i).collect();
                if !nl.is_empty() {
                    let i = nl[r.below(nl.len())];
                    if r.below(2) == 0 {
                        chars.insert(i, '\n');
                    } else if i + 1 < chars.len() {
                        chars.swap(i, i + 1);
                    }
                }
            }
            _ => {}
        }
    }
    chars.into_iter().filter(|c| *c != '\r').collect()
}

fn seed() -> u64 {
    std::env::var("C14_SEED").ok().and_then(|s| s.parse().ok()).unwrap_or(0)
}
fn budget(default: usize) -> usize {
    std::env::var("C14_N").ok().and_then(|s| s.parse().ok()).unwrap_or(default)
}

#[test]
fn corpus_clean() {
    let c = corpus();
    let mut st = Stats { cases: 0, found: BTreeMap::new(), counts: BTreeMap::new() };
    for s in &c {
        check(s, &mut st, true);
    }
    report(&st, "corpus");
    assert!(st.found.is_empty());
}

#[test]
fn soup() {
    let mut st = Stats { cases: 0, found: BTreeMap::new(), counts: BTreeMap::new() };
    let mut r = Rng(0x9E3779B97F4A7C15 ^ seed());
    for i in 0..budget(50_000) {
        let s = gen_soup(&mut r);
        check(&s, &mut st, i % 4 == 0);
    }
    report(&st, "soup");
    assert!(st.found.is_empty());
}

#[test]
fn mutants() {
    let c = corpus();
    let mut st = Stats { cases: 0, found: BTreeMap::new(), counts: BTreeMap::new() };
    let mut r = Rng(0xDEADBEEFCAFEF00D ^ seed());
    for i in 0..budget(50_000) {
        let s = mutate(&mut r, &c);
        check(&s, &mut st, i % 4 == 0);
    }
    report(&st, "mutants");
    assert!(st.found.is_empty());
}

// ---------------------------------------------------------------------------------------------
// Exhaustive enumeration over a small alphabet, in several contexts (prefix / suffix).
fn enum_rec(alpha: &[&str], depth: usize, cur: &mut String, f: &mut dyn FnMut(&str)) {
    f(cur);
    if depth == 0 {
        return;
    }
    for a in alpha {
        let l = cur.len();
        cur.push_str(a);
        enum_rec(alpha, depth - 1, cur, f);
        cur.truncate(l);
    }
}

#[test]
fn exhaustive_small() {
    let mut st = Stats { cases: 0, found: BTreeMap::new(), counts: BTreeMap::new() };
    let alpha: &[&str] = &[
        "\n", " ", "a", "-", ":", "#", "\"", "'", "|", ">", "[", "]", ",", "?", "\\", "\t", "{", "}", "&", "*", "!",
        "%", ".",
    ];
    let depth: usize = std::env::var("C14_DEPTH").ok().and_then(|s| s.parse().ok()).unwrap_or(3);
    let prefixes: &[&str] = &[
        "", "- ", "a:\n ", "a: ", "[", "{", "\"", "'", "|\n ", ">\n ", "- |\n  ", "a: >-\n  x\n", "--- ", "---\n", "...\n",
        "%YAML 1.2\n", "? ", "- - ", "a:\n  b:\n", "[a,\n", "{a: b,\n", "\"x\\", "&a ", "!t ", "a\n", "- a\n",
        "a: |2\n", "|+\n", ">+\n x\n",
    ];
    let suffixes: &[&str] = &["", "\n", "\nb", "\n...\n", "\n---\nc\n"];
    for p in prefixes {
        for s in suffixes {
            let mut cur = String::new();
            enum_rec(alpha, depth, &mut cur, &mut |mid: &str| {
                if !mid.contains('\n') && !p.contains('\n') && !s.contains('\n') {
                    return;
                }
                let input = format!("{p}{mid}{s}");
                check(&input, &mut st, false);
            });
        }
    }
    report(&st, "exhaustive_small");
    assert!(st.found.is_empty());
}

// Deeper enumeration on a reduced alphabet, no context.
#[test]
fn exhaustive_deep() {
    let mut st = Stats { cases: 0, found: BTreeMap::new(), counts: BTreeMap::new() };
    let alphas: &[&[&str]] = &[
        &["\n", " ", "a", "-", ":", "#", "\"", "|", "["],
        &["\n", " ", "a", "'", ">", "]", ",", "?", "\\"],
        &["\n", " ", "\t", "a", "-", ":", "{", "}", "."],
        &["\n", " ", "a", "&", "*", "!", "%", ":", "-"],
        &["\n", " ", "a", "|", ">", "+", "-", "1", "#"],
        &["\n", " ", "a", "\"", "\\", "'", "\t", "#", ":"],
    ];
    let depth: usize = std::env::var("C14_DEEP").ok().and_then(|s| s.parse().ok()).unwrap_or(5);
    for alpha in alphas {
        let mut cur = String::new();
        enum_rec(alpha, depth, &mut cur, &mut |mid: &str| {
            if !mid.contains('\n') {
                return;
            }
            check(mid, &mut st, false);
        });
    }
    report(&st, "exhaustive_deep");
    assert!(st.found.is_empty());
}

#[test]
fn sanity_harness() {
    // the harness sees spans and text
    let a = run_str("- a\n- \"b\n  c\"\n- |\n  x\n  y\n").unwrap();
    let b = run_str("- a\r\n- \"b\r\n  c\"\r\n- |\r\n  x\r\n  y\r\n").unwrap();
    let c = run_str("- a\r- \"b\r  c\"\r- |\r  x\r  y\r").unwrap();
    assert_eq!(a, b);
    assert_eq!(a, c);
    let d = run_str("- a\n\n- \"b\n  c\"\n- |\n  x\n  y\n").unwrap();
    assert_ne!(a, d);
    let e = run_str("- a\n- \"b\n  c\"\n- |\n  x\n  y\n:").unwrap();
    let f = run_str("- a\n- \"b\n  c\"\n- |\n  x\n  y\n\n:").unwrap();
    eprintln!("{:?} {:?}", e.error, f.error);
    assert_ne!(e, f);
}

// ---------------------------------------------------------------------------------------------
// Boundary lengths: templates with repetition parameters.
fn expand(t: &str, n: usize, m: usize) -> String {
    // P = 'x'*n, Q = 'y'*m, S = ' '*n, T = ' '*m, B = '\n'*n, C = '\n'*m, W = "ab "*n
    let mut out = String::new();
    for c in t.chars() {
        match c {
            'P' => out.extend(std::iter::repeat('x').take(n)),
            'Q' => out.extend(std::iter::repeat('y').take(m)),
            'S' => out.extend(std::iter::repeat(' ').take(n)),
            'T' => out.extend(std::iter::repeat(' ').take(m)),
            'B' => out.extend(std::iter::repeat('\n').take(n)),
            'C' => out.extend(std::iter::repeat('\n').take(m)),
            'W' => out.extend(std::iter::repeat("ab ").take(n)),
            'É' => out.extend(std::iter::repeat('é').take(n)),
            c => out.push(c),
        }
    }
    out
}

const TEMPLATES: &[&str] = &[
    "P\n", "P\nQ\n", "# P\nk: v\n", "k: v # P\nj: w\n", "k: P\nj: Q\n", "P: v\nQ: w\n", "P:\n  Q\n",
    "- |\nS x\nS y\n", "- |\nS x\nT\nS y\n", "- |\nS x\nT\n", "- |\nT\nS x\n", "- |+\nS x\nT\nC", "- >\nS P\nT\nS  Q\n",
    "- >-\nS x\nS y\nC", "|\nP\nQ\n", ">\nP\nQ\n\n", "|\nS\nT\n", "|+\nS\nT\n", "|+\nBx", "a: |\n xP\nC yQ\n",
    "\"PB Q\"", "\"P\nSQ\"", "\"PS\nTQ\"", "'PC Q'", "'P\nSQ'", "'PS\nTQ'", "\"P\\\nSQ\"", "\"PT\\\nSQ\"", "\"P\\\nB Q\"",
    "a PB Q\n", "a PS\nTQ\n", "- a PS\nT Q\n", "k: a P\nS b Q\n", "[P,\nQ]", "[P,S\nTQ]", "[\nSa\n]", "{P: Q,\nS Q: P}\n",
    "{P: Q,S# c\nT Q: P}\n", "[ \"P\"\nS: Q ]", "{ \"P\"\nS: Q }", "k:S# P\nj: v\n", "k: vS\nj: wT\n", "k: v\nS\nj: w\n",
    "k: v\nS# Q\nj: w\n", "? P\n: Q\n", "? |\n P\n: >\n Q\n", "!P v\n", "&P v\n", "- &P\n- *P\n", "%FOO P\n---\na\n", "%FOOS\n--- a\n",
    "%YAML 1.2S\n---\na\n", "%YAML 1.2 # P\n---\na\n", "%TAG !P! tag:Q\n---\n!P!a b\n", "--- P\n...S\n--- Q\n", "---S# P\na\n...T# Q\n",
    "--- |\nP\n--- >\nQ\n", "S- P\nS- Q\n", "k:\nS- a\nS- b\n", "k:\nSj: P\nSi: Q\n", "k:\nSj: |\nS Q\nSi: 1\n", "- - - P\n    - Q\n",
    "W\n", "- W\n  W\n", "\"W\n W\"", "'W\n W'", "k: >\n W\n W\n", "[W,\n W]", "É\nÉ: É\n", "\"É\nÉ\"", "- |\nSÉ\nSÉ\n",
    "a:SB b\n", "a:\nBSb\n", "-SB- a\n", "[BS]", "\"BS\"", "'B'", "B", "SB", "B---B...B", "P\t\nQ", "P \t\nS\tQ", "\"P\t\n\tQ\"",
    "k: |S\n Q\n", "k: |S# P\n Q\n", "k: |2\nS Q\n", "k: |1\nT Q\nS P\n", "k: >\nT Q\nB", "k: |-\nT Q\nBS",
    "P: [a,\nS b]\n", "\"P\": Q\n", "'P': Q\n", "[P: Q]\n", "[\"P\": Q]\n", "[a, PS\n: Q]\n", "{ PS\n: Q }\n",
];

#[test]
fn boundaries() {
    let mut st = Stats { cases: 0, found: BTreeMap::new(), counts: BTreeMap::new() };
    let mut sizes: Vec<usize> = (0..=20).collect();
    sizes.extend([30, 31, 32, 33, 34, 62, 63, 64, 65, 66, 124, 125, 126, 127, 128, 129, 130, 131, 254, 255, 256, 257]);
    let big = [510usize, 511, 512, 513, 1020, 1021, 1022, 1023, 1024, 1025, 1026, 1027, 2047, 2048, 2049];
    for t in TEMPLATES {
        for &n in &sizes {
            for &m in &sizes {
                check(&expand(t, n, m), &mut st, (n + m) % 5 == 0);
            }
        }
        for &n in &big {
            for &m in &[0usize, 1, 2, 15, 16, 17, 127, 128, 1023, 1024, 1025] {
                check(&expand(t, n, m), &mut st, false);
                check(&expand(t, m, n), &mut st, false);
            }
        }
    }
    report(&st, "boundaries");
    assert!(st.found.is_empty());
}

// ---------------------------------------------------------------------------------------------
// Model-rendered streams: random trees, rendered (a) by the library's emitter, (b) by an
// independent renderer that uses many layouts.
fn gen_text(r: &mut Rng) -> String {
    const W: &[&str] = &[
        "a", "b", "foo", "bar baz", " ", "  ", "\n", "\n\n", "\n ", " \n", "\t", "#", " #", ": ", ":", "- ", "-", "'", "\"", "\\",
        "é", "0", "~", "null", "true", "1.5", "[", "]", "{", "}", ",", "?", "!", "&", "*", "|", ">", "%", "@", "`", "---", "...",
        "\u{85}", "\u{a0}", "\u{2028}", "x: y", "long word here",
    ];
    let n = r.below(6);
    let mut s = String::new();
    for _ in 0..n {
        s.push_str(W[r.below(W.len())]);
    }
    s
}

fn gen_tree(r: &mut Rng, depth: usize) -> Yaml<'static> {
    let k = if depth == 0 { r.below(3) } else { r.below(6) };
    match k {
        0 | 1 | 2 => Yaml::Value(saphyr::Scalar::String(gen_text(r).into())),
        3 => Yaml::Sequence((0..r.below(4)).map(|_| gen_tree(r, depth - 1)).collect()),
        _ => {
            let mut m = saphyr::Mapping::new();
            for _ in 0..r.below(4) {
                let key = if r.below(5) == 0 { gen_tree(r, depth - 1) } else { Yaml::Value(saphyr::Scalar::String(gen_text(r).into())) };
                m.insert(key, gen_tree(r, depth - 1));
            }
            Yaml::Mapping(m)
        }
    }
}

#[test]
fn emitter_rendered() {
    let mut st = Stats { cases: 0, found: BTreeMap::new(), counts: BTreeMap::new() };
    let mut r = Rng(0x1234_5678_9ABC_DEF1 ^ seed());
    for i in 0..budget(50_000) {
        let mut out = String::new();
        let ndocs = 1 + r.below(2);
        for _ in 0..ndocs {
            let t = gen_tree(&mut r, 3);
            let mut em = saphyr::YamlEmitter::new(&mut out);
            em.compact(r.below(2) == 0);
            em.multiline_strings(r.below(2) == 0);
            em.dump(&t).unwrap();
            out.push('\n');
        }
        check(&out, &mut st, i % 4 == 0);
    }
    report(&st, "emitter_rendered");
    assert!(st.found.is_empty());
}

// Independent renderer with layout variety.
fn render_scalar(r: &mut Rng, s: &str, indent: usize, in_flow: bool, out: &mut String) {
    let pad = " ".repeat(indent + 1);
    let style = r.below(5);
    let printable_plain = !s.is_empty()
        && !s.contains(['\n', '#', ':', '\t', '\u{85}'])
        && !s.starts_with(|c: char| " -?:,[]{}#&*!|>'\"%@`".contains(c))
        && !s.ends_with(' ')
        && !s.contains("  ")
        && !(in_flow && s.contains([',', '[', ']', '{', '}']))
        && s != "---"
        && s != "...";
    match style {
        0 if printable_plain => {
            // plain, folded over several lines at single spaces
            for (i, w) in s.split(' ').enumerate() {
                if i > 0 {
                    if r.below(2) == 0 {
                        out.push('\n');
                        out.push_str(&pad);
                        out.push_str(&" ".repeat(r.below(3)));
                    } else {
                        out.push(' ');
                    }
                }
                out.push_str(w);
            }
        }
        1 if !in_flow && !s.is_empty() && !s.starts_with([' ', '\n']) && !s.contains('\t') => {
            // literal with explicit handling of trailing breaks
            let body = s.trim_end_matches('\n');
            let trailing = s.len() - body.len();
            if body.is_empty() || body.ends_with(' ') || body.contains("\n ") {
                render_dq(r, s, &pad, out);
                return;
            }
            out.push('|');
            out.push_str(match trailing {
                0 => "-",
                1 => "",
                _ => "+",
            });
            if r.below(3) == 0 {
                out.push_str(" # comment");
            }
            out.push('\n');
            for l in body.split('\n') {
                if !l.is_empty() {
                    out.push_str(&pad);
                    out.push_str(l);
                } else if r.below(2) == 0 {
                    out.push_str(&" ".repeat(r.below(pad.len() + 1)));
                }
                out.push('\n');
            }
            for _ in 1..trailing {
                out.push('\n');
            }
            // the caller must not add anything on this line
            out.push('\u{1}');
        }
        2 | 3 if !s.contains(" \n") && !s.contains("\n ") && !s.contains('\t') => {
            // single quoted with folding: a run of k breaks is written as k+1 breaks
            out.push('\'');
            let cs: Vec<char> = s.chars().collect();
            let mut i = 0;
            while i < cs.len() {
                match cs[i] {
                    '\'' => out.push_str("''"),
                    '\n' => {
                        let mut k = 0;
                        while i < cs.len() && cs[i] == '\n' {
                            k += 1;
                            i += 1;
                        }
                        for j in 0..=k {
                            out.push('\n');
                            if j < k && r.below(2) == 0 {
                                out.push_str(&" ".repeat(r.below(pad.len() + 2)));
                            }
                        }
                        out.push_str(&pad);
                        out.push_str(&" ".repeat(r.below(3)));
                        continue;
                    }
                    ' ' if i > 0 && i + 1 < cs.len() && cs[i - 1] != ' ' && cs[i + 1] != ' ' && r.below(3) == 0 => {
                        out.push('\n');
                        out.push_str(&pad);
                    }
                    c => out.push(c),
                }
                i += 1;
            }
            out.push('\'');
        }
        _ => render_dq(r, s, &pad, out),
    }
}

fn render_dq(r: &mut Rng, s: &str, pad: &str, out: &mut String) {
    out.push('"');
    let mut line_start = false;
    for c in s.chars() {
        if line_start && (c == ' ') {
            out.push_str("\\ ");
            line_start = false;
            continue;
        }
        line_start = false;
        match c {
            '"' => out.push_str("\\\""),
            '\\' => out.push_str("\\\\"),
            '\n' => {
                if r.below(2) == 0 {
                    out.push_str("\\n");
                } else {
                    out.push_str("\\n\\\n");
                    out.push_str(pad);
                    out.push_str(&" ".repeat(r.below(3)));
                    line_start = true;
                }
            }
            '\t' => out.push_str("\\t"),
            ' ' if r.below(4) == 0 => {
                out.push_str("\\\n");
                out.push_str(pad);
                out.push_str("\\ ");
            }
            c => out.push(c),
        }
    }
    out.push('"');
}

fn comment(r: &mut Rng, out: &mut String) {
    if r.below(4) == 0 {
        out.push_str(&" ".repeat(1 + r.below(3)));
        out.push_str("# c");
        out.push_str(&"o".repeat(r.below(20)));
    } else if r.below(6) == 0 {
        out.push_str(&" ".repeat(r.below(3)));
    }
}

fn end_line(r: &mut Rng, out: &mut String) {
    if out.ends_with('\u{1}') {
        out.pop();
        return;
    }
    comment(r, out);
    out.push('\n');
    while r.below(6) == 0 {
        out.push_str(&" ".repeat(r.below(4)));
        if r.below(2) == 0 {
            out.push_str("# full line comment");
        }
        out.push('\n');
    }
}

fn render_flow(r: &mut Rng, y: &Yaml<'static>, indent: usize, out: &mut String) {
    let brk = |r: &mut Rng, out: &mut String| {
        if r.below(3) == 0 {
            comment(r, out);
            out.push('\n');
            out.push_str(&" ".repeat(indent + 1 + r.below(3)));
        } else if r.below(2) == 0 {
            out.push(' ');
        }
    };
    match y {
        Yaml::Sequence(v) => {
            out.push('[');
            brk(r, out);
            for (i, x) in v.iter().enumerate() {
                if i > 0 {
                    out.push(',');
                    brk(r, out);
                    if !out.ends_with(' ') {
                        out.push(' ');
                    }
                }
                render_flow(r, x, indent, out);
                brk(r, out);
            }
            out.push(']');
        }
        Yaml::Mapping(m) => {
            out.push('{');
            brk(r, out);
            for (i, (k, v)) in m.iter().enumerate() {
                if i > 0 {
                    out.push(',');
                    brk(r, out);
                    if !out.ends_with(' ') {
                        out.push(' ');
                    }
                }
                out.push_str("? ");
                render_flow(r, k, indent, out);
                brk(r, out);
                if !out.ends_with(' ') {
                    out.push(' ');
                }
                out.push_str(": ");
                render_flow(r, v, indent, out);
                brk(r, out);
            }
            out.push('}');
        }
        Yaml::Value(saphyr::Scalar::String(s)) => {
            let mut tmp = String::new();
            render_scalar(r, s, indent, true, &mut tmp);
            out.push_str(&tmp);
        }
        _ => out.push_str("~"),
    }
}

fn render_block(r: &mut Rng, y: &Yaml<'static>, indent: usize, out: &mut String) {
    // precondition: we are right after an indicator + space, or at line start with indentation
    // written. Postcondition: line ended.
    let step = 1 + r.below(4);
    match y {
        Yaml::Sequence(v) if !v.is_empty() && r.below(4) != 0 => {
            // start on a new line unless we can nest compactly
            end_line(r, out);
            let ind = indent + step;
            for x in v {
                out.push_str(&" ".repeat(ind));
                out.push('-');
                match x {
                    Yaml::Sequence(w) if !w.is_empty() && r.below(2) == 0 => {
                        // compact nested: "- - a"
                        out.push(' ');
                        let mut first = true;
                        for z in w {
                            if !first {
                                out.push_str(&" ".repeat(ind + 2));
                            }
                            first = false;
                            out.push_str("- ");
                            render_leafish(r, z, ind + 2, out);
                        }
                    }
                    _ => {
                        out.push(' ');
                        render_leafish(r, x, ind, out);
                    }
                }
            }
        }
        Yaml::Mapping(m) if !m.is_empty() && r.below(4) != 0 => {
            end_line(r, out);
            let ind = indent + step;
            for (k, v) in m {
                out.push_str(&" ".repeat(ind));
                out.push_str("? ");
                render_leafish(r, k, ind, out);
                out.push_str(&" ".repeat(ind));
                out.push_str(": ");
                render_leafish(r, v, ind, out);
            }
        }
        _ => {
            render_flow(r, y, indent, out);
            end_line(r, out);
        }
    }
}

fn render_leafish(r: &mut Rng, y: &Yaml<'static>, indent: usize, out: &mut String) {
    match y {
        Yaml::Value(saphyr::Scalar::String(s)) => {
            render_scalar(r, s, indent, false, out);
            end_line(r, out);
        }
        _ => render_block(r, y, indent, out),
    }
}

#[test]
fn model_rendered() {
    let mut st = Stats { cases: 0, found: BTreeMap::new(), counts: BTreeMap::new() };
    let mut r = Rng(0x0F0F_1234_5678_9ABC ^ seed());
    let mut ok = 0usize;
    let mut roundtrip_bad = 0usize;
    let n = budget(50_000);
    for i in 0..n {
        let mut out = String::new();
        let ndocs = 1 + r.below(3);
        let mut trees = vec![];
        for d in 0..ndocs {
            if d == 0 && r.below(3) == 0 {
                out.push_str("%YAML 1.2");
                end_line(&mut r, &mut out);
            }
            let t = gen_tree(&mut r, 3);
            out.push_str("--- ");
            render_block(&mut r, &t, 0, &mut out);
            if r.below(2) == 0 || d + 1 == ndocs && r.below(2) == 0 {
                out.push_str("...");
                end_line(&mut r, &mut out);
            }
            trees.push(t);
        }
        if r.below(3) == 0 {
            // drop the final line break
            out.pop();
        }
        let base = run_str(&out).unwrap();
        if base.error.is_none() {
            ok += 1;
            // does the text load back as the model? (renderer sanity, informational)
            if let Ok(l) = Yaml::load_from_str(&out) {
                if l != trees {
                    roundtrip_bad += 1;
                }
            }
        }
        check(&out, &mut st, i % 4 == 0);
    }
    eprintln!("model_rendered: {ok}/{n} accepted by the parser, {roundtrip_bad} loaded differently from the model");
    report(&st, "model_rendered");
    assert!(st.found.is_empty());
}


#[test]
fn exhaustive_odd_chars() {
    let mut st = Stats { cases: 0, found: BTreeMap::new(), counts: BTreeMap::new() };
    let alpha: &[&str] = &[
        "\n", " ", "a", "-", ":", "#", "\"", "'", "|", "[", "]", ",", "\\", "\t", "\0", "\u{FEFF}", "\u{85}", "\u{2028}",
        "\u{1}", "é", "\u{1F600}",
    ];
    let prefixes: &[&str] = &["", "- ", "a:\n ", "[", "\"", "'", "|\n ", ">\n ", "--- ", "&a ", "!t ", "a\n", "%FOO "];
    let suffixes: &[&str] = &["", "\n", "\nb"];
    for p in prefixes {
        for s in suffixes {
            let mut cur = String::new();
            enum_rec(alpha, 4, &mut cur, &mut |mid: &str| {
                if !mid.contains('\n') && !p.contains('\n') && !s.contains('\n') {
                    return;
                }
                let input = format!("{p}{mid}{s}");
                check(&input, &mut st, false);
            });
        }
    }
    report(&st, "exhaustive_odd_chars");
    assert!(st.found.is_empty());
}

// ---------------------------------------------------------------------------------------------
// Higher-level entry points: MarkedYamlOwned spans, load_from_iter, YamlDecoder (UTF-8/16).
fn strip_index(s: &str) -> String {
    let mut out = String::new();
    let mut rest = s;
    while let Some(p) = rest.find("index: ") {
        out.push_str(&rest[..p]);
        rest = &rest[p + 7..];
        let n = rest.find(|c: char| !c.is_ascii_digit()).unwrap_or(rest.len());
        rest = &rest[n..];
    }
    out.push_str(rest);
    out
}

fn high_level(s: &str, utf8_bytes: bool) -> Vec<String> {
    use saphyr::{MarkedYamlOwned, YamlDecoder};
    let mut v = vec![];
    v.push(strip_index(&format!("{:?}", MarkedYamlOwned::load_from_str(s).map_err(|e| (e.info().to_string(), e.marker().line(), e.marker().col())))));
    v.push(strip_index(&format!("{:?}", MarkedYamlOwned::load_from_iter(s.chars()).map_err(|e| (e.info().to_string(), e.marker().line(), e.marker().col())))));
    let dec = |bytes: Vec<u8>| -> String {
        match YamlDecoder::read(&bytes[..]).decode() {
            Ok(d) => format!("{d:?}"),
            Err(e) => strip_index(&format!("error {e:?}")),
        }
    };
    // (a NUL among the first bytes makes the decoder take the bytes for UTF-16: then the byte
    // substitution is not a line-break substitution of the decoded text -- out of scope)
    if utf8_bytes {
        v.push(dec(s.as_bytes().to_vec()));
    }
    let mut le = vec![0xFF, 0xFE];
    let mut be = vec![0xFE, 0xFF];
    for u in s.encode_utf16() {
        le.extend_from_slice(&u.to_le_bytes());
        be.extend_from_slice(&u.to_be_bytes());
    }
    v.push(dec(le));
    v.push(dec(be));
    v
}

#[test]
fn high_level_entry_points() {
    let mut r = Rng(0xABCDEF0123456789 ^ seed());
    let c = corpus();
    let mut n = 0usize;
    let mut bad = vec![];
    let mut inputs: Vec<String> = c.clone();
    for _ in 0..budget(50_000) / 4 {
        inputs.push(gen_soup(&mut r));
        inputs.push(mutate(&mut r, &c));
    }
    for input in &inputs {
        if input.contains('\r') {
            continue;
        }
        n += 1;
        let u8ok = !input.bytes().take(4).any(|b| b == 0);
        let base = high_level(input, u8ok);
        for rep in ["\r\n", "\r"] {
            let v = high_level(&input.replace('\n', rep), u8ok);
            if v != base && bad.len() < 5 {
                bad.push((input.clone(), rep, base.clone(), v));
            }
        }
    }
    eprintln!("== high_level_entry_points: {n} cases, {} discrepancies", bad.len());
    for b in &bad {
        eprintln!("{b:?}");
    }
    assert!(bad.is_empty());
}
